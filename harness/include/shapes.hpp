// Closed triangulated test shapes for the conformance drivers.
#pragma once
#include <array>
#include <cmath>
#include <map>
#include <utility>
#include <vector>

namespace shapes {

struct tmesh {
    std::vector<double> pos;        // x0,y0,z0,x1,...
    std::vector<unsigned> tris;     // n0,n1,n2 per face, outward (right-hand rule)
    size_t nn() const { return pos.size() / 3; }
    size_t nf() const { return tris.size() / 3; }
};

inline tmesh octahedron() {
    tmesh m;
    m.pos = {1, 0, 0, -1, 0, 0, 0, 1, 0, 0, -1, 0, 0, 0, 1, 0, 0, -1};
    m.tris = {0, 2, 4, 2, 1, 4, 1, 3, 4, 3, 0, 4, 2, 0, 5, 1, 2, 5, 3, 1, 5, 0, 3, 5};
    return m;
}

inline tmesh tetrahedron() {
    tmesh m;
    m.pos = {1, 1, 1, 1, -1, -1, -1, 1, -1, -1, -1, 1};
    m.tris = {0, 1, 2, 0, 3, 1, 1, 3, 2, 0, 2, 3};
    return m;
}

// each triangle -> 4, new nodes at edge midpoints (optionally pushed on the unit sphere)
inline tmesh subdivide(const tmesh& in, bool on_sphere) {
    tmesh m;
    m.pos = in.pos;
    std::map<std::pair<unsigned, unsigned>, unsigned> mid;
    auto midpoint = [&](unsigned a, unsigned b) {
        auto key = std::make_pair(std::min(a, b), std::max(a, b));
        auto it = mid.find(key);
        if (it != mid.end()) return it->second;
        unsigned id = m.pos.size() / 3;
        for (int k = 0; k < 3; k++) m.pos.push_back(0.5 * (m.pos[3 * a + k] + m.pos[3 * b + k]));
        mid[key] = id;
        return id;
    };
    for (size_t f = 0; f < in.nf(); f++) {
        unsigned a = in.tris[3 * f], b = in.tris[3 * f + 1], c = in.tris[3 * f + 2];
        unsigned ab = midpoint(a, b), bc = midpoint(b, c), ca = midpoint(c, a);
        unsigned t[12] = {a, ab, ca, ab, b, bc, ca, bc, c, ab, bc, ca};
        m.tris.insert(m.tris.end(), t, t + 12);
    }
    if (on_sphere)
        for (size_t i = 0; i < m.nn(); i++) {
            double n = std::sqrt(m.pos[3 * i] * m.pos[3 * i] + m.pos[3 * i + 1] * m.pos[3 * i + 1] + m.pos[3 * i + 2] * m.pos[3 * i + 2]);
            for (int k = 0; k < 3; k++) m.pos[3 * i + k] /= n;
        }
    return m;
}

inline tmesh sphere(int level) {
    tmesh m = octahedron();
    for (int i = 0; i < level; i++) m = subdivide(m, true);
    return m;
}

// axis aligned box [0,p]x[0,q]x[0,r] made of unit squares, each split along a diagonal (diag: 0 or 1 per call site)
inline tmesh box(int p, int q, int r, int diag = 0) {
    tmesh m;
    std::map<std::array<int, 3>, unsigned> id;
    auto node = [&](int x, int y, int z) {
        std::array<int, 3> k = {x, y, z};
        auto it = id.find(k);
        if (it != id.end()) return it->second;
        unsigned n = m.pos.size() / 3;
        m.pos.push_back(x); m.pos.push_back(y); m.pos.push_back(z);
        id[k] = n;
        return n;
    };
    // quad (a,b,c,d) counter-clockwise seen from outside
    auto quad = [&](unsigned a, unsigned b, unsigned c, unsigned d, int parity) {
        if ((parity + diag) % 2 == 0) { unsigned t[6] = {a, b, c, a, c, d}; m.tris.insert(m.tris.end(), t, t + 6); }
        else { unsigned t[6] = {a, b, d, b, c, d}; m.tris.insert(m.tris.end(), t, t + 6); }
    };
    for (int x = 0; x < p; x++) for (int y = 0; y < q; y++) {
        quad(node(x, y, 0), node(x, y + 1, 0), node(x + 1, y + 1, 0), node(x + 1, y, 0), x + y);          // bottom, normal -z
        quad(node(x, y, r), node(x + 1, y, r), node(x + 1, y + 1, r), node(x, y + 1, r), x + y);          // top, normal +z
    }
    for (int x = 0; x < p; x++) for (int z = 0; z < r; z++) {
        quad(node(x, 0, z), node(x + 1, 0, z), node(x + 1, 0, z + 1), node(x, 0, z + 1), x + z);          // front, normal -y
        quad(node(x, q, z), node(x, q, z + 1), node(x + 1, q, z + 1), node(x + 1, q, z), x + z);          // back, normal +y
    }
    for (int y = 0; y < q; y++) for (int z = 0; z < r; z++) {
        quad(node(0, y, z), node(0, y, z + 1), node(0, y + 1, z + 1), node(0, y + 1, z), y + z);          // left, normal -x
        quad(node(p, y, z), node(p, y + 1, z), node(p, y + 1, z + 1), node(p, y, z + 1), y + z);          // right, normal +x
    }
    return m;
}

inline void transform(tmesh& m, double scale, double tx, double ty, double tz) {
    for (size_t i = 0; i < m.nn(); i++) {
        m.pos[3 * i] = m.pos[3 * i] * scale + tx;
        m.pos[3 * i + 1] = m.pos[3 * i + 1] * scale + ty;
        m.pos[3 * i + 2] = m.pos[3 * i + 2] * scale + tz;
    }
}

}  // namespace shapes
