// Projection of a real `cell` onto the variables of spec/Mesh, shared by the mesh drivers.
// Defines the friend classes `cell_tester` / `face_tester` / `node_tester` that the repository declares.
#pragma once
#include "vjson.hpp"
#include "cell.hpp"
#include "local_mesh_refiner.hpp"
#include <array>
#include <atomic>
#include <map>
#include <memory>
#include <vector>

class cell_tester {
public:
    static std::vector<node>& nodes(cell& c) { return c.node_lst_; }
    static std::vector<face>& faces(cell& c) { return c.face_lst_; }
    static std::vector<unsigned>& free_nodes(cell& c) { return c.free_node_queue_; }
    static std::vector<unsigned>& free_faces(cell& c) { return c.free_face_queue_; }
    static edge_set& edges(cell& c) { return c.edge_set_; }
    static vec3& pos(node& n) { return n.pos_; }
    static vec3& force(node& n) { return n.force_; }
#if CONTACT_MODEL_INDEX == 1 || CONTACT_MODEL_INDEX == 2
    static vec3& node_normal(node& n) { return n.normal_; }
#endif
#if CONTACT_MODEL_INDEX == 1
    // what contact_node_node_via_coupling::run does to every live node at the start of a contact phase
    static void reset_coupling(node& n) { n.coupled_node_ = std::nullopt; n.squared_distance_to_closest_node_ = std::numeric_limits<double>::max(); }
    static double closest_d2(const node& n) { return n.squared_distance_to_closest_node_; }
#endif
#if DYNAMIC_MODEL_INDEX == 0
    static vec3& momentum(node& n) { return n.momentum_; }
#endif
#if CONTACT_MODEL_INDEX == 2
    static std::map<unsigned, std::pair<unsigned, double>>& coupled_map(node& n) { return n.coupled_nodes_map_; }
#endif
    static std::array<unsigned, 3> tri(const face& f) { return {f.n1_id_, f.n2_id_, f.n3_id_}; }
    static unsigned short& ftype(face& f) { return f.type_id_; }
    static unsigned face_local_id(const face& f) { return f.local_face_id_; }
    static unsigned node_local_id(const node& n) { return n.node_id_; }
    static cell_ptr owner(const face& f) { return f.owner_cell_; }
    static const vec3& normal(const face& f) { return f.normal_; }
    static double& volume(cell& c) { return c.volume_; }
    static double& area(cell& c) { return c.area_; }
    static double& target_volume(cell& c) { return c.target_volume_; }
    static double& pressure(cell& c) { return c.pressure_; }
    static double& growth_rate(cell& c) { return c.growth_rate_; }
    static double& division_volume(cell& c) { return c.division_volume_; }
    static cell_type_param_ptr& cell_type(cell& c) { return c.cell_type_; }
    static bool& is_static(cell& c) { return c.is_static_; }
    static void translate(cell& c, const vec3& t) { c.translate(t); }
    static void update_target_volume(cell& c, double dt) { c.update_target_volume(dt); }
    static void apply_pressure(cell& c) { c.apply_pressure_on_surface(); }
    static void apply_tension(cell& c) { c.apply_surface_tension_and_membrane_elasticity(); }
    static void apply_bending(cell& c) { c.apply_bending_forces(); }

    // ---- projection onto spec/Mesh
    static void mesh_json(cell& c, vj::out& o) {
        auto& N = c.node_lst_;
        auto& F = c.face_lst_;
        o.obj();
        o.key("nslots").i(N.size());
        o.key("fslots").i(F.size());
        o.key("used").arr();
        for (size_t i = 0; i < N.size(); i++) if (N[i].is_used()) o.i(i);
        o.end_arr();
        o.key("tri").arr();
        for (auto& f : F) { o.arr(); if (f.is_used()) { o.i(f.n1_id_).i(f.n2_id_).i(f.n3_id_); } o.end_arr(); }
        o.end_arr();
        o.key("ftype").arr();
        for (auto& f : F) o.i(f.is_used() ? f.type_id_ : 0);
        o.end_arr();
        o.key("nrm").arr();
        for (auto& f : F) {
            bool ok = true;
            if (f.is_used() && f.n1_id_ < N.size() && f.n2_id_ < N.size() && f.n3_id_ < N.size()) {
                const vec3 w = (N[f.n2_id_].pos_ - N[f.n1_id_].pos_).cross(N[f.n3_id_].pos_ - N[f.n1_id_].pos_);
                ok = w.dot(f.normal_) > 0.;
            }
            o.b(ok);
        }
        o.end_arr();
        o.key("freeN").iarr(c.free_node_queue_);
        o.key("freeF").iarr(c.free_face_queue_);
        o.end_obj();
    }
    // the real edge_set_: [n1, n2, f1, f2] with -1 for an absent face
    static void eset_json(cell& c, vj::out& o) {
        o.arr();
        for (const edge& e : c.edge_set_) {
            long long f1 = -1, f2 = -1;
            try { f1 = e.f1(); } catch (...) {}
            try { f2 = e.f2(); } catch (...) {}
            o.arr().i(e.n1()).i(e.n2()).i(f1).i(f2).end_arr();
        }
        o.end_arr();
    }
    // every live node / face carries its own slot number, node/face counts agree with the free queues
    static bool ids_ok(cell& c) {
        for (size_t i = 0; i < c.node_lst_.size(); i++) if (c.node_lst_[i].is_used() && c.node_lst_[i].node_id_ != i) return false;
        for (size_t i = 0; i < c.face_lst_.size(); i++) if (c.face_lst_[i].is_used() && c.face_lst_[i].local_face_id_ != i) return false;
        size_t un = 0, uf = 0;
        for (auto& n : c.node_lst_) un += n.is_used();
        for (auto& f : c.face_lst_) uf += f.is_used();
        return c.get_nb_of_nodes() == un && c.get_nb_of_faces() == uf;
    }
    // Puts the cell into the state that a history of edge collapses leaves it in -- unused slots in the MIDDLE of the node and
    // face lists, live elements after them -- without changing its geometry or connectivity: the faces of the first `k` face slots
    // move to new slots at the end of the list, and (if `node_hole`) the node of slot 0 moves to a new slot at the end.
    // Only the cell's own add_* / delete_* operations are used, so the edge index and the free queues stay consistent.
    static void fragment(cell& c, unsigned k, bool node_hole) {
        if (node_hole && !c.node_lst_.empty() && c.node_lst_[0].is_used()) {
            node copy = c.node_lst_[0];
            std::vector<unsigned> stash; stash.swap(c.free_node_queue_);
            const unsigned nid = c.add_node(copy);                       // appended: the queue is empty
            c.free_node_queue_.swap(stash);
            for (size_t f = 0; f < c.face_lst_.size(); f++) {
                if (!c.face_lst_[f].is_used() || !c.face_lst_[f].has_node(0)) continue;
                face cp = c.face_lst_[f];
                if (cp.n1_id_ == 0) cp.n1_id_ = nid;
                if (cp.n2_id_ == 0) cp.n2_id_ = nid;
                if (cp.n3_id_ == 0) cp.n3_id_ = nid;
                c.delete_face((unsigned)f);
                c.add_face(cp);                                          // re-uses slot f (last freed)
            }
            c.delete_node(0u);
        }
        for (unsigned i = 0; i < k && i < c.face_lst_.size(); i++) {
            if (!c.face_lst_[i].is_used()) continue;
            face cp = c.face_lst_[i];
            c.delete_face(i);
            std::vector<unsigned> stash; stash.swap(c.free_face_queue_);
            c.add_face(cp);                                              // appended
            c.free_face_queue_.swap(stash);
        }
    }
    // six times the signed volume given by the windings
    static double signed_vol6(cell& c) {
        double v = 0;
        auto& N = c.node_lst_;
        for (auto& f : c.face_lst_) if (f.is_used()) {
            if (f.n1_id_ >= N.size() || f.n2_id_ >= N.size() || f.n3_id_ >= N.size()) continue;
            const vec3 &a = N[f.n1_id_].pos_, &b = N[f.n2_id_].pos_, &cc = N[f.n3_id_].pos_;
            v += a.dot(b.cross(cc));
        }
        return v;
    }
};
