// Minimal JSON reader/writer for the conformance drivers (no external dependency).
#pragma once
#include <cmath>
#include <cstdio>
#include <cstdlib>
#include <cstring>
#include <fstream>
#include <iostream>
#include <map>
#include <memory>
#include <sstream>
#include <stdexcept>
#include <string>
#include <vector>

namespace vj {

struct value;
typedef std::shared_ptr<value> vptr;

struct value {
    enum kind_t { NUL, BOOL, NUM, STR, ARR, OBJ } kind = NUL;
    bool b = false;
    double num = 0;
    std::string str;
    std::vector<vptr> arr;
    std::map<std::string, vptr> obj;

    bool has(const std::string& k) const { return kind == OBJ && obj.count(k); }
    const value& operator[](const std::string& k) const {
        auto it = obj.find(k);
        if (kind != OBJ || it == obj.end()) throw std::runtime_error("json: missing key " + k);
        return *it->second;
    }
    const value& operator[](size_t i) const {
        if (kind != ARR || i >= arr.size()) throw std::runtime_error("json: bad index");
        return *arr[i];
    }
    size_t size() const { return kind == ARR ? arr.size() : obj.size(); }
    double d() const { if (kind != NUM) throw std::runtime_error("json: not a number"); return num; }
    long long i() const { return (long long)std::llround(d()); }
    bool boolean() const { return kind == BOOL ? b : (kind == NUM ? num != 0 : false); }
    const std::string& s() const { if (kind != STR) throw std::runtime_error("json: not a string"); return str; }
    std::vector<double> dvec() const { std::vector<double> v; for (auto& e : arr) v.push_back(e->d()); return v; }
    std::vector<long long> ivec() const { std::vector<long long> v; for (auto& e : arr) v.push_back(e->i()); return v; }
};

class parser {
    const char* p_;
    const char* e_;
    void ws() { while (p_ < e_ && (*p_ == ' ' || *p_ == '\t' || *p_ == '\n' || *p_ == '\r')) ++p_; }
public:
    parser(const char* p, const char* e) : p_(p), e_(e) {}
    vptr parse() {
        ws();
        if (p_ >= e_) throw std::runtime_error("json: unexpected end");
        vptr v = std::make_shared<value>();
        char c = *p_;
        if (c == '{') {
            v->kind = value::OBJ; ++p_; ws();
            if (*p_ == '}') { ++p_; return v; }
            while (true) {
                ws(); vptr k = parse(); ws();
                if (*p_ != ':') throw std::runtime_error("json: expected :");
                ++p_;
                v->obj[k->str] = parse(); ws();
                if (*p_ == ',') { ++p_; continue; }
                if (*p_ == '}') { ++p_; return v; }
                throw std::runtime_error("json: expected , or }");
            }
        }
        if (c == '[') {
            v->kind = value::ARR; ++p_; ws();
            if (*p_ == ']') { ++p_; return v; }
            while (true) {
                v->arr.push_back(parse()); ws();
                if (*p_ == ',') { ++p_; continue; }
                if (*p_ == ']') { ++p_; return v; }
                throw std::runtime_error("json: expected , or ]");
            }
        }
        if (c == '"') {
            v->kind = value::STR; ++p_;
            while (p_ < e_ && *p_ != '"') {
                if (*p_ == '\\' && p_ + 1 < e_) {
                    ++p_;
                    switch (*p_) { case 'n': v->str += '\n'; break; case 't': v->str += '\t'; break;
                                   case 'r': v->str += '\r'; break; default: v->str += *p_; }
                } else v->str += *p_;
                ++p_;
            }
            ++p_;
            return v;
        }
        if (!strncmp(p_, "true", 4)) { v->kind = value::BOOL; v->b = true; p_ += 4; return v; }
        if (!strncmp(p_, "false", 5)) { v->kind = value::BOOL; v->b = false; p_ += 5; return v; }
        if (!strncmp(p_, "null", 4)) { p_ += 4; return v; }
        char* end = nullptr;
        v->kind = value::NUM;
        v->num = strtod(p_, &end);
        if (end == p_) throw std::runtime_error(std::string("json: bad token at ") + std::string(p_, std::min<size_t>(20, e_ - p_)));
        p_ = end;
        return v;
    }
};

inline vptr parse(const std::string& s) { parser p(s.data(), s.data() + s.size()); return p.parse(); }

// ---- writer: builds one JSON text incrementally
class out {
    std::string s_;
    std::vector<bool> first_;
    void sep() { if (!first_.empty()) { if (!first_.back()) s_ += ','; first_.back() = false; } }
public:
    out& key(const char* k) { sep(); s_ += '"'; s_ += k; s_ += "\":"; first_.back() = true; return *this; }
    out& obj() { sep(); s_ += '{'; first_.push_back(true); return *this; }
    out& end_obj() { s_ += '}'; first_.pop_back(); if (!first_.empty()) first_.back() = false; return *this; }
    out& arr() { sep(); s_ += '['; first_.push_back(true); return *this; }
    out& end_arr() { s_ += ']'; first_.pop_back(); if (!first_.empty()) first_.back() = false; return *this; }
    out& i(long long v) { sep(); s_ += std::to_string(v); return *this; }
    out& b(bool v) { sep(); s_ += v ? "true" : "false"; return *this; }
    out& d(double v) { sep(); char buf[40]; if (std::isfinite(v)) snprintf(buf, sizeof buf, "%.17g", v); else snprintf(buf, sizeof buf, "\"%s\"", std::isnan(v) ? "nan" : (v > 0 ? "inf" : "-inf")); s_ += buf; return *this; }
    out& str(const std::string& v) {
        sep(); s_ += '"';
        for (char c : v) { if (c == '"' || c == '\\') { s_ += '\\'; s_ += c; } else if (c == '\n') s_ += "\\n"; else if ((unsigned char)c < 0x20) s_ += ' '; else s_ += c; }
        s_ += '"'; return *this;
    }
    template <class V> out& iarr(const V& v) { arr(); for (auto x : v) i((long long)x); return end_arr(); }
    template <class V> out& darr(const V& v) { arr(); for (auto x : v) d((double)x); return end_arr(); }
    const std::string& text() const { return s_; }
    void clear() { s_.clear(); first_.clear(); }
};

inline std::vector<vptr> read_ndjson(const std::string& path) {
    std::ifstream f(path);
    if (!f) throw std::runtime_error("cannot open " + path);
    std::vector<vptr> rows;
    std::string line;
    while (std::getline(f, line)) { if (line.find_first_not_of(" \t\r\n") == std::string::npos) continue; rows.push_back(parse(line)); }
    return rows;
}

}  // namespace vj
