// C12 conformance driver: real initialize_cell_properties / compute_* / get_aabb / get_cell_longest_axis on lattice meshes.
//   geom_driver <cases.ndjson> <out.ndjson>
// case: {"k":..,"shape":"tetra|octa|bipyr|box","dims":[p,q,r],"diag":0|1,"flip":[face ids],"perm":[3 ints],"sign":[3 ints],"t":[3 ints],"scale":k,
//        "unit":u,"node_shift":n,"face_shift":n,"long_axis":-1|0|1|2}
#include "mesh_probe.hpp"
#include <optional>
#include "shapes.hpp"
#include <numeric>

// ---- "big": initialisation of a mesh with 65538 nodes / 131072 triangles given with mixed windings, naturally numbered and
// renumbered (reversed node numbering, rotated triangle order).  Too large for TLC to recompute the quantities: the driver compares
// with its own long-double evaluation on the consistently wound source mesh and logs verdicts.
static int run_big(const char* out_path) {
    FILE* fo = fopen(out_path, "w");
    shapes::tmesh src = shapes::sphere(7);
    for (size_t i = 0; i < src.pos.size(); i++) src.pos[i] = src.pos[i] * (i % 3 == 0 ? 1.3 : i % 3 == 1 ? 1.0 : 0.8) * 1e-5 + (i % 3 == 0 ? 3e-4 : i % 3 == 1 ? -1e-4 : 2e-4);
    const size_t nn = src.nn(), nf = src.tris.size() / 3;
    long double vol = 0, area = 0;
    for (size_t f = 0; f < nf; f++) {
        long double P[3][3]; for (int k = 0; k < 3; k++) for (int a = 0; a < 3; a++) P[k][a] = src.pos[3 * src.tris[3 * f + k] + a] - (a == 0 ? 3e-4L : a == 1 ? -1e-4L : 2e-4L);
        const long double cx = P[1][1] * P[2][2] - P[1][2] * P[2][1], cy = P[1][2] * P[2][0] - P[1][0] * P[2][2], cz = P[1][0] * P[2][1] - P[1][1] * P[2][0];
        vol += (P[0][0] * cx + P[0][1] * cy + P[0][2] * cz) / 6;
        long double u[3], v[3]; for (int a = 0; a < 3; a++) { u[a] = P[1][a] - P[0][a]; v[a] = P[2][a] - P[0][a]; }
        const long double nx = u[1] * v[2] - u[2] * v[1], ny = u[2] * v[0] - u[0] * v[2], nz = u[0] * v[1] - u[1] * v[0];
        area += sqrtl(nx * nx + ny * ny + nz * nz) / 2;
    }
    for (int variant = 0; variant < 2; variant++) {
        std::vector<double> pos(src.pos.size()); std::vector<unsigned> tris(src.tris.size());
        auto nid = [&](unsigned i) { return variant == 0 ? i : (unsigned)(nn - 1 - i); };
        for (size_t i = 0; i < nn; i++) for (int a = 0; a < 3; a++) pos[3 * nid((unsigned)i) + a] = src.pos[3 * i + a];
        for (size_t f = 0; f < nf; f++) {
            const size_t slot = variant == 0 ? f : (f + 12345) % nf;
            unsigned a = nid(src.tris[3 * f]), b = nid(src.tris[3 * f + 1]), c = nid(src.tris[3 * f + 2]);
            if (f % 3 == 1 || f == 0) std::swap(b, c);               // mixed windings, first face inward
            tris[3 * slot] = a; tris[3 * slot + 1] = b; tris[3 * slot + 2] = c;
        }
        cell_ptr c = std::make_shared<cell>(pos, tris, 0);
        std::string err;
        try { c->initialize_cell_properties(true); } catch (std::exception& e) { err = e.what(); }
        bool normals_ok = err.empty(); size_t inward = 0;
        if (err.empty()) {
            const vec3 cen = c->compute_centroid();
            auto& N = cell_tester::nodes(*c);
            for (auto& f : cell_tester::faces(*c)) if (f.is_used()) {
                auto t = cell_tester::tri(f);
                const vec3 w = (N[t[1]].pos() - N[t[0]].pos()).cross(N[t[2]].pos() - N[t[0]].pos());
                const vec3 fc = (N[t[0]].pos() + N[t[1]].pos() + N[t[2]].pos()) / 3.;
                if (!(w.dot(f.get_normal()) > 0.) || !(f.get_normal().dot(fc - cen) > 0.)) { normals_ok = false; inward++; }      // the ellipsoid is star-shaped about its centroid
            }
        }
        vj::out o;
        o.obj().key("op").str(variant == 0 ? "big_natural" : "big_renumbered").key("error").str(err).key("nn").i(nn).key("nf").i(nf);
        o.key("vol_ok").b(err.empty() && std::abs((long double)c->get_volume() - vol) <= 1e-7L * vol).key("area_ok").b(err.empty() && std::abs((long double)c->get_area() - area) <= 1e-9L * area);
        o.key("normals_ok").b(normals_ok).key("inward").i(inward).end_obj();
        fprintf(fo, "%s\n", o.text().c_str()); fflush(fo);
    }
    fclose(fo);
    return 0;
}

int main(int argc, char** argv) {
    if (argc >= 3 && std::string(argv[1]) == "big") return run_big(argv[2]);
    if (argc < 3) return 2;
    auto cases = vj::read_ndjson(argv[1]);
    FILE* fo = fopen(argv[2], "w");
    for (auto& cp : cases) {
        const vj::value& C = *cp;
        shapes::tmesh m;
        const std::string sh = C["shape"].s();
        if (sh == "tetra") { m.pos = {1, 1, 1, 1, -1, -1, -1, 1, -1, -1, -1, 1}; m.tris = {0, 1, 2, 0, 3, 1, 1, 3, 2, 0, 2, 3}; }
        else if (sh == "octa") { m = shapes::octahedron(); for (auto& x : m.pos) x *= 2; }
        else if (sh == "bipyr") { m.pos = {4, 0, 0, -2, 3, 0, -2, -3, 0, 0, 0, 5, 0, 0, -5}; m.tris = {0, 1, 3, 1, 2, 3, 2, 0, 3, 1, 0, 4, 2, 1, 4, 0, 2, 4}; }
        else { auto d = C["dims"].ivec(); m = shapes::box((int)d[0], (int)d[1], (int)d[2], (int)C["diag"].i()); }
        const size_t nn = m.nn(), nf = m.nf();
        // lattice motion: rotation (signed permutation), scaling, translation -- all integers
        auto perm = C["perm"].ivec(), sign = C["sign"].ivec(), tr = C["t"].ivec();
        const long long k = C["scale"].i();
        std::vector<long long> lat(3 * nn);
        for (size_t i = 0; i < nn; i++) for (int a = 0; a < 3; a++)
            lat[3 * i + a] = k * sign[a] * (long long)std::llround(m.pos[3 * i + perm[a] - 1]) + tr[a];
        // renumbering of nodes and faces (cyclic shifts), windings reversed on the faces listed in "flip"
        const size_t ns = (size_t)C["node_shift"].i() % nn, fs = (size_t)C["face_shift"].i() % nf;
        auto nmap = [&](unsigned n) { return (unsigned)((n + ns) % nn); };      // canonical node -> slot in the cell
        const double unit = C["unit"].d();
        std::vector<double> pos(3 * nn);
        for (size_t i = 0; i < nn; i++) for (int a = 0; a < 3; a++) pos[3 * nmap(i) + a] = unit * (double)lat[3 * i + a];
        std::vector<bool> flipped(nf, false);
        for (size_t q = 0; q < C["flip"].size(); q++) flipped[(size_t)C["flip"][q].i()] = true;
        std::vector<unsigned> tris(3 * nf);
        for (size_t f = 0; f < nf; f++) {
            const size_t slot = (f + fs) % nf;
            unsigned a = nmap(m.tris[3 * f]), b = nmap(m.tris[3 * f + 1]), c = nmap(m.tris[3 * f + 2]);
            if (flipped[f]) std::swap(b, c);
            tris[3 * slot] = a; tris[3 * slot + 1] = b; tris[3 * slot + 2] = c;
        }
        cell_ptr c = std::make_shared<cell>(pos, tris, 0);
        vj::out o;
        o.obj().key("k").i(C["k"].i());
        std::string err;
        try { c->initialize_cell_properties(true); } catch (std::exception& e) { err = e.what(); }
        o.key("error").str(err);
        // canonical mesh (outward), lattice positions
        o.key("nn").i(nn).key("tris").arr();
        for (size_t f = 0; f < nf; f++) o.arr().i(m.tris[3 * f]).i(m.tris[3 * f + 1]).i(m.tris[3 * f + 2]).end_arr();
        o.end_arr();
        o.key("pos").arr();
        for (size_t i = 0; i < nn; i++) o.arr().i(lat[3 * i]).i(lat[3 * i + 1]).i(lat[3 * i + 2]).end_arr();
        o.end_arr();
        o.key("flip").iarr(C["flip"].ivec());
        auto as_int = [&](double x, bool& exact) { const double r = std::nearbyint(x); if (std::abs(x - r) > 1e-6 * std::max(1.0, std::abs(r))) exact = false; return (long long)r; };
        bool exact = true, exact_area = true;
        const double u2 = unit * unit, u3 = u2 * unit;
        o.key("vol6").i(as_int(6. * c->get_volume() / u3, exact));
        o.key("vol6_fn").i(as_int(6. * c->compute_volume() / u3, exact));
        o.key("area2").i(as_int(2. * c->get_area() / u2, exact_area));
        const vec3 cen = c->compute_centroid();
        o.key("cen6a").arr().i(as_int(6. * c->get_area() * cen.dx() / u3, exact_area)).i(as_int(6. * c->get_area() * cen.dy() / u3, exact_area)).i(as_int(6. * c->get_area() * cen.dz() / u3, exact_area)).end_arr();
        auto bb = c->get_aabb();
        o.key("bbox").arr();
        for (double x : bb) o.i(as_int(x / unit, exact));
        o.end_arr();
        o.key("exact").b(exact).key("exact_area").b(exact_area);
        o.key("target_vol_same").b(c->get_target_volume() == c->get_volume());
        // the windings after the orientation repair, mapped back to canonical face / node numbers; normals on the winding side and outward
        auto& F = cell_tester::faces(*c);
        auto& N = cell_tester::nodes(*c);
        o.key("repaired").arr();
        bool normals_ok = true;
        for (size_t f = 0; f < nf; f++) {
            const size_t slot = (f + fs) % nf;
            auto t = cell_tester::tri(F[slot]);
            o.arr();
            for (unsigned n : t) o.i((n + nn - ns) % nn);
            o.end_arr();
            const vec3 w = (N[t[1]].pos() - N[t[0]].pos()).cross(N[t[2]].pos() - N[t[0]].pos());
            if (!(w.dot(F[slot].get_normal()) > 0.)) normals_ok = false;
            if (std::abs(F[slot].get_normal().norm() - 1.) > 1e-9) normals_ok = false;
        }
        o.end_arr();
        o.key("normals_ok").b(normals_ok);
        // longest axis of a box with a strictly longest side
        bool axis_ok = true;
        const long la = C["long_axis"].i();
        if (la >= 0 && err.empty()) {
            const vec3 ax = c->get_cell_longest_axis();
            const double comp[3] = {ax.dx(), ax.dy(), ax.dz()};
            axis_ok = std::abs(std::abs(comp[la]) - 1.) < 1e-6 && std::abs(ax.norm() - 1.) < 1e-9;
        }
        // the same after a GENERIC rotation (the 24 lattice rotations of the cases only permute the axes): the long axis must follow
        if (la >= 0 && err.empty()) {
            cell_ptr cr = std::make_shared<cell>(*c);
            const vec3 ax1(1., 0., 0.), ax2(0., 1., 0.);
            const double th1 = 0.7 + 0.01 * (double)(C["k"].i() % 7), th2 = 0.4 + 0.02 * (double)(C["k"].i() % 5);
            auto R = [&](const vec3& v) { return v.rotate_around_axis(ax1, th1).rotate_around_axis(ax2, th2); };
            for (auto& n : cell_tester::nodes(*cr)) if (n.is_used()) cell_tester::pos(n) = R(n.pos());
            cr->update_all_face_normals_and_areas();
            cell_tester::area(*cr) = cr->compute_area(); cell_tester::volume(*cr) = cr->compute_volume();
            vec3 e(la == 0, la == 1, la == 2);
            const vec3 want = R(e), got = cr->get_cell_longest_axis();
            if (!(std::abs(want.dot(got)) > 1. - 1e-6 && std::abs(got.norm() - 1.) < 1e-9)) axis_ok = false;
        }
        // the same on an UNEVENLY sampled copy: a few edges at one end of the long side are split (the surface is unchanged, the node
        // mean moves away from the area centroid), so that an axis computed from sums that mix the two would tilt with the position
        if (la >= 0 && err.empty()) {
            cell_ptr cu = std::make_shared<cell>(*c);
            local_mesh_refiner lmr(1e-30, 1e30, false);
            double top = -1e300;
            for (auto& n : cell_tester::nodes(*cu)) if (n.is_used()) { const double q[3] = {n.pos().dx(), n.pos().dy(), n.pos().dz()}; top = std::max(top, q[la]); }
            for (int rep = 0; rep < 5; rep++) {
                std::optional<edge> pick;
                for (const edge& e : cu->get_edge_set()) {
                    const vec3 &a = cell_tester::nodes(*cu)[e.n1()].pos(), &b = cell_tester::nodes(*cu)[e.n2()].pos();
                    const double qa[3] = {a.dx(), a.dy(), a.dz()}, qb[3] = {b.dx(), b.dy(), b.dz()};
                    if (qa[la] == top && qb[la] == top && (a - b).norm() > 0.4 * unit * C["scale"].d()) { pick = e; break; }
                }
                if (!pick) break;
                edge_set dummy; edge e = *pick;
                lmr.split_edge(e, cu, dummy);
            }
            cu->update_all_face_normals_and_areas();
            cell_tester::area(*cu) = cu->compute_area(); cell_tester::volume(*cu) = cu->compute_volume();
            // (the axis of the node cloud is allowed to differ from the box axis once the sampling is uneven; what it may not do is depend
            // on where the cell is: the same unevenly sampled cell moved to the origin must report the same direction)
            const vec3 ax1 = cu->get_cell_longest_axis();
            const vec3 shift = cu->compute_centroid() * (-1.);
            for (auto& n : cell_tester::nodes(*cu)) if (n.is_used()) cell_tester::pos(n) = n.pos() + shift;
            cu->update_all_face_normals_and_areas();
            cell_tester::area(*cu) = cu->compute_area(); cell_tester::volume(*cu) = cu->compute_volume();
            const vec3 ax2 = cu->get_cell_longest_axis();
            if (!(std::abs(ax1.dot(ax2)) > 1. - 1e-6 && std::abs(ax1.norm() - 1.) < 1e-9)) axis_ok = false;
        }
        o.key("axis_ok").b(axis_ok);
        // the same quantities after the lists got unused slots before live elements (what edge collapses leave behind), and after
        // the compaction that removes them: they are functions of the surface, not of how it is stored
        bool hist_ok = true;
        if (err.empty()) {
            const double v0 = c->compute_volume(), a0 = c->compute_area();
            const vec3 c0 = c->compute_centroid();
            auto bb0 = c->get_aabb();
            // s = 1: same place; s = 2: every node moved by the exact map p -> 2 * (p.y, p.z, p.x) (volume x8, area x4, normals rotated)
            auto same = [&](cell& x, double sc) {
                x.update_all_face_normals_and_areas();
                cell_tester::area(x) = x.compute_area(); cell_tester::volume(x) = x.compute_volume();     // compute_centroid divides by the cached area
                vec3 c1 = x.compute_centroid();
                auto bb1 = x.get_aabb();
                const double v1 = x.compute_volume(), a1 = x.compute_area();
                const vec3 want = sc == 1. ? c0 : vec3(c0.dy(), c0.dz(), c0.dx()) * 2.;
                bool ok = std::abs(v1 - sc * sc * sc * v0) <= 1e-12 * v1 && std::abs(a1 - sc * sc * a0) <= 1e-12 * a1 && (c1 - want).norm() <= 1e-9 * std::cbrt(v1);
                if (getenv("GDBG")) fprintf(stderr, "sc %g v1 %.17g want %.17g a1 %.17g want %.17g cen %g\n", sc, v1, sc * sc * sc * v0, a1, sc * sc * a0, (c1 - want).norm());
                if (sc == 1.) { for (size_t q = 0; q < bb0.size(); q++) if (bb0[q] != bb1[q]) ok = false; }
                for (auto& f : cell_tester::faces(x)) if (f.is_used()) {
                    auto t = cell_tester::tri(f); auto& NN = cell_tester::nodes(x);
                    const vec3 w = (NN[t[1]].pos() - NN[t[0]].pos()).cross(NN[t[2]].pos() - NN[t[0]].pos());
                    if (!(w.dot(f.get_normal()) > 0.999 * w.norm()) || std::abs(f.get_normal().norm() - 1.) > 1e-9) ok = false;
                    if (std::abs(f.get_area() - 0.5 * w.norm()) > 1e-12 * w.norm()) ok = false;
                }
                return ok;
            };
            cell_tester::fragment(*c, 1 + (unsigned)(C["k"].i() % 4), C["k"].i() % 2 == 0);
            if (!same(*c, 1.)) { hist_ok = false; if (getenv("GDBG")) fprintf(stderr, "fail A\n"); }
            for (auto& n : cell_tester::nodes(*c)) if (n.is_used()) { const vec3 q = n.pos(); cell_tester::pos(n) = vec3(q.dy(), q.dz(), q.dx()) * 2.; }
            if (!same(*c, 2.)) hist_ok = false;
            try { c->rebase(); } catch (std::exception&) { hist_ok = false; }
            if (!same(*c, 2.)) hist_ok = false;
        }
        o.key("hist_ok").b(hist_ok);
        o.end_obj();
        fprintf(fo, "%s\n", o.text().c_str());
    }
    fclose(fo);
    return 0;
}
