// C01 conformance driver: executes chains of the real remeshing operations (split_edge, merge_edge, swap_edge,
// rebase, refresh) on seed meshes and logs one record per executed transition:
//    {"op":..,"a":..,"b":..,"f1":..,"f2":..,"pre":<mesh>,"post":<mesh>,"eset":[[n1,n2,f1,f2]..],"ids_ok":..,"vol_pos":..,"threw":".."}
// The records are validated by TLC against spec/Mesh (MeshTrace.tla).
//   mesh_driver dfs <depth> <out.ndjson>                      every chain of <= depth operations from every seed
//   mesh_driver walk <nwalks> <len> <seed> <out.ndjson>       random chains (long histories, slot reuse)
#include "mesh_probe.hpp"
#include "shapes.hpp"
#include <cstdint>
#include <functional>
#include <map>
#include <random>

struct seed_mesh { const char* name; std::vector<double> pos; std::vector<unsigned> tris; };

static std::vector<seed_mesh> seeds() {
    const double s3 = std::sqrt(3.) / 2.;
    return {
        {"tetra", {1, 1, 1, 1, -1, -1, -1, 1, -1, -1, -1, 1}, {0, 2, 1, 0, 1, 3, 1, 2, 3, 0, 3, 2}},
        {"octa", {1, 0, 0, -1, 0, 0, 0, 1, 0, 0, -1, 0, 0, 0, 1, 0, 0, -1},
         {0, 2, 4, 2, 1, 4, 1, 3, 4, 3, 0, 4, 2, 0, 5, 1, 2, 5, 3, 1, 5, 0, 3, 5}},
        {"bipyr", {1, 0, 0, -0.5, s3, 0, -0.5, -s3, 0, 0, 0, 1, 0, 0, -1}, {0, 1, 3, 1, 2, 3, 2, 0, 3, 1, 0, 4, 2, 1, 4, 0, 2, 4}},
    };
}

static cell_ptr make_seed(const seed_mesh& s) {
    std::vector<double> p = s.pos;
    for (size_t i = 0; i < p.size(); i++) p[i] += 0.07 * std::sin(1.0 + 12.9898 * (double)i + 3.7 * (double)s.tris.size());   // break the symmetries
    for (size_t i = 0; i < p.size(); i += 3) {  // on the unit sphere
        const double n = std::sqrt(p[i] * p[i] + p[i + 1] * p[i + 1] + p[i + 2] * p[i + 2]);
        p[i] /= n; p[i + 1] /= n; p[i + 2] /= n;
    }
    cell_ptr c = std::make_shared<cell>(p, s.tris, 0);
    c->initialize_cell_properties(true);
    auto& F = cell_tester::faces(*c);
    for (size_t f = 0; f < F.size(); f++) F[f].set_face_type_id(f % 3);
    return c;
}

// put the node on the unit sphere and recompute the normals of the faces that touch it
// (all of them were created or recomputed by the operation that created the node)
static void project_node(cell& c, unsigned id) {
    auto& N = cell_tester::nodes(c);
    if (id >= N.size() || !N[id].is_used()) return;
    vec3& p = cell_tester::pos(N[id]);
    const double n = p.norm();
    if (n > 0) p = p / n;
    auto& F = cell_tester::faces(c);
    for (size_t f = 0; f < F.size(); f++) if (F[f].is_used() && F[f].has_node(id)) c.update_face_normal_and_area(f);
}

struct op_t { std::string op; edge e; };
static bool generic(cell& c);

static FILE* g_out = nullptr;
static long long g_records = 0;

// executes one operation on a copy of `c`; logs the record; returns the resulting cell (nullptr if it threw)
static cell_ptr apply(const cell_ptr& c, const op_t& o, const local_mesh_refiner& lmr) {
    cell_ptr d = std::make_shared<cell>(*c);
    vj::out j;
    j.obj();
    std::string opname = o.op;
    j.key("pre"); cell_tester::mesh_json(*d, j);
    long long a = -1, b = -1, f1 = -1, f2 = -1;
    std::string threw;
    const size_t nodes_before = cell_tester::nodes(*d).size();
    std::vector<unsigned> freeN_before = cell_tester::free_nodes(*d);
    try {
        if (o.op == "split" || o.op == "swap" || o.op == "merge") {
            edge e = o.e;
            a = e.n1(); b = e.n2(); f1 = e.f1(); f2 = e.f2();
            edge_set dummy;
            if (o.op == "split") { lmr.split_edge(e, d, dummy); }
            else if (o.op == "swap") { lmr.swap_edge(e, d); }
            else {
                if (lmr.can_be_merged(e, d)) lmr.merge_edge(e, d, dummy);
                else opname = "merge_blocked";
            }
            if (opname == "split" || opname == "merge") {
                const unsigned nid = freeN_before.empty() ? (unsigned)nodes_before : freeN_before.back();
                project_node(*d, nid);
            }
        } else if (o.op == "rebase") { d->rebase(); }
        else if (o.op == "refresh") { d->update_all_face_normals_and_areas(); }
    } catch (std::exception& ex) { threw = std::string("exception: ") + ex.what(); }
    j.key("op").str(opname).key("a").i(a).key("b").i(b).key("f1").i(f1).key("f2").i(f2);
    j.key("post"); cell_tester::mesh_json(*d, j);
    j.key("eset"); cell_tester::eset_json(*d, j);
    j.key("ids_ok").b(cell_tester::ids_ok(*d));
    j.key("vol_pos").b(cell_tester::signed_vol6(*d) > 0.);
    j.key("threw").str(threw);
    j.end_obj();
    // a chain whose geometry degenerated (e.g. an edge between antipodal points was split at the centre of the sphere)
    // says nothing about the operations: it is dropped and not continued
    if (threw.empty() && !generic(*d)) return nullptr;
    fprintf(g_out, "%s\n", j.text().c_str());
    g_records++;
    return threw.empty() ? d : nullptr;
}

static std::vector<op_t> enabled(const cell_ptr& c) {
    std::vector<op_t> ops;
    for (const edge& e : c->get_edge_set()) {
        if (!e.is_manifold()) continue;
        ops.push_back({"split", e}); ops.push_back({"swap", e}); ops.push_back({"merge", e});
    }
    ops.push_back({"rebase", edge()}); ops.push_back({"refresh", edge()});
    return ops;
}

// stop descending when the real mesh is visibly broken: the record already shows it and further operations on it
// may be undefined behaviour
// the geometry of the chain is still generic: no (nearly) degenerate triangle.  Judged from the node positions only,
// never from cached data, so that it cannot hide a defect of the code under test.
static bool generic(cell& c) {
    auto& N = cell_tester::nodes(c);
    for (auto& f : cell_tester::faces(c)) if (f.is_used()) {
        auto t = cell_tester::tri(f);
        for (unsigned n : t) if (n >= N.size()) return true;     // broken mesh: let the record show it
        const double a2 = (N[t[1]].pos() - N[t[0]].pos()).cross(N[t[2]].pos() - N[t[0]].pos()).norm();
        if (!(a2 > 1e-3)) return false;
    }
    return true;
}

static bool sane(cell& c) {
    for (const edge& e : c.get_edge_set()) if (!e.is_manifold()) return false;
    auto& N = cell_tester::nodes(c);
    for (auto& f : cell_tester::faces(c)) if (f.is_used()) {
        auto t = cell_tester::tri(f);
        for (unsigned n : t) if (n >= N.size() || !N[n].is_used()) return false;
        if (t[0] == t[1] || t[1] == t[2] || t[0] == t[2]) return false;
    }
    return c.get_nb_of_faces() >= 4;
}

static void dfs(const cell_ptr& c, int depth, const local_mesh_refiner& lmr, size_t max_nodes) {
    if (depth == 0) return;
    for (const op_t& o : enabled(c)) {
        if (o.op == "split" && c->get_nb_of_nodes() >= max_nodes) continue;
        cell_ptr d = apply(c, o, lmr);
        if (d && sane(*d)) dfs(d, depth - 1, lmr, max_nodes);
    }
}

// ---- "big": the same facts on a mesh with more than 65536 node slots / 131072 faces, where 16- and 32-bit index arithmetic
// (edge keys built from pairs of node ids, counters, offsets) has room to wrap.  Too large for TLC to re-derive: the driver
// recomputes the edge-to-face adjacency and closedness from the triangle list with its own code and logs the verdicts.
static void big_verdicts(cell& c, vj::out& o) {
    auto& N = cell_tester::nodes(c); auto& F = cell_tester::faces(c);
    std::map<std::pair<unsigned, unsigned>, int> dir;
    std::map<std::pair<unsigned, unsigned>, std::vector<unsigned>> und;
    bool live_ok = true, norepeat = true, nrm_ok = true; size_t nf = 0;
    for (size_t f = 0; f < F.size(); f++) if (F[f].is_used()) {
        nf++;
        auto t = cell_tester::tri(F[f]);
        for (unsigned x : t) if (x >= N.size() || !N[x].is_used()) live_ok = false;
        if (t[0] == t[1] || t[1] == t[2] || t[0] == t[2]) norepeat = false;
        if (!live_ok) continue;
        for (int k = 0; k < 3; k++) { unsigned a = t[k], b = t[(k + 1) % 3]; dir[{a, b}]++; und[{std::min(a, b), std::max(a, b)}].push_back((unsigned)f); }
        const vec3 w = (N[t[1]].pos() - N[t[0]].pos()).cross(N[t[2]].pos() - N[t[0]].pos());
        if (!(w.dot(F[f].get_normal()) > 0.)) nrm_ok = false;
    }
    bool closed = true;
    for (auto& kv : dir) { auto it = dir.find({kv.first.second, kv.first.first}); if (kv.second != 1 || it == dir.end() || it->second != 1) closed = false; }
    size_t nn = 0; for (auto& n : N) nn += n.is_used();
    const bool euler = (long)nn - (long)und.size() + (long)nf == 2;
    // the stored index: exactly the undirected edges of the triangle list, each with its two faces
    bool index_ok = c.get_edge_set().size() == und.size();
    for (const edge& e : c.get_edge_set()) {
        auto it = und.find({std::min(e.n1(), e.n2()), std::max(e.n1(), e.n2())});
        if (it == und.end() || it->second.size() != 2) { index_ok = false; continue; }
        long f1 = -1, f2 = -1; try { f1 = e.f1(); f2 = e.f2(); } catch (...) {}
        const auto& fs = it->second;
        if (!((f1 == (long)fs[0] && f2 == (long)fs[1]) || (f1 == (long)fs[1] && f2 == (long)fs[0]))) index_ok = false;
    }
    o.key("nn").i(nn).key("nf").i(nf).key("ne").i(und.size()).key("nslots").i(N.size());
    o.key("live_ok").b(live_ok).key("norepeat_ok").b(norepeat).key("closed_ok").b(closed).key("euler_ok").b(euler).key("index_ok").b(index_ok)
     .key("normals_ok").b(nrm_ok).key("ids_ok").b(cell_tester::ids_ok(c)).key("vol_pos").b(cell_tester::signed_vol6(c) > 0.);
}
static int run_big(const char* out_path, int level) {
    FILE* fo = fopen(out_path, "w");
    shapes::tmesh m = shapes::sphere(level);
    for (size_t i = 0; i < m.pos.size(); i++) m.pos[i] *= (i % 3 == 0 ? 1.3 : i % 3 == 1 ? 1.0 : 0.8);      // an ellipsoid: a few longest edges
    cell_ptr c = std::make_shared<cell>(m.pos, m.tris, 0);
    auto rec = [&](const char* op, const std::string& threw) {
        vj::out o; o.obj().key("op").str(op).key("threw").str(threw);
        big_verdicts(*c, o);
        o.end_obj(); fprintf(fo, "%s\n", o.text().c_str()); fflush(fo);
    };
    std::string threw;
    try { c->initialize_cell_properties(true); } catch (std::exception& e) { threw = e.what(); }
    rec("big_init", threw);
    if (threw.empty()) {
        // a pass that splits the longest edges only (a few hundred), then a pass that collapses the shortest, then compaction
        std::vector<double> lens; auto& N = cell_tester::nodes(*c);
        for (const edge& e : c->get_edge_set()) lens.push_back((N[e.n1()].pos() - N[e.n2()].pos()).norm());
        std::sort(lens.begin(), lens.end());
        for (int pass = 0; pass < 2 && threw.empty(); pass++) {
            const double lmin = pass == 0 ? lens.front() * 0.5 : lens[lens.size() / 400], lmax = pass == 0 ? lens[lens.size() - 1 - lens.size() / 400] : lens.back() * 2.1;
            local_mesh_refiner lmr(lmin, std::max(lmax, 2.05 * lmin), false);
            try { lmr.refine_mesh(c); } catch (std::exception& e) { threw = e.what(); }
            rec(pass == 0 ? "big_split_pass" : "big_merge_pass", threw);
        }
        if (threw.empty()) { try { c->rebase(); } catch (std::exception& e) { threw = e.what(); } rec("big_rebase", threw); }
    }
    fclose(fo);
    return 0;
}

int main(int argc, char** argv) {
    setvbuf(stdout, NULL, _IONBF, 0);
    if (argc >= 3 && std::string(argv[1]) == "big") return run_big(argv[2], argc > 3 ? atoi(argv[3]) : 7);
    if (argc < 4) { fprintf(stderr, "usage: mesh_driver dfs <depth> <out> | walk <n> <len> <seed> <out>\n"); return 2; }
    local_mesh_refiner lmr(0.1, 0.3, true);
    std::string mode = argv[1];
    if (mode == "dfs") {
        g_out = fopen(argv[3], "w");
        for (auto& s : seeds()) dfs(make_seed(s), atoi(argv[2]), lmr, 9);
    } else if (mode == "walk") {
        const int nw = atoi(argv[2]), len = atoi(argv[3]);
        std::mt19937_64 rng(strtoull(argv[4], 0, 10));
        g_out = fopen(argv[5], "w");
        auto S = seeds();
        for (int w = 0; w < nw; w++) {
            cell_ptr c = make_seed(S[rng() % S.size()]);
            for (int i = 0; i < len; i++) {
                auto ops = enabled(c);
                // bias towards keeping the mesh small so that merges, slot reuse and compaction interleave
                std::vector<op_t> pick;
                for (auto& o : ops) {
                    if (o.op == "split" && c->get_nb_of_nodes() >= 14) continue;
                    pick.push_back(o);
                }
                const op_t& o = pick[rng() % pick.size()];
                cell_ptr d = apply(c, o, lmr);
                if (!d || !sane(*d)) break;
                c = d;
            }
        }
    } else return 2;
    fclose(g_out);
    printf("records %lld\n", g_records);
    return 0;
}
