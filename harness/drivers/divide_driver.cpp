// C09 conformance driver: real cell_divider::divide_cell on generated mother cells, any division axis.
//   divide_driver <cases.ndjson> <out.ndjson>
// case: {"k":..,"shape":"sphere"|"box","level":n | "dims":[p,q,r],"sub":s,"scale":..,"pos":[..],"axis":[x,y,z]|null,"lmin":..,"seed":..}
// record: mother before/after (spec/Mesh projection + numeric verdicts), the two daughters if the division succeeded
#include "mesh_probe.hpp"
#include "shapes.hpp"
#include "verif_hooks.hpp"
#include "cell_divider.hpp"
#include "epithelial_cell.hpp"
#include <cstring>
#include <random>

class axis_cell : public epithelial_cell {
public:
    vec3 axis_; bool use_axis_ = false;
    axis_cell(const std::vector<double>& p, const std::vector<unsigned>& t, unsigned id, cell_type_param_ptr ct) : epithelial_cell(p, t, id, ct) {}
    vec3 get_cell_division_axis() const noexcept override { return use_axis_ ? axis_ : get_cell_longest_axis(); }
};

static double vol6(cell& c) { return cell_tester::signed_vol6(c); }
static bool same_positions(cell& a, const std::vector<vec3>& before) {
    auto& N = cell_tester::nodes(a);
    if (N.size() != before.size()) return false;
    for (size_t i = 0; i < N.size(); i++) if (std::memcmp(&N[i].pos(), &before[i], sizeof(vec3)) != 0) return false;
    return true;
}

int main(int argc, char** argv) {
    setvbuf(stdout, NULL, _IONBF, 0);
    if (argc < 3) return 2;
    auto cases = vj::read_ndjson(argv[1]);
    FILE* fo = fopen(argv[2], "w");
    static unsigned long long seed_base = 1;
    verif::hooks().seed = [](const char*) { static std::atomic<unsigned long long> n{0}; return seed_base * 7919ULL + (n++); };
    for (auto& cp : cases) {
        const vj::value& C = *cp;
        seed_base = (unsigned long long)C["seed"].i();
        srand((unsigned)C["seed"].i());
        shapes::tmesh m;
        if (C["shape"].s() == "sphere") m = shapes::sphere((int)C["level"].i());
        else {
            auto d = C["dims"].ivec();
            m = shapes::box((int)d[0], (int)d[1], (int)d[2]);
            for (long s = 0; s < C["sub"].i(); s++) m = shapes::subdivide(m, false);
        }
        if (C.has("stretch")) { auto st = C["stretch"].dvec(); for (size_t i = 0; i < m.nn(); i++) for (int k = 0; k < 3; k++) m.pos[3 * i + k] *= st[k]; }
        auto pos = C["pos"].dvec();
        shapes::transform(m, C["scale"].d(), pos[0], pos[1], pos[2]);
        auto ct = std::make_shared<cell_type_parameters>();
        ct->global_type_id_ = 0; ct->mass_density_ = 1e3; ct->bulk_modulus_ = 2.5e3; ct->max_pressure_ = 1e300;
        ct->avg_division_vol_ = 1.; ct->avg_growth_rate_ = 0.; ct->min_vol_ = 0.; ct->target_isoperimetric_ratio_ = 150.;
        for (int k = 0; k < 3; k++) { face_type_parameters ft; ft.face_type_global_id_ = k; ft.repulsion_strength_ = 1e9; ct->add_face_type(ft); }
        auto mother = std::make_shared<axis_cell>(m.pos, m.tris, 7u, ct);
        vj::out o;
        o.obj().key("k").i(C["k"].i());
        std::string setup_err;
        try { mother->initialize_cell_properties(true); } catch (std::exception& e) { setup_err = e.what(); }
        if (!setup_err.empty()) { o.key("setup_error").str(setup_err).end_obj(); fprintf(fo, "%s\n", o.text().c_str()); continue; }
        cell_tester::target_volume(*mother) = mother->get_volume() * 1.25;
        if (C["axis"].kind == vj::value::ARR) { auto a = C["axis"].dvec(); mother->axis_ = vec3(a[0], a[1], a[2]).normalize(); mother->use_axis_ = true; }   // a division axis is a unit vector
        if (C.has("jitter")) {      // break the symmetry of the generated shape
            std::mt19937_64 rng(C["seed"].i() * 977 + 13);
            std::uniform_real_distribution<double> U(-1., 1.);
            for (auto& n : cell_tester::nodes(*mother)) cell_tester::pos(n) = n.pos() + vec3(U(rng), U(rng), U(rng)) * (C["jitter"].d() * C["scale"].d());
            mother->update_all_face_normals_and_areas();
            cell_tester::area(*mother) = mother->compute_area();
            cell_tester::volume(*mother) = mother->compute_volume();
        }
        // a few unused slots so that the compaction inside divide_cell has something to do
        if (C.has("dirty") && C["dirty"].boolean()) {
            local_mesh_refiner tmp(1e-30, 1e30, false);
            edge_set dummy; edge e = *mother->get_edge_set().begin();
            tmp.split_edge(e, mother, dummy);
            edge e2 = *mother->get_edge_set().rbegin();
            if (tmp.can_be_merged(e2, mother)) tmp.merge_edge(e2, mother, dummy);
            mother->update_all_face_normals_and_areas();
        }
        const double lmin = C["lmin"].d();
        local_mesh_refiner lmr(lmin, 3. * lmin, false);
        // mother before
        std::shared_ptr<cell> reference = std::make_shared<cell>(*mother);     // what a compaction alone would give
        std::string ref_err;
        try { reference->rebase(); } catch (std::exception& e) { ref_err = e.what(); }
        std::vector<vec3> ref_pos; for (auto& n : cell_tester::nodes(*reference)) ref_pos.push_back(n.pos());
        vj::out mb; cell_tester::mesh_json(*reference, mb);
        const double mvol = std::abs(vol6(*mother)) / 6.;
        const vec3 centroid = mother->compute_centroid();
        const vec3 axis = mother->get_cell_division_axis();
        const double tv = mother->get_target_volume();
        // ---- the call under test (declared noexcept: an escaping exception would terminate the driver)
        auto res = cell_divider::divide_cell(mother, lmin, lmr);
        vj::out ma; cell_tester::mesh_json(*mother, ma);
        o.key("divided").b(res.has_value());
        o.key("axis").arr().d(axis.dx()).d(axis.dy()).d(axis.dz()).end_arr();
        o.key("mother_same_mesh").b(ma.text() == mb.text());
        o.key("mother_same_pos").b(same_positions(*mother, ref_pos));
        o.key("mother_tvol_same").b(mother->get_target_volume() == tv);
        o.key("mother_id_same").b(mother->get_id() == 7u);
        o.key("mother").str("");   // placeholder keeps the record shape stable
        std::string body = o.text();
        body += ",\"mother_mesh\":" + ma.text();
        if (res.has_value()) {
            cell_ptr d[2] = {res->first, res->second};
            double vsum = 0; bool side_ok = true, outward = true, tvol_ok = true, type_ok = true, finite = true;
            std::string dm[2];
            const double size = std::cbrt(mvol);
            for (int i = 0; i < 2; i++) {
                vj::out dj; cell_tester::mesh_json(*d[i], dj); dm[i] = dj.text();
                const double v6 = vol6(*d[i]);
                vsum += std::abs(v6) / 6.;
                if (!(v6 > 0)) outward = false;
                if (d[i]->get_target_volume() != tv / 2) tvol_ok = false;
                if (!d[i]->get_cell_type() || d[i]->get_cell_type()->global_type_id_ != 0 || dynamic_cast<epithelial_cell*>(d[i].get()) == nullptr) type_ok = false;
                // every node of the daughter lies on its side of the plane through the mother's centroid (daughter 1 keeps the faces
                // NOT on the positive side ... whichever: all nodes of one daughter on one closed half space, the two daughters on opposite ones)
                double smin = 1e300, smax = -1e300;
                for (auto& n : cell_tester::nodes(*d[i])) if (n.is_used()) {
                    const double s = (n.pos() - centroid).dot(axis) / axis.norm();
                    if (!std::isfinite(s)) finite = false;
                    smin = std::min(smin, s); smax = std::max(smax, s);
                }
                const double tol = 1e-6 * size;
                const bool neg = smax <= tol, posi = smin >= -tol;
                if (!(neg || posi)) side_ok = false;
                if (getenv("DIVDBG")) fprintf(stderr, "daughter %d smin %.3e smax %.3e tol %.3e\n", i, smin, smax, tol);
                o.clear();
            }
            // opposite sides: the mean signed distance of the nodes of the two daughters has opposite signs.  (Computed from the node
            // positions: cell::compute_centroid divides by the cached cell area, which divide_cell does not refresh after the
            // remeshing of the daughters -- the solver recomputes it before it is used.)
            double sm[2] = {0, 0};
            for (int i = 0; i < 2; i++) { size_t cnt = 0; for (auto& n : cell_tester::nodes(*d[i])) if (n.is_used()) { sm[i] += (n.pos() - centroid).dot(axis); cnt++; } sm[i] /= (double)std::max<size_t>(1, cnt); }
            const double s1 = sm[0], s2 = sm[1];
            if (getenv("DIVDBG")) fprintf(stderr, "mean sides s1 %.3e s2 %.3e\n", s1, s2);
            if (!(s1 * s2 < 0)) side_ok = false;
            char buf[256];
            snprintf(buf, sizeof buf, ",\"vol_rel_err\":\"%.3e\",\"vol_sum_ok\":%s,\"side_ok\":%s,\"outward\":%s,\"tvol_half\":%s,\"type_ok\":%s,\"finite\":%s",
                     std::abs(vsum - mvol) / mvol, (std::abs(vsum - mvol) <= C["vtol"].d() * mvol) ? "true" : "false", side_ok ? "true" : "false",
                     outward ? "true" : "false", tvol_ok ? "true" : "false", type_ok ? "true" : "false", finite ? "true" : "false");
            body += buf;
            body += ",\"d1\":" + dm[0] + ",\"d2\":" + dm[1];
            vj::out e1, e2; cell_tester::eset_json(*d[0], e1); cell_tester::eset_json(*d[1], e2);
            body += ",\"e1\":" + e1.text() + ",\"e2\":" + e2.text();
            body += std::string(",\"ids_ok\":") + ((cell_tester::ids_ok(*d[0]) && cell_tester::ids_ok(*d[1])) ? "true" : "false");
        }
        body += "}";
        fprintf(fo, "%s\n", body.c_str());
        fflush(fo);
    }
    fclose(fo);
    return 0;
}
