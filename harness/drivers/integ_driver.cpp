// C03 conformance driver: replays transitions of spec/Integrate into time_integration_scheme::update_nodes_positions.
//   integ_driver <cases.ndjson> <obs.ndjson>
// case: {"k":..,"static":[b,b],"mass":[m1,m2],"dtinv":..,"damp":..,"coupled":b,"hi":1|2,"steps":[{"nodes":[[pos,mom,force] x4 in the order (1,1),(1,2),(2,1),(2,2)]}...]}
//   each step gives the state (in spec integers) BEFORE that call; forces are (re)set from it, positions/momenta only for the first step
#include <cmath>
#include "mesh_probe.hpp"
#include "shapes.hpp"
#include "time_integration.hpp"
#include "epithelial_cell.hpp"
#include "static_cell.hpp"

static const double UNIT = std::ldexp(1.0, -40);        // one spec integer = 2^-40 (exact)

int main(int argc, char** argv) {
    if (argc < 3) return 2;
    auto cases = vj::read_ndjson(argv[1]);
    FILE* fo = fopen(argv[2], "w");
    for (auto& cp : cases) {
        const vj::value& C = *cp;
        auto mass = C["mass"].dvec();
        const double dt = 1.0 / C["dtinv"].d(), damp = C["damp"].d();
        const long hi = C["hi"].i();
        const bool frag = C.has("frag") && C["frag"].boolean();    // cells with a history: unused slots before live nodes / faces
        // masses, momenta, forces and the damping coefficient scaled by a power of two (exact): the law p += dt (F - c p / m), x += dt p / m
        // is homogeneous in them, positions must come out the same. Node
        // masses of 1e-18 kg and below are those of small or finely meshed cells; an absolute floor on the mass shows only there.
#if DYNAMIC_MODEL_INDEX == 0
        const double ms = C.has("mscale_exp") ? std::ldexp(1.0, (int)C["mscale_exp"].i()) : 1.0;
#else
        const double ms = 1.0;      // the overdamped law has no mass: forces keep their scale
#endif
        global_simulation_parameters gp;
        gp.time_step_ = dt; gp.damping_coefficient_ = damp * ms;
        time_integration_scheme ti(gp, false);
        // list order: the cell `hi` of the specification has the greater position in the list
        cell_ptr cell_of[3];
        std::vector<cell_ptr> L;
        const long order[2] = {hi == 2 ? 1 : 2, hi};
        for (int li = 0; li < 2; li++) {
            const long sc = order[li];
            shapes::tmesh m = shapes::tetrahedron();
            shapes::transform(m, 1.0, 100.0 * sc, -50.0 * sc, 7.0);
            auto ct = std::make_shared<cell_type_parameters>();
            const bool st = C["static"][sc - 1].boolean();
            ct->global_type_id_ = st ? 4 : 0;
            face_type_parameters ft; ct->add_face_type(ft);
            cell_ptr c;
            if (st) c = std::make_shared<static_cell>(m.pos, m.tris, (unsigned)(sc + 10), ct);
            else c = std::make_shared<epithelial_cell>(m.pos, m.tris, (unsigned)(sc + 10), ct);
            c->initialize_cell_properties(true);
            ct->mass_density_ = ms * mass[sc - 1] * (double)c->get_nb_of_nodes() / c->get_volume();    // node mass = mass[sc]
            c->set_local_id(li);
            if (frag) cell_tester::fragment(*c, 2, true);      // node 1 now lives in the last slot, slot 0 is unused; face slots 0, 1 unused
            cell_of[sc] = c;
            L.push_back(c);
        }
        auto slot = [&](int sc, int n) -> size_t { return (frag && n == 1) ? cell_tester::nodes(*cell_of[sc]).size() - 1 : (size_t)(n - 1); };
        auto nd = [&](int sc, int n) -> node& { return cell_tester::nodes(*cell_of[sc])[slot(sc, n)]; };
        std::vector<vec3> base;     // initial positions of all 8 nodes
        for (int sc = 1; sc <= 2; sc++) for (auto& n : cell_tester::nodes(*cell_of[sc])) base.push_back(n.pos());
        auto vec = [&](double s) { return vec3(s * UNIT, 2. * s * UNIT, -s * UNIT); };
        vj::out o;
        o.obj().key("k").i(C["k"].i());
        o.key("node_mass").arr().d(cell_of[1]->get_node_mass() / ms).d(cell_of[2]->get_node_mass() / ms).end_arr();
        o.key("steps").arr();
        const int ids[4][2] = {{1, 1}, {1, 2}, {2, 1}, {2, 2}};
        for (size_t s = 0; s < C["steps"].size(); s++) {
            const vj::value& N = C["steps"][s]["nodes"];
            for (int q = 0; q < 4; q++) {
                node& n = nd(ids[q][0], ids[q][1]);
                n.set_force(vec(N[q][2].d()) * ms);
                if (s == 0) {
#if DYNAMIC_MODEL_INDEX == 0
                    n.set_momentum(vec(N[q][1].d()) * ms);
#endif
                }
            }
            // couplings are (re)created by the contact phase before every step
            if (C["coupled"].boolean()) {
#if CONTACT_MODEL_INDEX == 1
                nd(1, 1).set_coupled_node_and_min_distance(std::make_pair(cell_of[2]->get_local_id(), (unsigned)slot(2, 1)), 1e-12);
                nd(2, 1).set_coupled_node_and_min_distance(std::make_pair(cell_of[1]->get_local_id(), (unsigned)slot(1, 1)), 1e-12);
#elif CONTACT_MODEL_INDEX == 2
                nd(1, 1).set_coupled_node_and_min_distance(cell_of[2]->get_local_id(), (unsigned)slot(2, 1), 1e-12);
                nd(2, 1).set_coupled_node_and_min_distance(cell_of[1]->get_local_id(), (unsigned)slot(1, 1), 1e-12);
#endif
            }
            const double t0 = ti.get_simulation_time();
            ti.update_nodes_positions(L);
            o.obj();
            o.key("dtime").d(ti.get_simulation_time() - t0);
            o.key("nodes").arr();
            size_t bi = 0;
            double others_moved = 0, others_force = 0;
            std::vector<size_t> base_of(3, 0);
            base_of[1] = 0; base_of[2] = cell_tester::nodes(*cell_of[1]).size();
            for (int q = 0; q < 4; q++) {
                const int sc = ids[q][0];
                const size_t j = slot(sc, ids[q][1]);
                node& nj = cell_tester::nodes(*cell_of[sc])[j];
                const vec3 dp = nj.pos() - base[base_of[sc] + j];
                o.obj();
                o.key("dpos").arr().d(dp.dx() / UNIT).d(dp.dy() / UNIT).d(dp.dz() / UNIT).end_arr();
#if DYNAMIC_MODEL_INDEX == 0
                const vec3 mo = nj.momentum();
#else
                const vec3 mo;
#endif
                o.key("mom").arr().d(mo.dx() / UNIT / ms).d(mo.dy() / UNIT / ms).d(mo.dz() / UNIT / ms).end_arr();
                const vec3 fr = nj.force();
                o.key("force").arr().d(fr.dx() / UNIT / ms).d(fr.dy() / UNIT / ms).d(fr.dz() / UNIT / ms).end_arr();
                o.end_obj();
            }
            for (int sc = 1; sc <= 2; sc++) {
                auto& NN = cell_tester::nodes(*cell_of[sc]);
                for (size_t j = 0; j < NN.size(); j++, bi++) {
                    if (j == slot(sc, 1) || j == slot(sc, 2)) continue;
                    const vec3 dp = NN[j].pos() - base[bi];
                    others_moved = std::max(others_moved, dp.norm() / UNIT); others_force = std::max(others_force, NN[j].force().norm() / UNIT / ms);
                }
            }
            o.end_arr();
            o.key("others_moved").d(others_moved).key("others_force").d(others_force);
            o.end_obj();
        }
        o.end_arr().end_obj();
        fprintf(fo, "%s\n", o.text().c_str());
    }
    fclose(fo);
    return 0;
}
