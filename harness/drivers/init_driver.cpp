// C13 conformance driver: real simulation_initializer on generated closed polyhedra, observed through hook H8.
//   init_driver <cases.ndjson> <out.ndjson> <workdir>
// case: {"k":..,"shape":"box|voxels|sphere|prism|open|nonmanifold","dims":[..],"voxels":[[x,y,z]..],"level":n,"stretch":[..],"poly":bool,"flip":bool,
//        "scale":s,"pos":[..],"lmin_ratio":r,"triangulate":bool,"seed":n}
#include "mesh_probe.hpp"
#include "shapes.hpp"
#include "verif_hooks.hpp"
#include "simulation_initializer.hpp"
#include <mutex>
#include <set>

struct poly { std::vector<double> pos; std::vector<std::vector<unsigned>> faces; };

static poly voxel_surface(const std::vector<std::array<int, 3>>& vox) {
    poly m; std::map<std::array<int, 3>, unsigned> id; std::set<std::array<int, 3>> S(vox.begin(), vox.end());
    auto node = [&](int x, int y, int z) { std::array<int, 3> k = {x, y, z}; auto it = id.find(k); if (it != id.end()) return it->second; unsigned n = m.pos.size() / 3; m.pos.push_back(x); m.pos.push_back(y); m.pos.push_back(z); id[k] = n; return n; };
    for (auto& v : vox) {
        const int x = v[0], y = v[1], z = v[2];
        if (!S.count({x, y, z - 1})) m.faces.push_back({node(x, y, z), node(x, y + 1, z), node(x + 1, y + 1, z), node(x + 1, y, z)});
        if (!S.count({x, y, z + 1})) m.faces.push_back({node(x, y, z + 1), node(x + 1, y, z + 1), node(x + 1, y + 1, z + 1), node(x, y + 1, z + 1)});
        if (!S.count({x, y - 1, z})) m.faces.push_back({node(x, y, z), node(x + 1, y, z), node(x + 1, y, z + 1), node(x, y, z + 1)});
        if (!S.count({x, y + 1, z})) m.faces.push_back({node(x, y + 1, z), node(x, y + 1, z + 1), node(x + 1, y + 1, z + 1), node(x + 1, y + 1, z)});
        if (!S.count({x - 1, y, z})) m.faces.push_back({node(x, y, z), node(x, y, z + 1), node(x, y + 1, z + 1), node(x, y + 1, z)});
        if (!S.count({x + 1, y, z})) m.faces.push_back({node(x + 1, y, z), node(x + 1, y + 1, z), node(x + 1, y + 1, z + 1), node(x + 1, y, z + 1)});
    }
    return m;
}
static double pt_tri_dist(const vec3& p, const vec3& a, const vec3& b, const vec3& c) {
    // independent of the repository's kernel: minimum over the projection on the plane (if inside) and the three segments
    auto seg = [&](const vec3& u, const vec3& v) { const vec3 d = v - u; double t = d.squared_norm() > 0 ? (p - u).dot(d) / d.squared_norm() : 0; t = std::max(0., std::min(1., t)); return (p - (u + d * t)).norm(); };
    double best = std::min(seg(a, b), std::min(seg(b, c), seg(c, a)));
    const vec3 n = (b - a).cross(c - a);
    if (n.squared_norm() > 0) {
        const double dist = (p - a).dot(n) / n.norm();
        const vec3 q = p - n * (dist / n.norm());
        const double s1 = (b - a).cross(q - a).dot(n), s2 = (c - b).cross(q - b).dot(n), s3 = (a - c).cross(q - c).dot(n);
        if (s1 >= 0 && s2 >= 0 && s3 >= 0) best = std::min(best, std::abs(dist));
    }
    return best;
}

static std::mutex g_mu;
struct cell_log { std::vector<std::pair<long, std::string>> attempts; std::vector<bool> spacing; std::vector<long> npts; cell* accepted = nullptr; };
static std::map<long, cell_log> g_log;
static double g_lmin = 0;

static void on_event(const char* ev, const void* obj, long a, long b, long, double x) {
    std::lock_guard<std::mutex> lk(g_mu);
    cell_log& L = g_log[a];
    if (!std::strcmp(ev, "init_attempt")) L.attempts.push_back({b, "pending"});
    else if (!std::strcmp(ev, "init_failed")) { if (!L.attempts.empty()) L.attempts.back().second = "failed"; }
    else if (!std::strcmp(ev, "init_accepted")) { if (!L.attempts.empty()) L.attempts.back().second = "accepted"; L.accepted = (cell*)obj; }
    else if (!std::strcmp(ev, "poisson_cloud")) {
        const auto& pts = *(const std::vector<oriented_point>*)obj;
        bool ok = true;
        for (size_t i = 0; i < pts.size() && ok; i++) for (size_t j = i + 1; j < pts.size(); j++)
            if ((pts[i].position_ - pts[j].position_).norm() < x * (1 - 1e-9)) { ok = false; break; }
        L.spacing.push_back(ok); L.npts.push_back((long)pts.size());
    }
}

// ---- "multi": tissues of four cells triangulated in parallel (run with several threads): a cell that cannot be triangulated (a cube
// much smaller than the minimum edge length) at every list position, and an all-good control.  The failure must reach the caller as
// the initialisation exception whichever thread met it; the good tissue must come back complete.
static int run_multi(const char* out_path, const std::string& work) {
    FILE* fo = fopen(out_path, "w");
    for (int bad = -1; bad < 4; bad++) {
        poly all; std::vector<size_t> first_face;
        std::vector<poly> cubes;
        for (int i = 0; i < 4; i++) {
            poly m = voxel_surface({{0, 0, 0}});
            const double side = i == bad ? 0.02 : 1.0;
            for (size_t q = 0; q < m.pos.size() / 3; q++) { m.pos[3 * q] = m.pos[3 * q] * side + 3.0 * i; m.pos[3 * q + 1] *= side; m.pos[3 * q + 2] *= side; }
            cubes.push_back(m);
        }
        const std::string path = work + "/multi_" + std::to_string(bad + 1) + ".vtk";
        {
            FILE* f = fopen(path.c_str(), "w");
            size_t npts = 0; for (auto& m : cubes) npts += m.pos.size() / 3;
            fprintf(f, "# vtk DataFile Version 4.2\nvtk output\nASCII\nDATASET UNSTRUCTURED_GRID\nPOINTS %zu float\n", npts);
            for (auto& m : cubes) for (size_t i = 0; i < m.pos.size(); i++) fprintf(f, "%.9e%s", m.pos[i], (i % 3 == 2) ? "\n" : " ");
            size_t total = 0; std::vector<size_t> ints;
            for (auto& m : cubes) { size_t k = 1; for (auto& fc : m.faces) k += 1 + fc.size(); ints.push_back(k); total += k + 1; }
            fprintf(f, "\nCELLS 4 %zu\n", total);
            size_t off = 0;
            for (size_t c = 0; c < cubes.size(); c++) {
                fprintf(f, "%zu %zu ", ints[c], cubes[c].faces.size());
                for (auto& fc : cubes[c].faces) { fprintf(f, "%zu ", fc.size()); for (unsigned n : fc) fprintf(f, "%zu ", (size_t)n + off); }
                fprintf(f, "\n");
                off += cubes[c].pos.size() / 3;
            }
            fprintf(f, "\nCELL_TYPES 4\n42\n42\n42\n42\n\nCELL_DATA 4\nFIELD FieldData 1\ncell_type_id 1 4 int\n0 0 0 0 \n");
            fclose(f);
        }
        global_simulation_parameters gp;
        gp.input_mesh_path_ = path; gp.output_folder_path_ = work + "/out";
        gp.perform_initial_triangulation_ = true; gp.min_edge_len_ = 0.2;
        gp.time_step_ = 1e-7; gp.damping_coefficient_ = 1; gp.simulation_duration_ = 1; gp.sampling_period_ = 1; gp.contact_cutoff_adhesion_ = gp.contact_cutoff_repulsion_ = 1e-7;
        auto ct = std::make_shared<cell_type_parameters>();
        ct->global_type_id_ = 0; ct->bulk_modulus_ = 1; ct->target_isoperimetric_ratio_ = 150;
        face_type_parameters ft; ct->add_face_type(ft); ct->add_face_type(ft); ct->add_face_type(ft);
        verif::hooks().seed = [](const char*) { static std::atomic<unsigned long long> n{0}; return 977ULL + (n++); };
        std::string outcome = "completed"; size_t nret = 0, nnull = 0, nbad = 0;
        try {
            simulation_initializer si(gp, {ct}, false);
            auto cells = si.get_cell_lst();
            nret = cells.size();
            for (auto& c : cells) { if (!c) { nnull++; continue; } if (!(c->get_nb_of_faces() >= 4) || !(c->get_volume() > 0.)) nbad++; }
        }
        catch (intialization_exception&) { outcome = "initialization_exception"; }
        catch (std::exception&) { outcome = "other_std_exception"; }
        std::remove(path.c_str());
        vj::out o;
        o.obj().key("op").str("multi").key("bad_position").i(bad).key("outcome").str(outcome).key("nreturned").i(nret).key("nnull").i(nnull).key("ninvalid").i(nbad).end_obj();
        fprintf(fo, "%s\n", o.text().c_str()); fflush(fo);
    }
    fclose(fo);
    return 0;
}

int main(int argc, char** argv) {
    setvbuf(stdout, NULL, _IONBF, 0);
    if (argc >= 4 && std::string(argv[1]) == "multi") return run_multi(argv[2], argv[3]);
    if (argc < 4) return 2;
    auto cases = vj::read_ndjson(argv[1]);
    FILE* fo = fopen(argv[2], "w");
    const std::string work = argv[3];
    verif::hooks().event = on_event;
    for (auto& cp : cases) {
        const vj::value& C = *cp;
        const std::string sh = C["shape"].s();
        poly m;
        if (sh == "box" || sh == "open" || sh == "nonmanifold" || sh == "voxels") {
            std::vector<std::array<int, 3>> vox;
            if (sh == "voxels") for (size_t i = 0; i < C["voxels"].size(); i++) { auto v = C["voxels"][i].ivec(); vox.push_back({(int)v[0], (int)v[1], (int)v[2]}); }
            else { auto d = C["dims"].ivec(); for (int x = 0; x < d[0]; x++) for (int y = 0; y < d[1]; y++) for (int z = 0; z < d[2]; z++) vox.push_back({x, y, z}); }
            m = voxel_surface(vox);
            if (sh == "open") m.faces.pop_back();
            if (sh == "nonmanifold") m.faces.push_back(m.faces[0]);
        } else if (sh == "sphere") {
            shapes::tmesh t = shapes::sphere((int)C["level"].i());
            m.pos = t.pos; for (size_t f = 0; f < t.nf(); f++) m.faces.push_back({t.tris[3 * f], t.tris[3 * f + 1], t.tris[3 * f + 2]});
        } else {   // triangular prism: two triangles and three quads
            m.pos = {0, 0, 0, 2, 0, 0, 0, 2, 0, 0, 0, 3, 2, 0, 3, 0, 2, 3};
            m.faces = {{0, 2, 1}, {3, 4, 5}, {0, 1, 4, 3}, {1, 2, 5, 4}, {2, 0, 3, 5}};
        }
        if (!C["poly"].boolean()) {       // triangulate the polygons (fan)
            std::vector<std::vector<unsigned>> tf;
            for (auto& f : m.faces) for (size_t i = 1; i + 1 < f.size(); i++) tf.push_back({f[0], f[i], f[i + 1]});
            m.faces = tf;
        }
        if (C["flip"].boolean()) for (size_t f = 0; f < m.faces.size(); f += 2) std::reverse(m.faces[f].begin(), m.faces[f].end());
        auto st = C["stretch"].dvec(); auto pos0 = C["pos"].dvec(); const double sc = C["scale"].d();
        for (size_t i = 0; i < m.pos.size() / 3; i++) for (int a = 0; a < 3; a++) m.pos[3 * i + a] = m.pos[3 * i + a] * st[a] * sc + pos0[a];
        // reference solid: volume, bounding box
        double vol6 = 0, bb[6] = {1e300, 1e300, 1e300, -1e300, -1e300, -1e300};
        std::vector<std::array<vec3, 3>> ref_tris;
        auto P = [&](unsigned n) { return vec3(m.pos[3 * n], m.pos[3 * n + 1], m.pos[3 * n + 2]); };
        for (auto& f : m.faces) for (size_t i = 1; i + 1 < f.size(); i++) ref_tris.push_back({P(f[0]), P(f[i]), P(f[i + 1])});
        {   // volume from a consistently oriented copy (the flipped input windings do not matter for the reference)
            poly mm = m; if (C["flip"].boolean()) for (size_t f = 0; f < mm.faces.size(); f += 2) std::reverse(mm.faces[f].begin(), mm.faces[f].end());
            for (auto& f : mm.faces) for (size_t i = 1; i + 1 < f.size(); i++) vol6 += P(f[0]).dot(P(f[i]).cross(P(f[i + 1])));
        }
        for (size_t i = 0; i < m.pos.size() / 3; i++) for (int a = 0; a < 3; a++) { bb[a] = std::min(bb[a], m.pos[3 * i + a]); bb[3 + a] = std::max(bb[3 + a], m.pos[3 * i + a]); }
        const double size = std::cbrt(std::abs(vol6) / 6.);
        // input file
        const std::string path = work + "/in_" + std::to_string(C["k"].i()) + ".vtk";
        {
            FILE* f = fopen(path.c_str(), "w");
            fprintf(f, "# vtk DataFile Version 4.2\nvtk output\nASCII\nDATASET UNSTRUCTURED_GRID\nPOINTS %zu float\n", m.pos.size() / 3);
            for (size_t i = 0; i < m.pos.size(); i++) fprintf(f, "%.9e%s", m.pos[i], (i % 9 == 8) ? "\n" : " ");
            size_t ints = 1; for (auto& fc : m.faces) ints += 1 + fc.size();
            fprintf(f, "\n\nCELLS 1 %zu\n%zu %zu ", ints + 1, ints, m.faces.size());
            for (auto& fc : m.faces) { fprintf(f, "%zu ", fc.size()); for (unsigned n : fc) fprintf(f, "%u ", n); }
            fprintf(f, "\n\nCELL_TYPES 1\n42\n\nCELL_DATA 1\nFIELD FieldData 1\ncell_type_id 1 1 int\n0 \n");
            fclose(f);
        }
        global_simulation_parameters gp;
        gp.input_mesh_path_ = path; gp.output_folder_path_ = work + "/out";
        gp.perform_initial_triangulation_ = C["triangulate"].boolean();
        gp.min_edge_len_ = g_lmin = C["lmin_ratio"].d() * size;
        gp.time_step_ = 1e-7; gp.damping_coefficient_ = 1; gp.simulation_duration_ = 1; gp.sampling_period_ = 1; gp.contact_cutoff_adhesion_ = gp.contact_cutoff_repulsion_ = 1e-7;
        auto ct = std::make_shared<cell_type_parameters>();
        ct->global_type_id_ = 0; ct->bulk_modulus_ = 1; ct->target_isoperimetric_ratio_ = 150;
        face_type_parameters ft; ct->add_face_type(ft); ct->add_face_type(ft); ct->add_face_type(ft);
        srand((unsigned)C["seed"].i());
        const unsigned long long seed = C["seed"].i();
        verif::hooks().seed = [seed](const char*) { static std::atomic<unsigned long long> n{0}; return seed * 6364136223846793005ULL + (n++); };
        g_log.clear();
        std::string outcome = "completed", what;
        std::vector<cell_ptr> cells;
        try { simulation_initializer si(gp, {ct}, false); cells = si.get_cell_lst(); }
        catch (intialization_exception& e) { outcome = "initialization_exception"; what = e.what(); }
        catch (std::exception& e) { outcome = "other_std_exception"; what = e.what(); }
        std::remove(path.c_str());
        vj::out o;
        o.obj().key("k").i(C["k"].i()).key("outcome").str(outcome).key("what").str(what.substr(0, 150));
        cell_log& L = g_log[0];
        o.key("attempts").arr();
        for (auto& a : L.attempts) o.obj().key("i").i(a.first).key("result").str(a.second).end_obj();
        o.end_arr();
        o.key("spacing_ok").arr(); for (bool b : L.spacing) o.b(b); o.end_arr();
        o.key("npts").iarr(L.npts);
        o.key("handed").b(!cells.empty());
        if (!cells.empty()) {
            cell& c = *cells[0];
            o.key("same_object").b(L.accepted == &c);
            o.key("mesh"); cell_tester::mesh_json(c, o);
            o.key("eset"); cell_tester::eset_json(c, o);
            o.key("ids_ok").b(cell_tester::ids_ok(c));
            const double v6 = cell_tester::signed_vol6(c);
            double wb[6] = {1e300, 1e300, 1e300, -1e300, -1e300, -1e300}, worst = 0;
            for (auto& n : cell_tester::nodes(c)) if (n.is_used()) {
                const double q[3] = {n.pos().dx(), n.pos().dy(), n.pos().dz()};
                for (int a = 0; a < 3; a++) { wb[a] = std::min(wb[a], q[a]); wb[3 + a] = std::max(wb[3 + a], q[a]); }
                double best = 1e300; for (auto& t : ref_tris) best = std::min(best, pt_tri_dist(n.pos(), t[0], t[1], t[2]));
                worst = std::max(worst, best);
            }
            double bbd = 0; for (int a = 0; a < 6; a++) bbd = std::max(bbd, std::abs(wb[a] - bb[a]));
            const double vrel = std::abs(std::abs(v6) - std::abs(vol6)) / std::abs(vol6);
            o.key("outward").b(v6 > 0).key("vol_close").b(vrel <= C["vtol"].d()).key("bbox_close").b(bbd <= C["btol"].d() * g_lmin + 1e-9 * size).key("on_surface").b(worst <= C["stol"].d() * g_lmin + 1e-9 * size);
            // both values come from origin-based sums a.(b x c): their rounding error grows like eps * (distance from the origin / size)^3
            double far = 0; for (int a = 0; a < 6; a++) far = std::max(far, std::abs(wb[a]));
            const double vol_tol = 1e-9 + 1e-14 * std::pow(far / size + 1., 3);
            o.key("reported_vol_ok").b(std::abs(c.get_volume() - std::abs(v6) / 6.) <= vol_tol * std::abs(v6) / 6.);
            char buf[160]; snprintf(buf, sizeof buf, "vol_rel %.3e bbox_dev/lmin %.3e surf_dev/size %.3e nodes %zu", vrel, bbd / g_lmin, worst / size, c.get_nb_of_nodes());
            o.key("num").str(buf);
        }
        o.end_obj();
        fprintf(fo, "%s\n", o.text().c_str());
        fflush(fo);
    }
    fclose(fo);
    return 0;
}
