// C02 conformance driver: internal forces of real cells.
//   force_driver <cases.ndjson> <out.ndjson>
// lattice case: {"k":..,"kind":"lattice","shape":"tetra|octa|bipyr|cube|box","dims":[..],"perm":[..],"sign":[..],"t":[..],"unit":u}
//     -> integer force vectors (pressure: 6F/(P u^2), tension: 2F/(g0 u)) per node, compared by TLC with spec/Geom/LatticeForces
// generic case: {"k":..,"kind":"generic","level":n,"jitter":j,"scale":s,"pos":[..],"seed":n,"params":{...}}
//     -> per force term: resultant, torque, rigid covariance and finite-difference verdicts
#include "mesh_probe.hpp"
#include "shapes.hpp"
#include "epithelial_cell.hpp"
#include <random>

static cell_type_param_ptr make_type(double g0) {
    auto ct = std::make_shared<cell_type_parameters>();
    ct->global_type_id_ = 0; ct->mass_density_ = 1e3; ct->bulk_modulus_ = 2.5e3; ct->max_pressure_ = 1e300;
    ct->avg_division_vol_ = 1e300; ct->min_vol_ = 0.; ct->target_isoperimetric_ratio_ = 150.; ct->area_elasticity_modulus_ = 0.; ct->angle_regularization_factor_ = 0.;
    const double gam[3] = {1, 2, 5};
    for (int k = 0; k < 3; k++) { face_type_parameters ft; ft.face_type_global_id_ = k; ft.surface_tension_ = gam[k] * g0; ft.repulsion_strength_ = 1e9; ft.bending_modulus_ = 0.; ct->add_face_type(ft); }
    return ct;
}
static void zero_forces(cell& c) { for (auto& n : cell_tester::nodes(c)) n.set_force(vec3(0, 0, 0)); }
static void refresh(cell& c) { c.update_all_face_normals_and_areas(); cell_tester::area(c) = c.compute_area(); cell_tester::volume(c) = c.compute_volume(); }

struct term_result { double net, torque, cov; };

int main(int argc, char** argv) {
    if (argc < 3) return 2;
    auto cases = vj::read_ndjson(argv[1]);
    FILE* fo = fopen(argv[2], "w");
    for (auto& cp : cases) {
        const vj::value& C = *cp;
        vj::out o;
        o.obj().key("k").i(C["k"].i()).key("kind").str(C["kind"].s());
        if (C["kind"].s() == "lattice") {
            shapes::tmesh m;
            const std::string sh = C["shape"].s();
            if (sh == "tetra") { m.pos = {1, 1, 1, 1, -1, -1, -1, 1, -1, -1, -1, 1}; m.tris = {0, 1, 2, 0, 3, 1, 1, 3, 2, 0, 2, 3}; }
            else if (sh == "octa") { m = shapes::octahedron(); for (auto& x : m.pos) x *= 2; }
            else if (sh == "bipyr") { m.pos = {4, 0, 0, -2, 3, 0, -2, -3, 0, 0, 0, 5, 0, 0, -5}; m.tris = {0, 1, 3, 1, 2, 3, 2, 0, 3, 1, 0, 4, 2, 1, 4, 0, 2, 4}; }
            else if (sh == "cube") { m.pos = {0,0,0, 1,0,0, 1,1,0, 0,1,0, 0,0,1, 1,0,1, 1,1,1, 0,1,1}; m.tris = {0,3,2, 0,2,1, 4,5,6, 4,6,7, 0,1,5, 0,5,4, 3,7,6, 3,6,2, 0,4,7, 0,7,3, 1,2,6, 1,6,5}; }
            else { auto d = C["dims"].ivec(); m = shapes::box((int)d[0], (int)d[1], (int)d[2], 0); }
            auto perm = C["perm"].ivec(), sign = C["sign"].ivec(), tr = C["t"].ivec();
            const double unit = C["unit"].d();
            const size_t nn = m.nn();
            std::vector<long long> lat(3 * nn);
            std::vector<double> pos(3 * nn);
            for (size_t i = 0; i < nn; i++) for (int a = 0; a < 3; a++) { lat[3 * i + a] = sign[a] * (long long)std::llround(m.pos[3 * i + perm[a] - 1]) + tr[a]; pos[3 * i + a] = unit * (double)lat[3 * i + a]; }
            const double g0 = 3e-4, P0 = 700.;
            auto c = std::make_shared<epithelial_cell>(pos, m.tris, 0u, make_type(g0));
            std::string err;
            try { c->initialize_cell_properties(true); } catch (std::exception& e) { err = e.what(); }
            o.key("error").str(err).key("nn").i(nn);
            o.key("tris").arr();
            // the windings the cell uses (it re-orients them outward) and the face types
            auto& F = cell_tester::faces(*c);
            for (size_t f = 0; f < F.size(); f++) { F[f].set_face_type_id(f % 3); auto t = cell_tester::tri(F[f]); o.arr().i(t[0]).i(t[1]).i(t[2]).end_arr(); }
            o.end_arr();
            o.key("pos").arr();
            for (size_t i = 0; i < nn; i++) o.arr().i(lat[3 * i]).i(lat[3 * i + 1]).i(lat[3 * i + 2]).end_arr();
            o.end_arr();
            bool exact = true, exact_t = true;
            auto as_int = [&](double x, bool& ex) { const double r = std::nearbyint(x); if (std::abs(x - r) > 1e-6 * std::max(1.0, std::abs(r))) ex = false; return (long long)r; };
            refresh(*c);
            cell_tester::pressure(*c) = P0;
            zero_forces(*c);
            cell_tester::apply_pressure(*c);
            o.key("press6").arr();
            for (auto& n : cell_tester::nodes(*c)) { const vec3 f = n.force() * (6. / (P0 * unit * unit)); o.arr().i(as_int(f.dx(), exact)).i(as_int(f.dy(), exact)).i(as_int(f.dz(), exact)).end_arr(); }
            o.end_arr();
            zero_forces(*c);
            cell_tester::apply_tension(*c);
            o.key("tens2").arr();
            for (auto& n : cell_tester::nodes(*c)) { const vec3 f = n.force() * (2. / (g0 * unit)); o.arr().i(as_int(f.dx(), exact_t)).i(as_int(f.dy(), exact_t)).i(as_int(f.dz(), exact_t)).end_arr(); }
            o.end_arr();
            o.key("exact").b(exact).key("exact_tension").b(exact_t);
        } else {
            std::mt19937_64 rng(C["seed"].i());
            std::uniform_real_distribution<double> U(-1., 1.);
            shapes::tmesh m = shapes::sphere((int)C["level"].i());
            for (auto& x : m.pos) x += C["jitter"].d() * U(rng);
            for (size_t i = 0; i < m.nn(); i++) { m.pos[3 * i] *= 1.4; m.pos[3 * i + 2] *= 0.8; }
            auto p0 = C["pos"].dvec();
            const double sc = C["scale"].d();
            shapes::transform(m, sc, p0[0], p0[1], p0[2]);
            const vj::value& PR = C["params"];
            // "frag": the cell is built at distorted positions, its lists are fragmented (unused slots before live elements, as edge
            // collapses leave them), and only then its nodes are moved to their places: everything cached at construction is stale
            const unsigned frag = C.has("frag") ? (unsigned)C["frag"].i() : 0u;
            const bool fragn = C.has("fragn") && C["fragn"].boolean();
            auto mk = [&](const std::vector<double>& pos_final) {
                std::vector<double> pos = pos_final;
                if (frag || fragn) for (size_t j = 0; j < pos.size(); j++) pos[j] = pos_final[j] * (j % 3 == 0 ? 1.08 : j % 3 == 1 ? 0.95 : 1.0) + 0.01 * sc * std::sin(1.0 + 0.37 * (double)j);
                auto ct = make_type(PR["g0"].d());
                ct->area_elasticity_modulus_ = PR["ka"].d(); ct->angle_regularization_factor_ = PR["kang"].d(); ct->bulk_modulus_ = PR["K"].d();
                for (int k = 0; k < 3; k++) ct->face_types_[k].bending_modulus_ = PR["kb"].d() * (1 + k);
                auto c = std::make_shared<epithelial_cell>(pos, m.tris, 0u, ct);
                c->initialize_cell_properties(true);
                auto& F = cell_tester::faces(*c);
                for (size_t f = 0; f < F.size(); f++) F[f].set_face_type_id(f % 3);
                if (frag || fragn) {
                    cell_tester::fragment(*c, frag, fragn);
                    auto& N = cell_tester::nodes(*c);
                    const size_t n0 = pos_final.size() / 3;
                    for (size_t i = 0; i < n0; i++) {
                        const size_t slot = (fragn && i == 0) ? N.size() - 1 : i;
                        cell_tester::pos(N[slot]) = vec3(pos_final[3 * i], pos_final[3 * i + 1], pos_final[3 * i + 2]);
                    }
                    c->update_all_face_normals_and_areas();
                    cell_tester::area(*c) = c->compute_area(); cell_tester::volume(*c) = c->compute_volume();
                }
                cell_tester::target_volume(*c) = c->get_volume() * PR["tv"].d();
                return c;
            };
            auto c = mk(m.pos);
            // a rotated and translated copy
            const double th = 0.7 + 0.3 * U(rng);
            vec3 axis(U(rng), U(rng), U(rng)); axis = axis.normalize();
            const vec3 shift(sc * 5 * U(rng), sc * 5 * U(rng), sc * 5 * U(rng));
            std::vector<double> pos2(m.pos.size());
            for (size_t i = 0; i < m.nn(); i++) { vec3 p(m.pos[3 * i], m.pos[3 * i + 1], m.pos[3 * i + 2]); p = p.rotate_around_axis(axis, th) + shift; pos2[3 * i] = p.dx(); pos2[3 * i + 1] = p.dy(); pos2[3 * i + 2] = p.dz(); }
            auto c2 = mk(pos2);
            // the same surface with its triangles stored in the opposite order (face f of the original is face nf-1-f here, with the same
            // label): which of the two faces of an edge the code meets first must not matter to any force
            cell_ptr c3;
            if (!frag && !fragn) {
                const size_t nf0 = m.tris.size() / 3;
                std::vector<unsigned> rt(m.tris.size());
                for (size_t f = 0; f < nf0; f++) for (int k = 0; k < 3; k++) rt[3 * (nf0 - 1 - f) + k] = m.tris[3 * f + k];
                auto ct = make_type(PR["g0"].d());
                ct->area_elasticity_modulus_ = PR["ka"].d(); ct->angle_regularization_factor_ = PR["kang"].d(); ct->bulk_modulus_ = PR["K"].d();
                for (int k = 0; k < 3; k++) ct->face_types_[k].bending_modulus_ = PR["kb"].d() * (1 + k);
                c3 = std::make_shared<epithelial_cell>(m.pos, rt, 0u, ct);
                c3->initialize_cell_properties(true);
                auto& F3 = cell_tester::faces(*c3);
                for (size_t f = 0; f < F3.size(); f++) F3[f].set_face_type_id((nf0 - 1 - f) % 3);
                cell_tester::target_volume(*c3) = c3->get_volume() * PR["tv"].d();
            }
            auto run_term = [&](cell& cc, const std::string& term) {
                refresh(cc); zero_forces(cc);
                if (term == "pressure") { cc.update_pressure(); cell_tester::apply_pressure(cc); }
                else if (term == "tension") cell_tester::apply_tension(cc);
                else if (term == "bending") cell_tester::apply_bending(cc);
                else if (term == "angle") cc.regularize_all_face_angles();
                else cc.apply_internal_forces(0.);
            };
            const vec3 cen = c->compute_centroid();
            o.key("terms").obj();
            for (const char* term : {"pressure", "tension", "bending", "angle", "all"}) {
                run_term(*c, term); run_term(*c2, term);
                double renum = 0;
                if (c3) { run_term(*c3, term); auto& N3 = cell_tester::nodes(*c3); auto& N0 = cell_tester::nodes(*c); for (size_t i = 0; i < N0.size() && i < N3.size(); i++) renum = std::max(renum, (N3[i].force() - N0[i].force()).norm()); }
                vec3 net, tq; double mag = 0, cov = 0, tmag = 0;
                auto& N = cell_tester::nodes(*c); auto& N2 = cell_tester::nodes(*c2);
                for (size_t i = 0; i < N.size(); i++) if (N[i].is_used()) {
                    net = net + N[i].force(); tq = tq + (N[i].pos() - cen).cross(N[i].force());
                    mag += N[i].force().norm(); tmag += (N[i].pos() - cen).norm() * N[i].force().norm();
                    const vec3 want = N[i].force().rotate_around_axis(axis, th);
                    cov = std::max(cov, (N2[i].force() - want).norm());
                }
                const double fmax = mag / std::max<size_t>(1, N.size());
                o.key(term).obj();
                o.key("active").b(mag > 0);
                o.key("net_ok").b(net.norm() <= 1e-9 * mag + 1e-300).key("torque_ok").b(tq.norm() <= 1e-9 * tmag + 1e-300).key("cov_ok").b(cov <= 1e-7 * fmax + 1e-300).key("renum_ok").b(renum <= 1e-9 * fmax + 1e-300);
                char buf[200]; snprintf(buf, sizeof buf, "net %.2e torque %.2e cov %.2e renum %.2e", net.norm() / (mag + 1e-300), tq.norm() / (tmag + 1e-300), cov / (fmax + 1e-300), renum / (fmax + 1e-300));
                o.key("rel").str(buf);
                o.end_obj();
            }
            o.end_obj();
            // finite differences: pressure force = P dV/dx ; tension/elasticity force = - sum_f tau_f dA_f/dx with the effective tensions frozen
            bool fd_press = true, fd_tens = true; double worst_p = 0, worst_t = 0;
            {
                refresh(*c); c->update_pressure();
                const double Pp = c->get_pressure();
                zero_forces(*c); cell_tester::apply_pressure(*c);
                std::vector<vec3> fp; for (auto& n : cell_tester::nodes(*c)) fp.push_back(n.force());
                zero_forces(*c); cell_tester::apply_tension(*c);
                std::vector<vec3> ft; for (auto& n : cell_tester::nodes(*c)) ft.push_back(n.force());
                auto ctp = c->get_cell_type();
                const double A = c->get_area(), V = c->get_volume();
                const double At = std::cbrt(ctp->target_isoperimetric_ratio_ * V * V);
                const double mef = -(ctp->area_elasticity_modulus_ / At) * ((A / At) - 1.);
                auto& N = cell_tester::nodes(*c); auto& F = cell_tester::faces(*c);
                auto vol = [&]() { double v = 0; for (auto& f : F) if (f.is_used()) { auto t = cell_tester::tri(f); v += N[t[0]].pos().dot(N[t[1]].pos().cross(N[t[2]].pos())); } return v / 6.; };
                auto wa = [&]() { double e = 0; for (auto& f : F) if (f.is_used()) { auto t = cell_tester::tri(f); const double ar = 0.5 * (N[t[1]].pos() - N[t[0]].pos()).cross(N[t[2]].pos() - N[t[0]].pos()).norm(); e += (ctp->face_types_[f.get_local_face_type_id()].surface_tension_ - mef) * ar; } return e; };
                const double h = 1e-6 * sc;
                double fscale_p = 0, fscale_t = 0; for (size_t i = 0; i < N.size(); i++) { fscale_p = std::max(fscale_p, fp[i].norm()); fscale_t = std::max(fscale_t, ft[i].norm()); }
                for (size_t i = 0; i < N.size(); i += 3) {
                    if (!N[i].is_used()) continue;
                    for (int a = 0; a < 3; a++) {
                        const vec3 e(a == 0, a == 1, a == 2);
                        const vec3 keep = N[i].pos();
                        cell_tester::pos(N[i]) = keep + e * h; const double v1 = vol(), w1 = wa();
                        cell_tester::pos(N[i]) = keep - e * h; const double v0 = vol(), w0 = wa();
                        cell_tester::pos(N[i]) = keep;
                        const double dp = Pp * (v1 - v0) / (2 * h), dt = -(w1 - w0) / (2 * h);
                        const double cp_ = a == 0 ? fp[i].dx() : a == 1 ? fp[i].dy() : fp[i].dz();
                        const double ct_ = a == 0 ? ft[i].dx() : a == 1 ? ft[i].dy() : ft[i].dz();
                        worst_p = std::max(worst_p, std::abs(cp_ - dp) / (fscale_p + 1e-300)); worst_t = std::max(worst_t, std::abs(ct_ - dt) / (fscale_t + 1e-300));
                    }
                }
                fd_press = worst_p <= 1e-5; fd_tens = worst_t <= 1e-5;
            }
            // bending: the force must be (a constant multiple of) minus the gradient of the hinge energy
            //   E = sum over edges  k_edge |e|^2 / (A1 + A2) (2 cos(theta / 2))^2 ,  k_edge = mean of the two faces' bending moduli,
            // recomputed here from the node positions; the constant is fitted (the energy the code reports and the force it applies
            // differ by the factor 3/2, which the property does not fix), the residual must vanish
            bool fd_bend = true; double worst_b = 0, cfit = 0;
            if (PR["kb"].d() > 0) {
                refresh(*c);
                zero_forces(*c); cell_tester::apply_bending(*c);
                auto& N = cell_tester::nodes(*c); auto& F = cell_tester::faces(*c);
                std::vector<vec3> fb; for (auto& n : N) fb.push_back(n.force());
                auto ctp = c->get_cell_type();
                auto energy = [&]() {
                    double E = 0;
                    for (const edge& e : c->get_edge_set()) {
                        auto t1 = cell_tester::tri(F[e.f1()]), t2 = cell_tester::tri(F[e.f2()]);
                        const vec3 a = (N[t1[1]].pos() - N[t1[0]].pos()).cross(N[t1[2]].pos() - N[t1[0]].pos()), b = (N[t2[1]].pos() - N[t2[0]].pos()).cross(N[t2[2]].pos() - N[t2[0]].pos());
                        double dt = a.dot(b) / (a.norm() * b.norm()); dt = std::max(-1., std::min(1., dt));
                        double th = std::acos(dt);
                        if (th > 135. * M_PI / 180.) continue;
                        unsigned n4 = 0; for (unsigned x : t2) if (x != e.n1() && x != e.n2()) n4 = x;
                        if ((N[n4].pos() - N[e.n1()].pos()).dot(a) > 0) th = 2 * M_PI - th;
                        th = M_PI - th;
                        const double L = (N[e.n2()].pos() - N[e.n1()].pos()).norm();
                        const double kk = 0.5 * (ctp->face_types_[F[e.f1()].get_local_face_type_id()].bending_modulus_ + ctp->face_types_[F[e.f2()].get_local_face_type_id()].bending_modulus_);
                        E += kk * L * L / (0.5 * a.norm() + 0.5 * b.norm()) * std::pow(2. * std::cos(th / 2.), 2);
                    }
                    return E;
                };
                const double h = 1e-6 * sc;
                std::vector<double> fdv, fv;
                for (size_t i = 0; i < N.size(); i += 4) {
                    if (!N[i].is_used()) continue;
                    for (int a = 0; a < 3; a++) {
                        const vec3 e(a == 0, a == 1, a == 2); const vec3 keep = N[i].pos();
                        cell_tester::pos(N[i]) = keep + e * h; const double e1 = energy();
                        cell_tester::pos(N[i]) = keep - e * h; const double e0 = energy();
                        cell_tester::pos(N[i]) = keep;
                        fdv.push_back(-(e1 - e0) / (2 * h)); fv.push_back(a == 0 ? fb[i].dx() : a == 1 ? fb[i].dy() : fb[i].dz());
                    }
                }
                double num = 0, den = 0, fm = 0;
                for (size_t q = 0; q < fdv.size(); q++) { num += fdv[q] * fv[q]; den += fdv[q] * fdv[q]; fm = std::max(fm, std::abs(fdv[q])); }
                cfit = den > 0 ? num / den : 0;
                for (size_t q = 0; q < fdv.size(); q++) worst_b = std::max(worst_b, std::abs(fv[q] - cfit * fdv[q]) / (std::abs(cfit) * fm + 1e-300));
                // (hinges that cross the 135 degree cut-off between the two evaluations would break the difference quotient: none on these meshes)
                fd_bend = den > 0 && cfit > 0 && worst_b <= 1e-4;
            }
            o.key("fd_pressure_ok").b(fd_press).key("fd_tension_ok").b(fd_tens).key("fd_bending_ok").b(fd_bend);
            { char bb[96]; snprintf(bb, sizeof bb, "bending fit %.4f residual %.2e", cfit, worst_b); o.key("fd_bending").str(bb); }
            char buf[120]; snprintf(buf, sizeof buf, "pressure %.2e tension %.2e", worst_p, worst_t);
            o.key("fd_rel").str(buf);
        }
        o.end_obj();
        fprintf(fo, "%s\n", o.text().c_str());
    }
    fclose(fo);
    return 0;
}
