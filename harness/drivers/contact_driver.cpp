// C06 / C07 conformance driver (built once per contact model through -DVERIF_CONTACT_MODEL_INDEX).
//   contact_driver pair   <cases.ndjson> <out.ndjson>   one node against one triangle through the model's public narrow phase (C07)
//   contact_driver tissue <cases.ndjson> <out.ndjson>   a whole contact_model::run against the same narrow phase applied to ALL node-triangle pairs (C06)
#include "mesh_probe.hpp"
#include <map>
#include "shapes.hpp"
#include "local_mesh_refiner.hpp"
#include "contact_node_node_via_coupling.hpp"
#include "contact_node_face_via_spring.hpp"
#include "contact_face_face_via_coupling.hpp"
#include "epithelial_cell.hpp"
#include "ecm_cell.hpp"
#include "lumen_cell.hpp"
#include "nucleus_cell.hpp"
#include "static_cell.hpp"

#if CONTACT_MODEL_INDEX == 0
typedef contact_node_face_via_spring model_t;
#elif CONTACT_MODEL_INDEX == 1
typedef contact_node_node_via_coupling model_t;
#else
typedef contact_face_face_via_coupling model_t;
#endif

class open_model : public model_t {
public:
    using model_t::model_t;
    void narrow(cell_ptr c1, cell_ptr c2, node& n, face* f) {
#if CONTACT_MODEL_INDEX == 0
        apply_contact_forces(c1, n, f);
#else
        resolve_contact(c1, c2, n, f);
#endif
    }
    double voxel() const { return grid_.get_voxel_size(); }
    std::array<unsigned, 3> nbv() const { return grid_.get_nb_voxels(); }
};

static const double KREP = 3e8, KADH = 2e8;
// `lid` is the cell's position in the list handed to the model, `id` its persistent identifier: after a division or a removal
// the two differ, and the identifier of one cell can equal the position of another
static cell_ptr make_cell(const std::vector<double>& pos, const std::vector<unsigned>& tris, unsigned lid, int type, unsigned frag_faces = 0, bool frag_node = false, long pid = -1) {
    const unsigned id = pid < 0 ? lid : (unsigned)pid;
    auto ct = std::make_shared<cell_type_parameters>();
    ct->global_type_id_ = (short)type; ct->surface_coupling_max_curvature_ = 1e300; ct->bulk_modulus_ = 1.; ct->target_isoperimetric_ratio_ = 150.;
    for (int k = 0; k < 3; k++) { face_type_parameters ft; ft.face_type_global_id_ = (short)(type == 0 ? k : 3); ft.repulsion_strength_ = KREP; ft.adherence_strength_ = KADH; ct->add_face_type(ft); }
    cell_ptr c;
    switch (type) {
        case 0: c = std::make_shared<epithelial_cell>(pos, tris, id, ct); break;
        case 1: c = std::make_shared<ecm_cell>(pos, tris, id, ct); break;
        case 2: c = std::make_shared<lumen_cell>(pos, tris, id, ct); break;
        case 3: c = std::make_shared<nucleus_cell>(pos, tris, id, ct); break;
        default: c = std::make_shared<static_cell>(pos, tris, id, ct); break;
    }
    c->initialize_cell_properties(true);
    c->set_local_id(lid);
    if (frag_faces || frag_node) cell_tester::fragment(*c, frag_faces, frag_node);      // unused slots in the middle of the lists
#if CONTACT_MODEL_INDEX == 1 || CONTACT_MODEL_INDEX == 2
    c->compute_node_curvature_and_normals();
#endif
    return c;
}
static global_simulation_parameters params(double lmin, double cut_adh, double cut_rep) {
    global_simulation_parameters g;
    g.min_edge_len_ = lmin; g.contact_cutoff_adhesion_ = cut_adh; g.contact_cutoff_repulsion_ = cut_rep; g.time_step_ = 1e-7; g.damping_coefficient_ = 1.;
    return g;
}
static void zero(std::vector<cell_ptr>& L) { for (auto& c : L) for (auto& n : cell_tester::nodes(*c)) n.set_force(vec3(0, 0, 0)); }

// ---- "bigpop": a population of 65538 cells whose only contact is between the LAST two (list positions 65536 and 65537): every
// coupling the contact phase stores must designate the other cell of that doublet and a live node of it (C08 for any number of cells)
static int run_bigpop(const char* out_path) {
    FILE* fo = fopen(out_path, "w");
    vj::out o; o.obj().key("op").str("bigpop").key("model").i(CONTACT_MODEL_INDEX);
#if CONTACT_MODEL_INDEX == 0
    o.key("ncells").i(0).key("ncoupl").i(0).key("bad").i(0).key("skipped").b(true).end_obj();
#else
    const size_t N = 65538;
    std::vector<cell_ptr> L; L.reserve(N);
    shapes::tmesh tet = shapes::tetrahedron();
    for (size_t i = 0; i < N; i++) {
        shapes::tmesh m = i >= N - 2 ? shapes::box(1, 1, 1) : tet;
        const double x = i >= N - 2 ? -50. + (i == N - 1 ? 1.02 : 0.) : 10. * (double)(i % 256), y = i >= N - 2 ? -50. : 10. * (double)(i / 256);
        for (size_t q = 0; q < m.nn(); q++) { m.pos[3 * q] += x; m.pos[3 * q + 1] += y; }
        L.push_back(make_cell(m.pos, m.tris, (unsigned)i, 0));
    }
    open_model mdl(params(0.5, 0.1, 0.1));
    mdl.run(L);
    long ncoupl = 0, bad = 0;
    for (size_t i = 0; i < N; i++) for (auto& n : cell_tester::nodes(*L[i])) {
        if (!n.is_used() || !n.is_coupled()) continue;
        auto check = [&](unsigned c2, unsigned n2) {
            ncoupl++;
            const bool doublet = i >= N - 2 && c2 == (i == N - 1 ? N - 2 : N - 1);
            if (!doublet || n2 >= cell_tester::nodes(*L[c2 < N ? c2 : 0]).size() || !cell_tester::nodes(*L[c2 < N ? c2 : 0])[n2].is_used()) bad++;
        };
#if CONTACT_MODEL_INDEX == 1
        auto pr = n.get_coupled_node(); check(pr.first, pr.second);
#else
        for (auto& kv : cell_tester::coupled_map(n)) check(kv.first, kv.second.first);
#endif
    }
    o.key("ncells").i(N).key("ncoupl").i(ncoupl).key("bad").i(bad).key("skipped").b(false).end_obj();
#endif
    fprintf(fo, "%s\n", o.text().c_str());
    fclose(fo);
    return 0;
}

int main(int argc, char** argv) {
    if (argc >= 3 && std::string(argv[1]) == "bigpop") return run_bigpop(argv[2]);
    if (argc < 4) return 2;
    const std::string mode = argv[1];
    auto cases = vj::read_ndjson(argv[2]);
    FILE* fo = fopen(argv[3], "w");
    for (auto& cp : cases) {
        const vj::value& C = *cp;
        vj::out o;
        o.obj().key("k").i(C["k"].i());
        const double u = C["unit"].d();
        if (mode == "pair") {
            auto P = C["p"].dvec(), A = C["a"].dvec(), B = C["b"].dvec(), Cc = C["c"].dvec();
            auto off = C["off"].dvec();
            auto V = [&](const std::vector<double>& x) { return vec3(u * (x[0] + off[0]), u * (x[1] + off[1]), u * (x[2] + off[2])); };
            const vec3 a = V(A), b = V(B), c = V(Cc), p = V(P);
            const vec3 nrm = (b - a).cross(c - a);
            const vec3 apex = (a + b + c) / 3. - nrm * (2. / nrm.norm()) * u * 3.;
            std::vector<double> pos2 = {a.dx(), a.dy(), a.dz(), b.dx(), b.dy(), b.dz(), c.dx(), c.dy(), c.dz(), apex.dx(), apex.dy(), apex.dz()};
            cell_ptr c2 = make_cell(pos2, {0, 1, 2, 0, 3, 1, 1, 3, 2, 2, 3, 0}, 1, (int)C["t2"].i());
            shapes::tmesh far = shapes::tetrahedron();
            shapes::transform(far, u, u * (off[0] + 500), u * (off[1] + 400), u * (off[2] - 300));
            cell_ptr c1 = make_cell(far.pos, far.tris, 0, (int)C["t1"].i());
            node& n = cell_tester::nodes(*c1)[0];
            cell_tester::pos(n) = p;
            const double cut = std::sqrt(C["cut2"].d()) * u;
            // two DIFFERENT cut-offs, so that exchanging or mixing them anywhere between the parameter file and the range tests shows.
            // The range of the repulsion rule of the specification is `cut` in every configuration (the coupling models use the larger
            // of the two cut-offs for it); the adhesion / coupling range is the adhesion cut-off:
            //   configuration "A": spring model adhesion 2 cut, repulsion cut;   coupling models adhesion cut, repulsion cut / 2
            //   configuration "B": every model  adhesion cut / 2, repulsion cut
            const bool cfgB = C.has("cfg") && C["cfg"].s() == "B";
#if CONTACT_MODEL_INDEX == 0
            open_model mdl(cfgB ? params(u, 0.5 * cut, cut) : params(u, 2. * cut, cut));
#else
            open_model mdl(cfgB ? params(u, 0.5 * cut, cut) : params(u, cut, 0.5 * cut));
#endif
            std::vector<cell_ptr> L = {c1, c2};
            zero(L);
            face* f = &cell_tester::faces(*c2)[0];
            auto t = cell_tester::tri(*f);
            o.key("face_ok").b(t[0] == 0 && t[1] == 1 && t[2] == 2);
            mdl.narrow(c1, c2, n, f);
            const double norm = KREP * f->get_area() * u;            // forces are reported in units of strength * area * lattice unit
            auto& N2 = cell_tester::nodes(*c2);
            auto vecout = [&](const char* key, const vec3& F) { o.key(key).arr().d(F.dx() / norm).d(F.dy() / norm).d(F.dz() / norm).end_arr(); };
            vecout("fn", n.force()); vecout("fa", N2[0].force()); vecout("fb", N2[1].force()); vecout("fc", N2[2].force()); vecout("fapex", N2[3].force());
            bool coupled = false;
#if CONTACT_MODEL_INDEX == 1 || CONTACT_MODEL_INDEX == 2
            coupled = n.is_coupled();
#endif
            o.key("coupled").b(coupled);
            double others = 0; for (size_t i = 1; i < cell_tester::nodes(*c1).size(); i++) others = std::max(others, cell_tester::nodes(*c1)[i].force().norm() / norm);
            o.key("others").d(others);
        } else if (mode == "phases") {
#if CONTACT_MODEL_INDEX == 1
            // spec/Contact/Coupling starts every contact phase from Fresh: two whole contact phases (model::run) on the same two
            // epithelial cells; between them cell B shrinks (its node curvature rises above the coupling threshold) and moves far away.
            // Whatever was coupled in the first phase must be forgotten in the second.
            auto PA = C["posA"].dvec(), PB = C["posB"].dvec();
            for (auto& x : PA) x *= u; for (auto& x : PB) x *= u;
            cell_ptr cA = make_cell(PA, {0, 1, 2, 0, 3, 1, 1, 3, 2, 2, 3, 0}, 0, 0);
            cell_ptr cB = make_cell(PB, {0, 2, 1, 0, 1, 3, 1, 2, 3, 2, 0, 3}, 1, 0);
            std::vector<cell_ptr> L = {cA, cB};
            zero(L);
            double kmax = 0; for (auto& c : L) for (auto& n : cell_tester::nodes(*c)) kmax = std::max(kmax, std::fabs(n.get_curvature()));
            for (auto& c : L) cell_tester::cell_type(*c)->surface_coupling_max_curvature_ = C["thr"].d() * kmax;
            const double cut = std::sqrt(C["cut2"].d()) * u;
            open_model mdl(params(u, cut, 0.25 * cut));
            mdl.run(L);
            long first = 0; for (auto& c : L) for (auto& n : cell_tester::nodes(*c)) if (n.is_coupled()) first++;
            // cell B: shrink about its first node by `shrink`, then move by `away` lattice units along x
            auto& NB = cell_tester::nodes(*cB);
            const vec3 o0 = NB[0].pos(); const double sh = C["shrink"].d(), away = C["away"].d() * u;
            for (auto& n : NB) cell_tester::pos(n) = o0 + (n.pos() - o0) * (1. / sh) + vec3(away, 0, 0);
            for (auto& c : L) { c->update_all_face_normals_and_areas(); c->compute_node_curvature_and_normals(); }
            double kB = 0; for (auto& n : NB) kB = std::max(kB, std::fabs(n.get_curvature()));
            std::vector<vec3> before; for (auto& c : L) for (auto& n : cell_tester::nodes(*c)) before.push_back(n.pos());
            zero(L);
            mdl.run(L);
            long second = 0; bool moved = false; size_t q = 0;
            for (auto& c : L) for (auto& n : cell_tester::nodes(*c)) { if (n.is_coupled()) second++; if (!(n.pos() == before[q++])) moved = true; }
            double fmax = 0; for (auto& c : L) for (auto& n : cell_tester::nodes(*c)) fmax = std::max(fmax, n.force().norm());
            o.key("first_coupled").i(first).key("second_coupled").i(second).key("moved").b(moved).key("force_free").b(fmax == 0.).key("above_threshold").b(kB > C["thr"].d() * kmax);
#endif
        } else if (mode == "coupling") {
#if CONTACT_MODEL_INDEX == 1
            // spec/Contact/CouplingRule: two tetrahedra (nodes 1..4 and 5..8 of the specification), a sequence of presentations
            // <<node, face>> pushed one by one through the real resolve_contact; partner and stored distance of all eight nodes after it
            auto PA = C["posA"].dvec(), PB = C["posB"].dvec();
            for (auto& x : PA) x *= u; for (auto& x : PB) x *= u;
            // outward wound: base first, then the flank named by the specification, then the two other flanks
            cell_ptr cA = make_cell(PA, {0, 1, 2, 0, 3, 1, 1, 3, 2, 2, 3, 0}, 0, 0);
            cell_ptr cB = make_cell(PB, {0, 2, 1, 0, 1, 3, 1, 2, 3, 2, 0, 3}, 1, 0);
            std::vector<cell_ptr> L = {cA, cB};
            zero(L);
            auto& NA = cell_tester::nodes(*cA); auto& NB = cell_tester::nodes(*cB);
            bool ok = NA.size() == 4 && NB.size() == 4 && cell_tester::faces(*cA).size() == 4 && cell_tester::faces(*cB).size() == 4;
            // the gates on normals are opened (every node normal of a cell points at the other cell); the curvature gate is open in make_cell
            for (auto& n : NA) { cell_tester::node_normal(n) = vec3(0, 0, 1); cell_tester::reset_coupling(n); }
            for (auto& n : NB) { cell_tester::node_normal(n) = vec3(0, 0, -1); cell_tester::reset_coupling(n); }
            auto tri_is = [&](cell_ptr c, size_t fi, unsigned a, unsigned b, unsigned d) { auto t = cell_tester::tri(cell_tester::faces(*c)[fi]); return t[0] == a && t[1] == b && t[2] == d; };
            ok = ok && tri_is(cA, 0, 0, 1, 2) && tri_is(cA, 1, 0, 3, 1) && tri_is(cB, 0, 0, 2, 1);
            for (size_t q = 0; q < 4 && ok; q++) ok = NA[q].pos() == vec3(PA[3 * q], PA[3 * q + 1], PA[3 * q + 2]) && NB[q].pos() == vec3(PB[3 * q], PB[3 * q + 1], PB[3 * q + 2]);
            o.key("setup_ok").b(ok);
            const double cut = std::sqrt(C["cut2"].d()) * u;
            open_model mdl(params(u, cut, 0.25 * cut));
            const vj::value& H = C["hist"];
            for (size_t s = 0; s < H.size() && ok; s++) {
                auto h = H[s].ivec();
                const long n = h[0], fid = h[1];                      // specification numbering: nodes 1..8, faces 1 (base A) 2 (base B) 3 (flank A)
                cell_ptr c1 = n <= 4 ? cA : cB, c2 = n <= 4 ? cB : cA;
                node& nd = cell_tester::nodes(*c1)[(size_t)((n - 1) % 4)];
                face* f = fid == 2 ? &cell_tester::faces(*cB)[0] : &cell_tester::faces(*cA)[fid == 1 ? 0 : 1];
                mdl.narrow(c1, c2, nd, f);
            }
            o.key("partner").arr();
            for (int ci = 0; ci < 2; ci++) for (auto& n : cell_tester::nodes(*L[ci])) { if (n.is_coupled()) { auto pr = n.get_coupled_node(); o.i(1 + 4 * (long)pr.first + (long)pr.second); } else o.i(0); }
            o.end_arr().key("dist").arr();
            for (int ci = 0; ci < 2; ci++) for (auto& n : cell_tester::nodes(*L[ci])) { const double d2 = cell_tester::closest_d2(n); if (d2 == std::numeric_limits<double>::max()) o.d(-1); else o.d(d2 / (u * u)); }
            o.end_arr();
            double fmax = 0; for (auto& c : L) for (auto& n : cell_tester::nodes(*c)) fmax = std::max(fmax, n.force().norm());
            o.key("fmax").d(fmax);
#endif
        } else {
            // tissue: cells on the lattice
            std::vector<cell_ptr> L, Lref, Lre;
            for (int pass = 0; pass < 3; pass++) {
                auto& dst = pass == 0 ? L : pass == 1 ? Lref : Lre;
                for (size_t i = 0; i < C["cells"].size(); i++) {
                    const vj::value& cc = C["cells"][i];
                    shapes::tmesh m;
                    const std::string sh = cc["shape"].s();
                    if (sh == "tetra") m = shapes::tetrahedron();
                    else if (sh == "octa") { m = shapes::octahedron(); for (auto& x : m.pos) x *= 2; }
                    else if (sh == "sphere") { m = shapes::sphere((int)cc["level"].i()); for (auto& x : m.pos) x *= 64; }      // a finely meshed bystander
                    else { auto d = cc["dims"].ivec(); m = shapes::box((int)d[0], (int)d[1], (int)d[2]); }
                    auto at = cc["at"].dvec();
                    for (size_t q = 0; q < m.nn(); q++) for (int a = 0; a < 3; a++) m.pos[3 * q + a] = u * (m.pos[3 * q + a] * cc["k"].d() + at[a]);
                    dst.push_back(make_cell(m.pos, m.tris, (unsigned)i, (int)cc["type"].i(), cc.has("frag") ? (unsigned)cc["frag"].i() : 0u, cc.has("fragn") && cc["fragn"].boolean(), cc.has("id") ? cc["id"].i() : -1L));
                }
            }
            // "splits": the contact phase right after a remeshing step, as in solver::run_iteration (refine, then contact, and only
            // then the refresh of all cached normals inside apply_internal_forces): k real edge splits per cell, identical in the three
            // copies; ONLY the reference copy gets its cached face normals / areas refreshed.  Whatever the split leaves cached on the
            // faces it creates must therefore already be what a refresh would compute.
            if (C.has("splits")) {
                const long k = C["splits"].i();
                local_mesh_refiner rf(1e-30, 1e30, false);
                for (int pass = 0; pass < 3; pass++) {
                    auto& lst = pass == 0 ? L : pass == 1 ? Lref : Lre;
                    for (auto& c : lst) {
                        for (long j = 0; j < k; j++) {
                            const size_t ne = c->get_edge_set().size();
                            auto it = c->get_edge_set().begin(); std::advance(it, (size_t)((j * 7919 + 3) % (long)ne));
                            edge e = *it; edge_set dummy;
                            rf.split_edge(e, c, dummy);
                        }
                        if (pass == 1) c->update_all_face_normals_and_areas();
#if CONTACT_MODEL_INDEX == 1 || CONTACT_MODEL_INDEX == 2
                        c->compute_node_curvature_and_normals();
#endif
                    }
                }
            }
            // adhesion and repulsion cut-offs may differ ("cutr": repulsion cut-off, default: equal to "cut" = adhesion cut-off)
            const double lmin = C["lmin"].d() * u, cut_a = C["cut"].d() * u, cut_r = (C.has("cutr") ? C["cutr"].d() : C["cut"].d()) * u, cut = std::max(cut_a, cut_r);
            open_model mdl(params(lmin, cut_a, cut_r));
            zero(L); zero(Lref); zero(Lre);
            mdl.run(L);
            // the same tissue through a model object that is RE-USED from case to case (one per parameter set), as the solver re-uses
            // its contact model -- and the grid inside it -- at every iteration while the tissue moves
            static std::map<std::pair<double, double>, std::unique_ptr<open_model>> reused;
            auto& rm = reused[std::make_pair(lmin, cut_a * 1024. + cut_r)];
            if (!rm) rm = std::make_unique<open_model>(params(lmin, cut_a, cut_r));
            rm->run(Lre);
            // reference: the same narrow phase on every node-triangle pair of different cells (and the models' own node / face gates)
            open_model ref(params(lmin, cut_a, cut_r));
            long pairs = 0;
            // (pairs of cells whose bounding boxes are farther apart than the cut-off cannot interact: skipped by the reference on the
            //  strength of the node positions alone, so that tissues with 10^5 faces stay affordable)
            auto box = [&](cell& c, double* lo, double* hi) { for (int a = 0; a < 3; a++) { lo[a] = 1e300; hi[a] = -1e300; } for (auto& n : cell_tester::nodes(c)) if (n.is_used()) { const double q[3] = {n.pos().dx(), n.pos().dy(), n.pos().dz()}; for (int a = 0; a < 3; a++) { lo[a] = std::min(lo[a], q[a]); hi[a] = std::max(hi[a], q[a]); } } };
            for (auto& c1 : Lref) for (auto& n : cell_tester::nodes(*c1)) {
                if (!n.is_used()) continue;
                for (auto& c2 : Lref) {
                    if (c1->get_id() == c2->get_id()) continue;
                    { double l1[3], h1[3], l2[3], h2[3]; static std::map<std::pair<cell*, cell*>, bool> farmap; auto key = std::make_pair(c1.get(), c2.get());
                      auto it = farmap.find(key);
                      if (it == farmap.end()) { box(*c1, l1, h1); box(*c2, l2, h2); bool far = false; for (int a = 0; a < 3; a++) if (l1[a] > h2[a] + 2 * cut || l2[a] > h1[a] + 2 * cut) far = true; it = farmap.emplace(key, far).first; }
                      if (it->second) continue; }
                    for (auto& f : cell_tester::faces(*c2)) {
                        if (!f.is_used()) continue;
#if CONTACT_MODEL_INDEX == 1 || CONTACT_MODEL_INDEX == 2
                        if (!(n.get_normal().dot(f.get_normal()) < std::cos(90 * M_PI / 180.0))) continue;      // the models' gate on opposed normals
#endif
                        ref.narrow(c1, c2, n, &f);
                        pairs++;
                    }
                }
            }
            double maxdiff = 0, maxf = 0, netx = 0, nety = 0, netz = 0; long nonzero = 0;
            for (size_t i = 0; i < L.size(); i++) {
                auto& N = cell_tester::nodes(*L[i]); auto& M = cell_tester::nodes(*Lref[i]);
                for (size_t q = 0; q < N.size(); q++) {
                    maxdiff = std::max(maxdiff, (N[q].force() - M[q].force()).norm());
                    maxf = std::max(maxf, M[q].force().norm());
                    if (N[q].force().norm() > 0) nonzero++;
                    netx += N[q].force().dx(); nety += N[q].force().dy(); netz += N[q].force().dz();
                }
            }
            double maxdiff_re = 0;
            for (size_t i = 0; i < Lre.size(); i++) {
                auto& N = cell_tester::nodes(*Lre[i]); auto& M = cell_tester::nodes(*Lref[i]);
                for (size_t q = 0; q < N.size(); q++) maxdiff_re = std::max(maxdiff_re, (N[q].force() - M[q].force()).norm());
            }
            o.key("equal_reused").b(maxdiff_re <= 1e-9 * maxf + 1e-300);
            o.key("pairs").i(pairs).key("nonzero_nodes").i(nonzero);
            o.key("equal").b(maxdiff <= 1e-9 * maxf + 1e-300).key("net_zero").b(std::sqrt(netx * netx + nety * nety + netz * netz) <= 1e-9 * maxf * std::max(1L, nonzero) + 1e-300);
            char buf[100]; snprintf(buf, sizeof buf, "maxdiff %.3e maxforce %.3e", maxdiff, maxf);
            o.key("rel").str(buf);
            o.key("nbvox").iarr(mdl.nbv());
        }
        o.end_obj();
        fprintf(fo, "%s\n", o.text().c_str());
        fflush(fo);
    }
    fclose(fo);
    return 0;
}
