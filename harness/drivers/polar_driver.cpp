// Conformance driver for spec/Tissue/Polarisation: real epithelial_cell::special_polarization_update on a face whose three nodes
// carry prescribed couplings (built once per coupling contact model).
//   polar_driver <cases.ndjson> <out.ndjson>
// case: {"k":..,"prev":0|1|2,"nodes":[{"cpl":[[cell,node],..],"agree":bool} x3]}   cells 1, 2 are bipyramids (5 nodes, 6 triangles)
// record: the case plus "out" (the face's type index afterwards) and "others_touched" (a face not sharing the three nodes changed)
#include "mesh_probe.hpp"
#include "shapes.hpp"
#include "epithelial_cell.hpp"

static cell_ptr make(const std::vector<double>& pos, const std::vector<unsigned>& tris, unsigned id) {
    auto ct = std::make_shared<cell_type_parameters>();
    ct->global_type_id_ = 0;
    for (int k = 0; k < 3; k++) { face_type_parameters ft; ft.face_type_global_id_ = (short)k; ct->add_face_type(ft); }
    auto c = std::make_shared<epithelial_cell>(pos, tris, id, ct);
    c->initialize_cell_properties(true);
    c->set_local_id(id);
    return c;
}

int main(int argc, char** argv) {
    if (argc < 3) return 2;
#if CONTACT_MODEL_INDEX == 0
    fprintf(stderr, "the spring model has no couplings\n");
    return 2;
#else
    auto cases = vj::read_ndjson(argv[1]);
    FILE* fo = fopen(argv[2], "w");
    const std::vector<double> bip = {4, 0, 0, -2, 3, 0, -2, -3, 0, 0, 0, 5, 0, 0, -5};
    const std::vector<unsigned> bipt = {0, 1, 3, 1, 2, 3, 2, 0, 3, 1, 0, 4, 2, 1, 4, 0, 2, 4};
    for (auto& cp : cases) {
        const vj::value& C = *cp;
        // cell 0: an octahedron (the observed face is its first one); cells 1 and 2: the neighbours
        shapes::tmesh oc = shapes::octahedron();
        std::vector<cell_ptr> L;
        L.push_back(make(oc.pos, oc.tris, 0));
        for (unsigned q = 1; q <= 2; q++) { std::vector<double> p = bip; for (size_t a = 0; a < p.size(); a += 3) p[a] += 20. * q; L.push_back(make(p, bipt, q)); }
        cell& c0 = *L[0];
        auto& F = cell_tester::faces(c0);
        auto& N = cell_tester::nodes(c0);
        const long prev = C["prev"].i();
        for (auto& f : F) f.set_face_type_id((unsigned short)prev);
        auto t = cell_tester::tri(F[0]);
        for (int i = 0; i < 3; i++) {
            node& n = N[t[i]];
            const vj::value& S = C["nodes"][i];
            cell_tester::node_normal(n) = S["agree"].boolean() ? F[0].get_normal() : F[0].get_normal() * (-1.);
            for (size_t a = 0; a < S["cpl"].size(); a++) {
#if CONTACT_MODEL_INDEX == 1
                n.set_coupled_node_and_min_distance(std::make_pair((unsigned)S["cpl"][a][0].i(), (unsigned)S["cpl"][a][1].i()), 1e-9);
#else
                n.set_coupled_node_and_min_distance((unsigned)S["cpl"][a][0].i(), (unsigned)S["cpl"][a][1].i(), 1e-9);
#endif
            }
        }
        std::vector<unsigned short> before; for (auto& f : F) before.push_back(cell_tester::ftype(f));
        L[0]->special_polarization_update(L);
        bool others = false;
        for (size_t f = 1; f < F.size(); f++) {
            auto u = cell_tester::tri(F[f]);
            bool all3 = true; for (unsigned x : u) if (x != t[0] && x != t[1] && x != t[2]) all3 = false;
            // a face with an uncoupled corner is only ever reset by model 2 (to apical); model 1 leaves it alone
            if (!all3 && cell_tester::ftype(F[f]) != before[f] && !(CONTACT_MODEL_INDEX == 2 && cell_tester::ftype(F[f]) == 0)) others = true;
        }
        vj::out o;
        o.obj().key("k").i(C["k"].i()).key("prev").i(prev).key("out").i(cell_tester::ftype(F[0])).key("others_touched").b(others).key("model").i(CONTACT_MODEL_INDEX);
        o.key("nodes").arr();
        for (int i = 0; i < 3; i++) {
            const vj::value& S = C["nodes"][i];
            o.obj().key("agree").b(S["agree"].boolean()).key("cpl").arr();
            for (size_t a = 0; a < S["cpl"].size(); a++) o.arr().i(S["cpl"][a][0].i()).i(S["cpl"][a][1].i()).end_arr();
            o.end_arr().end_obj();
        }
        o.end_arr().end_obj();
        fprintf(fo, "%s\n", o.text().c_str());
    }
    fclose(fo);
    return 0;
#endif
}
