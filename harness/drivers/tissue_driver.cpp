// C04 / C08 / C09(population) / C19 conformance driver: a real solver::run on a scripted scenario, observed through the
// guarded phase hooks (H4).  One ndjson event per phase boundary with the projection of the population onto the variables
// of spec/Tissue, plus the files and statistics the run produced.
//   tissue_driver <scenario.json> <events.ndjson>
#include "mesh_probe.hpp"
#include "shapes.hpp"
#include "verif_hooks.hpp"
#include "solver.hpp"
#include "mesh_reader.hpp"
#include "epithelial_cell.hpp"
#include "ecm_cell.hpp"
#include "lumen_cell.hpp"
#include "nucleus_cell.hpp"
#include "static_cell.hpp"
#include <cstring>
#include <filesystem>
#include <limits>
#include <set>

struct abort_run : public std::exception { const char* what() const noexcept override { return "verification driver: iteration limit"; } };

static std::string dstr(double v) { char b[64]; snprintf(b, sizeof b, "%.17g", v); return b; }

class traced_solver : public solver {
public:
    using solver::solver;
    std::vector<cell_ptr>& cells() { return cell_lst_; }
    unsigned iteration() const { return iteration_; }
    unsigned file_number() const { return file_number_; }
    unsigned next_id() const { return max_cell_id_; }
    double time() const { return time_integrator_ptr_->get_simulation_time(); }
    std::string stats_string() { return get_simulation_statistics(); }
};

static FILE* g_out = nullptr;
static traced_solver* g_solver = nullptr;
static const vj::value* g_scn = nullptr;
static double g_dt = 0;
static long g_max_iter = 0;
static std::map<unsigned, double> g_tvol_before;      // cell id -> target volume before the force phase
static double g_time_before = 0;
static std::vector<std::vector<std::string>> g_expected_rows;   // statistics rows the run should have printed
static std::vector<long> g_expected_row_iter;

// the last refinement pass of every cell (hook H6): did it end normally with the counter below the number of edges?
#include <mutex>
static std::map<const cell*, bool> g_pass_complete;
static std::mutex g_pass_mu;
static double g_lmin = 0, g_T = 0;
static void on_mesh_op(int phase, const char* op, cell* c, long, long, long, long, double v1, double v2) {
    if (phase == 0 || std::strcmp(op, "pass")) return;
    std::lock_guard<std::mutex> lk(g_pass_mu);
    g_pass_complete[c] = (phase == 1 && v1 < v2);
}

static double indep_volume(cell& c) {
    double v = 0;
    auto& N = cell_tester::nodes(c);
    for (auto& f : cell_tester::faces(c)) if (f.is_used()) {
        auto t = cell_tester::tri(f);
        v += N[t[0]].pos().dot(N[t[1]].pos().cross(N[t[2]].pos()));
    }
    return std::abs(v) / 6.;
}

static void cells_json(vj::out& o, int phase) {
    auto& L = g_solver->cells();
    o.key("cells").arr();
    for (size_t i = 0; i < L.size(); i++) {
        cell& c = *L[i];
        auto ct = c.get_cell_type();
        o.obj();
        o.key("id").i(c.get_id()).key("lid").i(c.get_local_id()).key("type").i(ct ? ct->global_type_id_ : -1);
        o.key("static").b(c.is_static());
        o.key("nn").i(c.get_nb_of_nodes()).key("nf").i(c.get_nb_of_faces());
        o.key("ready").b(c.is_ready_to_divide()).key("below").b(c.is_below_min_vol());
        // the same two verdicts from the numbers (the volume the cell reports against the two thresholds)
        o.key("reached").b(c.get_volume() >= c.get_division_volume()).key("under").b(ct && c.get_volume() < ct->min_vol_);
        {   // connectivity digest (C14: identical meshes in translated runs)
            unsigned long long h = 1469598103934665603ULL;
            for (auto& fc : cell_tester::faces(c)) { unsigned v[4] = {fc.is_used(), 0, 0, 0}; if (fc.is_used()) { auto t = cell_tester::tri(fc); v[1] = t[0]; v[2] = t[1]; v[3] = t[2]; }
                for (unsigned x : v) { h ^= x; h *= 1099511628211ULL; } }
            char hb[24]; snprintf(hb, sizeof hb, "%016llx", h); o.key("conn").str(hb);
        }
        o.key("vol").str(dstr(c.get_volume())).key("tvol").str(dstr(c.get_target_volume())).key("press").str(dstr(c.get_pressure()));
        o.key("divvol").str(dstr(c.get_division_volume())).key("growth").str(dstr(c.get_growth_rate()));
        // C04: the laws, evaluated here with independent one-line formulas
        bool tvol_law = true, press_law = true;
        if (phase == 7 && !c.is_static() && ct) {
            auto it = g_tvol_before.find(c.get_id());
            if (it != g_tvol_before.end()) {
                double t = it->second + g_dt * c.get_growth_rate();
                if (t < ct->min_vol_) t = ct->min_vol_;
                tvol_law = std::memcmp(&t, &cell_tester::target_volume(c), sizeof t) == 0;
            }
            const double V = indep_volume(c);
            double p = -ct->bulk_modulus_ * std::log(V / c.get_target_volume());
            if (p > ct->max_pressure_) p = ct->max_pressure_;
            press_law = std::abs(p - c.get_pressure()) <= 1e-9 * std::abs(p) + 1e-9 * ct->bulk_modulus_ * 1e-6 + 1e-300;
            if (std::abs(V - c.get_volume()) > 1e-9 * V) press_law = false;     // the reported volume is the enclosed volume
        }
        if (phase == -1 && ct) {   // initial target volume from the initial pressure: Vt = V * exp(p0 / K)
            const double want = indep_volume(c) * std::exp(ct->initial_pressure_ / ct->bulk_modulus_);
            tvol_law = std::abs(want - c.get_target_volume()) <= 1e-9 * want;
        }
        o.key("tvol_law").b(tvol_law).key("press_law").b(press_law);
        o.key("tvol_ge_min").b(!ct || c.is_static() || phase < 7 || c.get_target_volume() >= ct->min_vol_);
        // C08: owner and face-type references of the faces
        long bad_owner = 0, bad_ftype = 0;
        for (auto& f : cell_tester::faces(c)) if (f.is_used()) {
            if (cell_tester::owner(f).get() != &c) bad_owner++;
            if (ct && f.get_local_face_type_id() >= ct->face_types_.size()) bad_ftype++;
        }
        o.key("bad_owner").i(bad_owner).key("bad_ftype").i(bad_ftype);
        {   // C18 ("edge length governs the run"): right after the refinement phase no edge of a cell whose pass ended normally is
            // longer than three minimum edge lengths (RefinePass.Complete)
            bool edges_ok = true, complete = false;
            if (phase == 4) {
                { std::lock_guard<std::mutex> lk(g_pass_mu); auto it = g_pass_complete.find(&c); complete = it != g_pass_complete.end() && it->second; }
                auto& N = cell_tester::nodes(c);
                const double lim = 9. * g_lmin * g_lmin * (1 + 1e-9);
                for (const edge& e : c.get_edge_set()) if ((N[e.n1()].pos() - N[e.n2()].pos()).squared_norm() > lim) edges_ok = false;
            }
            o.key("pass_complete").b(complete).key("edges_ok").b(edges_ok);
        }
        o.end_obj();
    }
    o.end_arr();
}

// C08: every stored coupling designates an existing live node of the intended cell
static void couplings_json(vj::out& o) {
    auto& L = g_solver->cells();
    long n = 0, bad_range = 0, bad_lid = 0, bad_node = 0, nonmutual = 0;
    for (size_t i = 0; i < L.size(); i++) {
        for (auto& nd : cell_tester::nodes(*L[i])) {
            if (!nd.is_used()) continue;
#if CONTACT_MODEL_INDEX == 1
            if (!nd.is_coupled()) continue;
            std::vector<std::pair<unsigned, unsigned>> cs = {nd.get_coupled_node()};
#elif CONTACT_MODEL_INDEX == 2
            std::vector<std::pair<unsigned, unsigned>> cs;
            for (auto& kv : cell_tester::coupled_map(nd)) cs.push_back({kv.first, kv.second.first});
#else
            std::vector<std::pair<unsigned, unsigned>> cs;
#endif
            for (auto& pr : cs) {
                n++;
                if (pr.first >= L.size()) { bad_range++; continue; }
                cell& c2 = *L[pr.first];
                if (c2.get_local_id() != pr.first) bad_lid++;
                auto& N2 = cell_tester::nodes(c2);
                if (pr.second >= N2.size() || !N2[pr.second].is_used()) { bad_node++; continue; }
#if CONTACT_MODEL_INDEX == 1
                node& m = N2[pr.second];
                if (!(m.is_coupled() && m.get_coupled_node().first == L[i]->get_local_id() && m.get_coupled_node().second == nd.get_local_id())) nonmutual++;
#endif
            }
        }
    }
    o.key("coupl").obj().key("n").i(n).key("bad_range").i(bad_range).key("bad_lid").i(bad_lid).key("bad_node").i(bad_node).key("nonmutual").i(nonmutual).end_obj();
}

static void apply_script(long iter, int at_phase) {
    const vj::value& S = *g_scn;
    if (!S.has("script")) return;
    auto& L = g_solver->cells();
    for (size_t k = 0; k < S["script"].size(); k++) {
        const vj::value& ev = S["script"][k];
        if (ev["iter"].i() != iter) continue;
        for (auto& cp : L) {
            if ((long)cp->get_id() != ev["cell"].i()) continue;
            const std::string what = ev["do"].s();
            if (what == "ready" && at_phase == 0) cell_tester::division_volume(*cp) = cp->get_volume() * 0.5;       // the cell has reached its division volume
            if (what == "small" && at_phase == 0) cell_tester::cell_type(*cp)->min_vol_ = cp->get_volume() * 4.;  // the cell is below its minimum volume
            // thresholds met with equality: a volume that has exactly reached the division volume is eligible, a volume exactly at the
            // minimum has not fallen below it (set right before the removal phase: the volume does not change in between)
            if (what == "ready_eq" && at_phase == 0) cell_tester::division_volume(*cp) = cp->get_volume();
            if (what == "small_eq" && at_phase == 9) cell_tester::cell_type(*cp)->min_vol_ = cp->get_volume();
        }
    }
}

static void expected_stat_rows(long iter) {
    for (auto& cp : g_solver->cells()) {
        cell& c = *cp;
        auto ct = c.get_cell_type();
        g_expected_rows.push_back({format_number(c.get_id(), "%d"), format_number((int)(ct ? ct->global_type_id_ : -1), "%d"),
                                   format_number(c.get_area(), "%.3e"), format_number(c.get_volume(), "%.3e"),
                                   format_number(c.get_target_volume(), "%.3e"), format_number(c.get_pressure(), "%.3e")});
        g_expected_row_iter.push_back(iter);
    }
}

static void on_event(const char* ev, const void* obj, long a, long b, long c, double x) {
    if (!g_solver) return;
    vj::out o;
    if (!std::strcmp(ev, "phase")) {
        const int k = (int)a;
        if (k == 0) {
            if ((long)g_solver->iteration() >= g_max_iter) throw abort_run();
            apply_script(g_solver->iteration(), 0);
        }
        if (k == 6) { g_tvol_before.clear(); for (auto& cp : g_solver->cells()) g_tvol_before[cp->get_id()] = cp->get_target_volume(); }
        if (k == 7) g_time_before = g_solver->time();
        if (k == 9) apply_script(g_solver->iteration(), 9);
        if (k == 9 && g_solver->iteration() % 50 == 0) expected_stat_rows(g_solver->iteration());
        if (k == 11) expected_stat_rows(g_solver->iteration());
        o.obj().key("e").str("phase").key("k").i(k).key("iter").i(g_solver->iteration()).key("time").str(dstr(g_solver->time()));
        o.key("fileNo").i(g_solver->file_number()).key("nextId").i(g_solver->next_id());
        bool time_ok = true;
        if (k == 8) { const double want = g_time_before + g_dt; const double got = g_solver->time(); time_ok = std::memcmp(&want, &got, sizeof want) == 0; }
        o.key("time_ok").b(time_ok);
        o.key("before_T").b(k != 0 || g_solver->time() < g_T);      // an iteration starts only while the duration has not been reached
        cells_json(o, k);
        couplings_json(o);
        o.end_obj();
    } else if (!std::strcmp(ev, "mesh_written")) {
        o.obj().key("e").str("mesh_written").key("n").i(a).key("iter").i(b).key("ids").arr();
        for (auto& cp : g_solver->cells()) o.i(cp->get_id());
        o.end_arr();
        o.key("types").arr();
        for (auto& cp : g_solver->cells()) o.i(cp->get_cell_type()->global_type_id_);
        o.end_arr().end_obj();
    } else return;
    fprintf(g_out, "%s\n", o.text().c_str());
}

static double num_or_inf(const vj::value& v) { return v.kind == vj::value::STR ? std::numeric_limits<double>::infinity() : v.d(); }

static std::vector<std::string> split(const std::string& s, char sep) {
    std::vector<std::string> out; std::string cur;
    for (char ch : s) { if (ch == sep) { out.push_back(cur); cur.clear(); } else cur += ch; }
    out.push_back(cur);
    return out;
}

int main(int argc, char** argv) {
    setvbuf(stdout, NULL, _IONBF, 0);
    if (argc < 3) { fprintf(stderr, "usage: tissue_driver scenario.json events.ndjson\n"); return 2; }
    std::ifstream f(argv[1]); std::stringstream ss; ss << f.rdbuf();
    vj::vptr scn = vj::parse(ss.str());
    const vj::value& S = *scn;
    g_scn = scn.get();
    g_out = fopen(argv[2], "w");
    srand((unsigned)S["seed"].i());
    const unsigned long long seed = S["seed"].i();
    verif::hooks().seed = [seed](const char* site) { static std::atomic<unsigned long long> n{0}; return seed * 1000003ULL + (n++); };

    global_simulation_parameters gp;
    gp.output_folder_path_ = S["outdir"].s();
    gp.input_mesh_path_ = "";
    gp.perform_initial_triangulation_ = false;
    gp.enable_edge_swap_operation_ = S["swap"].boolean();
    gp.damping_coefficient_ = S["damping"].d();
    gp.simulation_duration_ = S["T"].d();
    g_T = gp.simulation_duration_;
    gp.sampling_period_ = S["S"].d();
    gp.time_step_ = S["dt"].d();
    gp.min_edge_len_ = S["lmin"].d();
    g_lmin = gp.min_edge_len_;
    gp.contact_cutoff_adhesion_ = S["cut_adh"].d();
    gp.contact_cutoff_repulsion_ = S["cut_rep"].d();
    g_dt = gp.time_step_;
    g_max_iter = S["max_iter"].i();

    std::vector<cell_ptr> cells;
    for (size_t i = 0; i < S["cells"].size(); i++) {
        const vj::value& C = S["cells"][i];
        shapes::tmesh m = shapes::sphere((int)C["level"].i());
        // optional generic shape: an ellipsoid with deterministically displaced nodes (no symmetry plane through nodes, no equal edges)
        if (C.has("jitter")) for (size_t q = 0; q < m.pos.size(); q++) m.pos[q] += C["jitter"].d() * std::sin(1.0 + 12.9898 * (double)q);
        if (C.has("stretch")) { auto st = C["stretch"].dvec(); for (size_t q = 0; q < m.pos.size(); q++) m.pos[q] *= st[q % 3]; }
        auto ctr = C["c"].dvec();
        shapes::transform(m, C["R"].d(), ctr[0], ctr[1], ctr[2]);
        auto ct = std::make_shared<cell_type_parameters>();
        ct->name_ = "t" + std::to_string(i);
        ct->global_type_id_ = (short)C["type"].i();
        ct->mass_density_ = 1e3;
        ct->bulk_modulus_ = C["K"].d();
        ct->max_pressure_ = num_or_inf(C["pmax"]);
        ct->initial_pressure_ = C["p0"].d();
        ct->area_elasticity_modulus_ = 1e-15;
        ct->avg_division_vol_ = num_or_inf(C["divvol"]);
        ct->std_division_vol_ = 0.;
        ct->avg_growth_rate_ = C["growth"].d();
        ct->std_growth_rate_ = 0.;
        ct->min_vol_ = C["minvol"].d();
        ct->angle_regularization_factor_ = 0.;
        ct->target_isoperimetric_ratio_ = 150.;
        ct->surface_coupling_max_curvature_ = 1e9;
        for (long k = 0; k < C["nfacetypes"].i(); k++) {
            face_type_parameters ft;
            ft.name_ = "f" + std::to_string(k);
            ft.face_type_global_id_ = (short)(ct->global_type_id_ == 0 ? k : 3);
            // different values per face type and per kind of strength, so that exchanging two of them on the way from the parameters
            // to the forces changes the run
            ft.surface_tension_ = 1e-3 * (1. + 0.2 * (double)k); ft.adherence_strength_ = 1e9 * (1. + 0.1 * (double)k); ft.repulsion_strength_ = 1.3e9 * (1. + 0.3 * (double)k);
            ft.bending_modulus_ = C.has("kb") ? C["kb"].d() * (1. + 0.5 * (double)k) : 0.;
            ct->add_face_type(ft);
        }
        cell_ptr c;
        switch (ct->global_type_id_) {
            case 0: c = std::make_shared<epithelial_cell>(m.pos, m.tris, (unsigned)i, ct); break;
            case 1: c = std::make_shared<ecm_cell>(m.pos, m.tris, (unsigned)i, ct); break;
            case 2: c = std::make_shared<lumen_cell>(m.pos, m.tris, (unsigned)i, ct); break;
            case 3: c = std::make_shared<nucleus_cell>(m.pos, m.tris, (unsigned)i, ct); break;
            default: c = std::make_shared<static_cell>(m.pos, m.tris, (unsigned)i, ct); break;
        }
        c->initialize_cell_properties(true);
        cells.push_back(c);
    }

    // C04: growth rates and division volumes drawn from a normal distribution stay within mean +/- 3 sigma
    if (S.has("draws")) {
        const vj::value& D = S["draws"];
        auto ct = std::make_shared<cell_type_parameters>(*cells[0]->get_cell_type());
        ct->avg_growth_rate_ = D["g_mean"].d(); ct->std_growth_rate_ = D["g_std"].d();
        ct->avg_division_vol_ = D["v_mean"].d(); ct->std_division_vol_ = D["v_std"].d();
        shapes::tmesh m = shapes::sphere(0);
        epithelial_cell probe(m.pos, m.tris, 0u, ct);
        long out_g = 0, out_v = 0; std::set<double> dg, dv;
        const long N = D["n"].i();
        for (long i = 0; i < N; i++) {
            probe.initialize_random_properties();
            const double g = probe.get_growth_rate(), v = probe.get_division_volume();
            if (!(g >= ct->avg_growth_rate_ - 3 * ct->std_growth_rate_ && g <= ct->avg_growth_rate_ + 3 * ct->std_growth_rate_)) out_g++;
            if (!(v >= ct->avg_division_vol_ - 3 * ct->std_division_vol_ && v <= ct->avg_division_vol_ + 3 * ct->std_division_vol_)) out_v++;
            dg.insert(g); dv.insert(v);
        }
        vj::out o; o.obj().key("e").str("draws").key("n").i(N).key("out_growth").i(out_g).key("out_divvol").i(out_v)
            .key("distinct_growth").i(dg.size()).key("distinct_divvol").i(dv.size()).end_obj();
        fprintf(g_out, "%s\n", o.text().c_str());
    }

    std::string outcome = "completed", what;
    const bool in_string = S["stats_in_string"].boolean();
    try {
        traced_solver solv(gp, cells, (int)S["threads"].i(), in_string, false);
        g_solver = &solv;
        verif::hooks().event = on_event;
        verif::hooks().mesh_op = on_mesh_op;
        {
            vj::out o; o.obj().key("e").str("init").key("iter").i(0).key("nextId").i(solv.next_id()).key("fileNo").i(solv.file_number());
            o.key("time").str(dstr(solv.time()));
            cells_json(o, -1); couplings_json(o); o.end_obj();
            fprintf(g_out, "%s\n", o.text().c_str());
        }
        try { solv.run(); }
        catch (abort_run&) { outcome = "iteration_limit"; }
        catch (std::exception& e) { outcome = "exception"; what = e.what(); }
        verif::hooks().event = nullptr;
        verif::hooks().mesh_op = nullptr;

        // ---- what the run left behind
        vj::out o;
        o.obj().key("e").str("end").key("outcome").str(outcome).key("what").str(what);
        o.key("iter").i(solv.iteration()).key("time").str(dstr(solv.time()));
        o.key("T_reached").b(solv.time() >= gp.simulation_duration_);
        o.key("time_eq_T").b(solv.time() == gp.simulation_duration_);
        o.key("ncells").i(solv.cells().size());
        // C15: a digest of the final state of every cell (bit patterns of positions and momenta, connectivity)
        if (S.has("dump_positions") && S["dump_positions"].boolean()) {
            o.key("final").arr();
            for (auto& cp : solv.cells()) {
                o.obj().key("id").i(cp->get_id()).key("vol").d(cp->get_volume()).key("press").d(cp->get_pressure()).key("pos").arr();
                for (auto& nd : cell_tester::nodes(*cp)) if (nd.is_used()) { o.d(nd.pos().dx()).d(nd.pos().dy()).d(nd.pos().dz()); }
                o.end_arr().end_obj();
            }
            o.end_arr();
        }
        o.key("digest").arr();
        for (auto& cp : solv.cells()) {
            unsigned long long h = 1469598103934665603ULL;
            auto eat = [&](const void* p, size_t n) { const unsigned char* b = (const unsigned char*)p; for (size_t i = 0; i < n; i++) { h ^= b[i]; h *= 1099511628211ULL; } };
            for (auto& nd : cell_tester::nodes(*cp)) {
                const bool u = nd.is_used(); eat(&u, sizeof u);
                if (!u) continue;
                eat(&nd.pos(), sizeof(vec3));
#if DYNAMIC_MODEL_INDEX == 0
                eat(&nd.momentum(), sizeof(vec3));
#endif
            }
            for (auto& fc : cell_tester::faces(*cp)) { const bool u = fc.is_used(); eat(&u, sizeof u); if (u) { auto t = cell_tester::tri(fc); eat(t.data(), sizeof(unsigned) * 3); } }
            char buf[40]; snprintf(buf, sizeof buf, "%u:%016llx", cp->get_id(), h);
            o.str(buf);
        }
        o.end_arr();
        o.key("ts1").i(S["ts1"].i());        // floor(T/S)+1, computed exactly by the scenario generator
        for (const char* sub : {"cell_data", "face_data"}) {
            std::set<long> nums;
            std::error_code ec;
            for (auto& de : std::filesystem::directory_iterator(gp.output_folder_path_ + "/" + sub, ec)) {
                const std::string fn = de.path().filename().string();
                if (fn.rfind("result_", 0) == 0) nums.insert(atol(fn.c_str() + 7));
            }
            o.key(!std::strcmp(sub, "cell_data") ? "files_cell" : "files_face").arr();
            for (long n : nums) o.i(n);
            o.end_arr();
        }
        // every cell-data file is read back with the real reader
        o.key("parsed").arr();
        {
            std::error_code ec;
            std::set<long> nums;
            for (auto& de : std::filesystem::directory_iterator(gp.output_folder_path_ + "/cell_data", ec)) {
                const std::string fn = de.path().filename().string();
                if (fn.rfind("result_", 0) == 0) nums.insert(atol(fn.c_str() + 7));
            }
            for (long n : nums) {
                o.obj().key("n").i(n);
                try {
                    mesh_reader r(gp.output_folder_path_ + "/cell_data/result_" + std::to_string(n) + ".vtk", false);
                    auto meshes = r.read();
                    auto types = r.get_cell_types();
                    o.key("ok").b(true).key("ncells").i(meshes.size()).key("types").iarr(types);
                    // which cells the pair of files says it describes: the cell_id array of the cell-data file, and the runs of the
                    // face_cell_id array of the face-data file (tokens of the files themselves, not the writer's arguments)
                    auto field = [&](const std::string& path, const std::string& name) {
                        std::vector<long> v; std::ifstream f(path); std::string tok;
                        while (f >> tok) if (tok == name) { long one = 0, cnt = 0; std::string ty; if (!(f >> one >> cnt >> ty)) break; for (long q = 0; q < cnt; q++) { double x; if (!(f >> x)) break; v.push_back((long)std::llround(x)); } break; }
                        return v;
                    };
                    auto cid = field(gp.output_folder_path_ + "/cell_data/result_" + std::to_string(n) + ".vtk", "cell_id");
                    auto fid = field(gp.output_folder_path_ + "/face_data/result_" + std::to_string(n) + ".vtk", "face_cell_id");
                    std::vector<long> runs; for (long x : fid) if (runs.empty() || runs.back() != x) runs.push_back(x);
                    o.key("cell_ids").iarr(cid).key("face_ids").iarr(runs);
                } catch (std::exception& e) { o.key("ok").b(false).key("ncells").i(-1).key("types").arr().end_arr().key("cell_ids").arr().end_arr().key("face_ids").arr().end_arr().key("err").str(e.what()); }
                o.end_obj();
            }
        }
        o.end_arr();
        // the statistics table
        std::string table;
        if (in_string) table = solv.stats_string();
        else { std::ifstream sf(gp.output_folder_path_ + "/simulation_statistics.csv"); std::stringstream b; b << sf.rdbuf(); table = b.str(); }
        auto lines = split(table, '\n');
        while (!lines.empty() && lines.back().empty()) lines.pop_back();
        long headers = 0; std::vector<std::string> head;
        std::vector<std::vector<std::string>> rows;
        for (auto& ln : lines) {
            auto fs = split(ln, ',');
            if (!fs.empty() && fs.back().empty()) fs.pop_back();          // every line ends with a separator
            if (fs.size() && fs[0] == "iteration") { headers++; head = fs; }
            else rows.push_back(fs);
        }
        auto col = [&](const char* name) { for (size_t i = 0; i < head.size(); i++) if (head[i] == name) return (long)i; return -1L; };
        const long ci = col("cell_id"), ct = col("type_id"), ca = col("area"), cv = col("volume"), ctv = col("target_volume"), cp = col("pressure");
        o.key("stats").obj().key("headers").i(headers).key("nfields").i(head.size()).key("nrows").i(rows.size()).key("nexpected").i(g_expected_rows.size());
        o.key("cols_found").b(ci >= 0 && ct >= 0 && ca >= 0 && cv >= 0 && ctv >= 0 && cp >= 0);
        o.key("rows").arr();
        for (size_t r = 0; r < rows.size(); r++) {
            auto& fs = rows[r];
            o.obj().key("iter").i(fs.size() ? atol(fs[0].c_str()) : -1).key("nfields").i(fs.size());
            bool match = false; long id = -1, eiter = -2;
            if (r < g_expected_rows.size() && ci >= 0 && (size_t)std::max({ci, ct, ca, cv, ctv, cp}) < fs.size()) {
                auto& e = g_expected_rows[r];
                match = fs[ci] == e[0] && fs[ct] == e[1] && fs[ca] == e[2] && fs[cv] == e[3] && fs[ctv] == e[4] && fs[cp] == e[5];
                id = atol(fs[ci].c_str()); eiter = g_expected_row_iter[r];
            }
            o.key("id").i(id).key("expected_iter").i(eiter).key("match").b(match).end_obj();
        }
        o.end_arr().end_obj();
        o.end_obj();
        fprintf(g_out, "%s\n", o.text().c_str());
        g_solver = nullptr;
    } catch (std::exception& e) {
        vj::out o; o.obj().key("e").str("end").key("outcome").str("setup_exception").key("what").str(e.what()).end_obj();
        fprintf(g_out, "%s\n", o.text().c_str());
    }
    fclose(g_out);
    std::error_code ec;
    std::filesystem::remove_all(gp.output_folder_path_, ec);
    return 0;
}
