// C01 / C11 conformance driver: real local_mesh_refiner::refine_mesh passes on randomly displaced closed meshes,
// observed through the guarded hooks (VERIF_MESH_OP).  One record per operation executed inside a pass and one
// record per pass:
//   {"op":"split|merge|merge_blocked|swap|swap_skipped|pass", "a","b","f1","f2", "pre":<mesh>, "post":<mesh>, "eset":..,
//    "ids_ok","vol_pos","threw", "num":{...numeric predicates evaluated here with independent formulas...}}
//   refine_driver c01|c11 <npasses> <seed> <out.ndjson>
#include "mesh_probe.hpp"
#include "shapes.hpp"
#include "verif_hooks.hpp"
#include <cstring>
#include <random>

struct snapshot {
    std::string mesh;                       // JSON projection
    std::vector<vec3> pos, mom;
    std::vector<bool> used;
    std::vector<std::array<unsigned, 3>> tri;
    std::vector<bool> fused;
    std::vector<unsigned short> ftype;
    double vol6 = 0, area = 0;
};

static double area_of(cell& c) {
    double a = 0;
    auto& N = cell_tester::nodes(c);
    for (auto& f : cell_tester::faces(c)) if (f.is_used()) {
        auto t = cell_tester::tri(f);
        a += 0.5 * (N[t[1]].pos() - N[t[0]].pos()).cross(N[t[2]].pos() - N[t[0]].pos()).norm();
    }
    return a;
}

static snapshot take(cell& c) {
    snapshot s;
    vj::out o; cell_tester::mesh_json(c, o); s.mesh = o.text();
    for (auto& n : cell_tester::nodes(c)) {
        s.pos.push_back(n.pos());
#if DYNAMIC_MODEL_INDEX == 0
        s.mom.push_back(n.momentum());
#else
        s.mom.push_back(vec3());
#endif
        s.used.push_back(n.is_used());
    }
    for (auto& f : cell_tester::faces(c)) { s.tri.push_back(cell_tester::tri(f)); s.fused.push_back(f.is_used()); s.ftype.push_back(f.is_used() ? f.get_local_face_type_id() : 0); }
    s.vol6 = cell_tester::signed_vol6(c);
    s.area = area_of(c);
    return s;
}

static bool same_bits(const vec3& a, const vec3& b) { return std::memcmp(&a, &b, sizeof(vec3)) == 0; }

static FILE* g_out = nullptr;
static long long g_records = 0;
static double g_lmin2 = 0, g_lmax2 = 0;
static snapshot g_pre_op, g_pre_pass;
static bool g_swaps_enabled = true, g_in_band = false, g_force_in_band = false;

// the mesh already satisfies the edge-length band and (when swaps are enabled) the triangle quality rule; with a margin
// so that the verdict does not hinge on the last bit
static bool in_band(cell& c) {
    auto& N = cell_tester::nodes(c);
    for (const edge& e : c.get_edge_set()) {
        const double l2 = (N[e.n1()].pos() - N[e.n2()].pos()).squared_norm();
        if (!(l2 > g_lmin2 * (1 + 1e-9) && l2 < g_lmax2 * (1 - 1e-9))) return false;
    }
    if (g_swaps_enabled)
        for (auto& f : cell_tester::faces(c)) if (f.is_used()) {
            auto t = cell_tester::tri(f);
            const vec3 &A = N[t[0]].pos(), &B = N[t[1]].pos(), &C = N[t[2]].pos();
            const double per = (B - A).norm() + (C - B).norm() + (A - C).norm();
            const double score = (36. / std::sqrt(3.)) * 0.5 * (B - A).cross(C - A).norm() / (per * per);
            if (!(score > 0.2 * (1 + 1e-9))) return false;
        }
    return true;
}
static std::vector<std::string> g_pass_ops;
// The geometry of the cell has degenerated: a triangle whose altitude is below 1e-6 of its longest edge (e.g. two nodes placed at the
// same point by a collapse followed by a split, in a band with l_max < 2 l_min).  The cached normal of such a triangle is undefined,
// so the operations that orient their results by it (split) are outside the domain of C01 / C11 -- the same restriction as "no triangle
// inverts between a refresh and the next operation".  Judged from the node positions only; records of the cell stop there.
static bool g_degenerate = false;
static bool degenerate(const snapshot& s) {
    for (size_t f = 0; f < s.tri.size(); f++) if (s.fused[f]) {
        auto& t = s.tri[f];
        if (t[0] >= s.pos.size() || t[1] >= s.pos.size() || t[2] >= s.pos.size()) return false;     // broken mesh: let the record show it
        const vec3 &A = s.pos[t[0]], &B = s.pos[t[1]], &C = s.pos[t[2]];
        const double ar2 = (B - A).cross(C - A).norm();
        const double l = std::max((B - A).norm(), std::max((C - B).norm(), (A - C).norm()));
        if (!(ar2 > 1e-6 * l * l)) return true;
    }
    return false;
}

static void emit(const char* op, cell& c, const snapshot& pre, long a, long b, long f1, long f2, const std::string& threw, double v1, double v2, bool is_pass) {
    snapshot post = take(c);
    if (g_degenerate) return;
    if (threw.empty() && degenerate(post)) { g_degenerate = true; return; }
    vj::out j;
    j.obj();
    j.key("op").str(op).key("a").i(a).key("b").i(b).key("f1").i(f1).key("f2").i(f2);
    j.key("threw").str(threw);
    j.key("ids_ok").b(cell_tester::ids_ok(c));
    j.key("vol_pos").b(post.vol6 > 0.);
    // ---- numeric predicates of C11, evaluated with formulas independent of the code under test
    vec3 m0, m1; double mabs = 0;
    for (size_t i = 0; i < pre.pos.size(); i++) if (pre.used[i]) { m0 = m0 + pre.mom[i]; mabs += std::abs(pre.mom[i].dx()) + std::abs(pre.mom[i].dy()) + std::abs(pre.mom[i].dz()); }
    for (size_t i = 0; i < post.pos.size(); i++) if (post.used[i]) m1 = m1 + post.mom[i];
    const bool mom_ok = (m1 - m0).norm() <= 1e-12 * (mabs + 1e-300) * (is_pass ? 8. : 1.);
    bool surv_ok = true; long n_new = 0; bool mid_ok = true;
    for (size_t i = 0; i < post.pos.size(); i++) {
        const bool before = i < pre.pos.size() && pre.used[i];
        if (post.used[i] && before && !is_pass) { if (!same_bits(post.pos[i], pre.pos[i])) surv_ok = false; }
        if (post.used[i] && !before) {
            n_new++;
            if (!is_pass && a >= 0 && b >= 0) { const vec3 want = (pre.pos[b] + pre.pos[a]) * 0.5; if (!same_bits(want, post.pos[i])) mid_ok = false; }
        }
    }
    // a slot freed and re-used inside one operation (merge: new node may take no freed slot because it is allocated first)
    bool labels_ok = true;
    if (!std::strcmp(op, "split") && threw.empty()) {
        // the four faces around the new node inherit the type of the parent face on their side
        long e = -1;
        for (size_t i = 0; i < post.pos.size(); i++) if (post.used[i] && !(i < pre.pos.size() && pre.used[i])) e = i;
        if (e < 0 || f1 < 0 || f2 < 0) labels_ok = false;
        else {
            auto opp = [&](long f) { for (unsigned n : pre.tri[f]) if ((long)n != a && (long)n != b) return (long)n; return -1L; };
            const long cc = opp(f1), dd = opp(f2);
            int seen = 0;
            for (size_t f = 0; f < post.tri.size(); f++) if (post.fused[f]) {
                auto& t = post.tri[f];
                const bool has_e = t[0] == e || t[1] == e || t[2] == e;
                if (!has_e) continue;
                seen++;
                const bool has_c = t[0] == cc || t[1] == cc || t[2] == cc;
                const bool has_d = t[0] == dd || t[1] == dd || t[2] == dd;
                if (has_c && post.ftype[f] != pre.ftype[f1]) labels_ok = false;
                if (has_d && post.ftype[f] != pre.ftype[f2]) labels_ok = false;
                if (has_c == has_d) labels_ok = false;
            }
            if (seen != 4) labels_ok = false;
        }
    }
    double len2 = -1;
    if (a >= 0 && b >= 0 && (size_t)a < pre.pos.size() && (size_t)b < pre.pos.size()) len2 = (pre.pos[a] - pre.pos[b]).squared_norm();
    bool sel_ok = true;
    if (!std::strcmp(op, "split")) sel_ok = len2 > g_lmax2;
    if (!std::strcmp(op, "merge") || !std::strcmp(op, "merge_blocked")) sel_ok = len2 < g_lmin2;
    j.key("num").obj();
    j.key("mom_ok").b(mom_ok).key("surv_ok").b(surv_ok).key("mid_ok").b(mid_ok).key("n_new").i(n_new).key("labels_ok").b(labels_ok).key("sel_ok").b(sel_ok);
    // TLC has no reals: doubles are logged as text (for the reader), the pass counters as integers
    { char buf[96]; snprintf(buf, sizeof buf, "%.17g", len2); j.key("len2").str(buf); }
    if (is_pass) { j.key("v1").i((long long)v1).key("v2").i((long long)v2); }
    else { char buf[96]; snprintf(buf, sizeof buf, "%.17g %.17g", v1, v2); j.key("v").str(buf); }
    const double vtol = 1e-12 * (std::abs(pre.vol6) + 1e-300), atol = 1e-12 * (pre.area + 1e-300);
    j.key("vol_same").b(std::abs(post.vol6 - pre.vol6) <= vtol * 64);
    j.key("area_same").b(std::abs(post.area - pre.area) <= atol * 64);
    j.key("unchanged").b(post.mesh == pre.mesh && post.pos.size() == pre.pos.size() &&
                         std::memcmp(post.pos.data(), pre.pos.data(), pre.pos.size() * sizeof(vec3)) == 0 &&
                         std::memcmp(post.mom.data(), pre.mom.data(), pre.mom.size() * sizeof(vec3)) == 0);
    if (is_pass) {
        long ns = 0, nm = 0, nw = 0;
        for (auto& s : g_pass_ops) { ns += s == "split"; nm += s == "merge"; nw += s == "swap"; }
        j.key("n_split").i(ns).key("n_merge").i(nm).key("n_swap").i(nw).key("in_band").b(g_in_band);
    }
    j.end_obj();
    std::string body = j.text();   // the record object is still open: append the big parts
    vj::out t; cell_tester::eset_json(c, t);
    body += ",\"pre\":" + pre.mesh + ",\"post\":" + post.mesh + ",\"eset\":" + t.text() + "}";
    fprintf(g_out, "%s\n", body.c_str());
    g_records++;
}

static void hook(int phase, const char* op, cell* c, long n1, long n2, long f1, long f2, double v1, double v2) {
    const bool is_pass = !std::strcmp(op, "pass");
    if (phase == 0) {
        if (is_pass) { g_pre_pass = take(*c); g_pass_ops.clear(); g_in_band = g_force_in_band || in_band(*c); }
        else g_pre_op = take(*c);
        return;
    }
    if (is_pass) { emit("pass", *c, g_pre_pass, -1, -1, -1, -1, phase == 2 ? "refinement bound reached" : "", v1, v2, true); return; }
    std::string name = op;
    if (name == "swap") {
        if (!(v1 < v2)) {
            name = "swap_skipped";
            static long skipped = 0;
            if (skipped++ % 25 != 0) return;      // thousands of identical no-op records: keep one in 25
        }
    }
    if (name == "merge_blocked") g_pre_op = take(*c);   // no phase-0 call for a blocked merge: state is unchanged by definition
    if (name == "split" || name == "merge" || name == "swap") g_pass_ops.push_back(name);
    emit(name.c_str(), *c, g_pre_op, n1, n2, f1, f2, "", v1, v2, false);
}

static cell_ptr make_cell(const shapes::tmesh& m) {
    cell_ptr c = std::make_shared<cell>(m.pos, m.tris, 0);
    c->initialize_cell_properties(true);
    auto& F = cell_tester::faces(*c);
    for (size_t f = 0; f < F.size(); f++) F[f].set_face_type_id(f % 3);
    return c;
}

int main(int argc, char** argv) {
    setvbuf(stdout, NULL, _IONBF, 0);
    if (argc < 5) { fprintf(stderr, "usage: refine_driver c01|c11 <npasses> <seed> <out> [max_records]\n"); return 2; }
    const long long max_records = argc > 5 ? atoll(argv[5]) : 1000000;
    const size_t max_nodes = argc > 6 ? (size_t)atoll(argv[6]) : 150;
    const int npass = atoi(argv[2]);
    std::mt19937_64 rng(strtoull(argv[3], 0, 10));
    g_out = fopen(argv[4], "w");
    verif::hooks().mesh_op = hook;
    std::uniform_real_distribution<double> U(0., 1.);
    // ---- boundary cases on the lattice: edges EXACTLY as long as a threshold are inside the band (split only if longer, collapse
    // only if shorter): octahedra with Pythagorean edge lengths, so that the squared lengths and thresholds are exact in doubles
    for (int variant = 0; variant < 2; variant++) for (double unit : {std::ldexp(1.0, -17), 1.0, std::ldexp(1.0, -30)}) for (int sw = 0; sw < 2; sw++) {
        const double ax[2][3] = {{3, 4, 3}, {4, 3, 4}};            // edges: 5, sqrt(18), 5   /   5, sqrt(32), 5
        shapes::tmesh m = shapes::octahedron();
        for (size_t i = 0; i < m.nn(); i++) for (int a = 0; a < 3; a++) m.pos[3 * i + a] *= ax[variant][a];
        shapes::transform(m, unit, 7 * unit, -3 * unit, 50 * unit);
        cell_ptr c = make_cell(m);
#if DYNAMIC_MODEL_INDEX == 0
        for (auto& n : cell_tester::nodes(*c)) cell_tester::momentum(n) = vec3(1e-15, -2e-15, 3e-15);
#endif
        const double lmin = (variant == 0 ? 2. : 5.) * unit, lmax = (variant == 0 ? 5. : 6.) * unit;   // variant 0: longest edges == l_max; variant 1: shortest edges == l_min
        g_swaps_enabled = sw; g_force_in_band = true; g_degenerate = false;
        local_mesh_refiner lmr(lmin, lmax, sw);
        g_lmin2 = lmr.get_l_min_squared(); g_lmax2 = lmr.get_l_max_squared();
        try { lmr.refine_mesh(c); } catch (std::exception&) {}
        g_force_in_band = false;
    }
    // ---- refused swaps: a sliver whose longest edge A-B has its two opposite nodes C and D joined by an edge already (and no node
    // of valence three, so that the first refusal of swap_edge does not apply): swap_edge must leave the mesh as it is.  A thin
    // tetrahedron ABCD whose faces ACD and BCD are subdivided by a node each; every edge is inside the band.
    for (double unit : {1e-5, 1.0, std::ldexp(1.0, -17), 3e-9}) for (int v = 0; v < 4; v++) {
        const double w = (v & 1) ? 0.05 : 0.1, t = (v & 2) ? 0.03 : 0.08;
        shapes::tmesh m;
        const double P[6][3] = {{-1, 0, 0}, {1, 0, 0}, {0, w, t}, {0, -w, t}, {-1. / 3, 0, 2 * t / 3 + 0.05}, {1. / 3, 0, 2 * t / 3 + 0.05}};
        for (auto& p : P) for (int a = 0; a < 3; a++) m.pos.push_back(p[a]);
        // A=0 B=1 C=2 D=3 E=4 (in ACD) F=5 (in BCD); the orientation is repaired by initialize_cell_properties
        m.tris = {0, 1, 2, 0, 3, 1, 0, 2, 4, 2, 3, 4, 3, 0, 4, 1, 3, 5, 3, 2, 5, 2, 1, 5};
        shapes::transform(m, unit, 3 * unit, -2 * unit, 11 * unit);
        cell_ptr c = make_cell(m);
        c->update_all_face_normals_and_areas();
        g_swaps_enabled = true; g_degenerate = false;
        local_mesh_refiner lmr(0.02 * unit, 10. * unit, true);
        g_lmin2 = lmr.get_l_min_squared(); g_lmax2 = lmr.get_l_max_squared();
        try { lmr.refine_mesh(c); } catch (std::exception&) {}
    }
    int done = 0, cellno = 0;
    while (done < npass && g_records < max_records) {
        // a fresh cell: sphere of level 1 or 2 (or a stretched one), scaled to micrometres, anywhere in space
        shapes::tmesh m = shapes::sphere((cellno % 4 == 3 && max_nodes > 70) ? 2 : 1);
        // every third cell is strongly stretched so that sliver triangles (quality score < 0.2) trigger real edge swaps
        const double sx = (cellno % 3 == 2) ? 6. + 6. * U(rng) : 1 + U(rng), sy = 1 + 0.5 * U(rng);
        for (size_t i = 0; i < m.nn(); i++) { m.pos[3 * i] *= sx; m.pos[3 * i + 1] *= sy; }
        // micrometres, or (every fifth cell) nanometres: triangle areas of 1e-17 and below, where an absolute tolerance on an area, a
        // cross product or a squared length would misjudge every triangle
        const double sc = (cellno % 3 == 1) ? 3e-9 : 1e-5;
        shapes::transform(m, sc, 10 * sc * (U(rng) - 0.5), 10 * sc * (U(rng) - 0.5), 10 * sc * (U(rng) - 0.5));
        cell_ptr c = make_cell(m);
        cellno++;
        g_degenerate = false;
#if DYNAMIC_MODEL_INDEX == 0
        for (auto& n : cell_tester::nodes(*c)) cell_tester::momentum(n) = vec3(1e-15 * (U(rng) - 0.5), 1e-15 * (U(rng) - 0.5), 1e-15 * (U(rng) - 0.5));
#endif
        const int passes_here = 3 + rng() % 4;
        for (int p = 0; p < passes_here && done < npass && g_records < max_records; p++, done++) {
            // normals refreshed as apply_internal_forces does, then the nodes move by less than a fraction of the smallest altitude
            c->update_all_face_normals_and_areas();
            auto& N = cell_tester::nodes(*c);
            double min_alt = 1e300; std::vector<double> lens;
            for (auto& f : cell_tester::faces(*c)) if (f.is_used()) {
                auto t = cell_tester::tri(f);
                const vec3 &A = N[t[0]].pos(), &B = N[t[1]].pos(), &C = N[t[2]].pos();
                const double ar2 = (B - A).cross(C - A).norm();
                const double lmax = std::max((B - A).norm(), std::max((C - B).norm(), (A - C).norm()));
                if (lmax > 0) min_alt = std::min(min_alt, ar2 / lmax);
            }
            const double delta = 0.15 * min_alt;
            for (auto& n : N) if (n.is_used()) {
                vec3 d(U(rng) - 0.5, U(rng) - 0.5, U(rng) - 0.5);
                cell_tester::pos(n) = n.pos() + d * (2. * delta / std::sqrt(3.));
            }
            for (const edge& e : c->get_edge_set()) lens.push_back((N[e.n1()].pos() - N[e.n2()].pos()).norm());
            std::sort(lens.begin(), lens.end());
            // an edge-length band that makes some edges too short and/or too long; every third pass a band that everything satisfies
            double lmin, lmax;
            if (p % 3 == 2) { lmin = lens.front() * 0.9; lmax = lens.back() * 1.1; if (lmax <= lmin) lmax = lmin * 2; }
            else { lmin = lens[(size_t)(U(rng) * 0.35 * lens.size())]; lmax = lmin * (1.3 + 1.7 * U(rng)); }
            // the first pass on a nanometre cell splits about half of its edges (the random band above may ask for collapses only)
            if (sc < 1e-6 && p == 0) { lmin = 0.5 * lens.front(); lmax = lens[lens.size() / 2]; if (lmax <= lmin) lmax = 2 * lmin; }
            const bool swaps = (rng() % 4) != 0;
            g_swaps_enabled = swaps;
            local_mesh_refiner lmr(lmin, lmax, swaps);
            g_lmin2 = lmr.get_l_min_squared(); g_lmax2 = lmr.get_l_max_squared();
            try { lmr.refine_mesh(c); }
            catch (std::exception& ex) { /* reported by the pass record (phase 2) */ }
            if (rng() % 3 == 0) {
                snapshot pre = take(*c);
                std::string threw;
                try { c->rebase(); } catch (std::exception& ex) { threw = ex.what(); }
                emit("rebase", *c, pre, -1, -1, -1, -1, threw, 0, 0, false);
            }
            if (g_degenerate) break;          // next cell
            if (c->get_nb_of_faces() < 4 || c->get_nb_of_nodes() > max_nodes) break;
        }
    }
    fclose(g_out);
    printf("records %lld\n", g_records);
    return 0;
}
