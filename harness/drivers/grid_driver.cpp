// C20 conformance driver: replays the cases enumerated by TLC from spec/Grid into the real
// uspg_3d / uspg_4d templates and logs what the implementation answers.
//   grid_driver <cases.ndjson> <obs.ndjson>
// case: {"k":n,"lo":[x,y,z],"hi":[..],"s":v,"reg":[dmin,dmax],"objs":[[x,y,z],..],"unit":u,"off":o}
// physical coordinate = off + lattice * unit
#include "vjson.hpp"
#include "custom_structures.hpp"
#include "uspg_3d.hpp"
#include "uspg_4d.hpp"
#include <algorithm>
#include <map>
#include <memory>

int main(int argc, char** argv) {
    if (argc < 3) { fprintf(stderr, "usage: grid_driver cases obs\n"); return 2; }
    auto cases = vj::read_ndjson(argv[1]);
    FILE* fo = fopen(argv[2], "w");
    if (!fo) return 2;
    for (auto& cp : cases) {
        const vj::value& c = *cp;
        const double unit = c["unit"].d(), off = c["off"].d();
        auto lo = c["lo"].ivec(), hi = c["hi"].ivec();
        const long long s = c["s"].i();
        auto P = [&](long long v) { return off + (double)v * unit; };
        const size_t nobj = c["objs"].size();

        uspg_4d<int> g4(P(lo[0]), P(lo[1]), P(lo[2]), P(hi[0]), P(hi[1]), P(hi[2]), (double)s * unit, nobj);
        uspg_3d<int> g3(P(lo[0]), P(lo[1]), P(lo[2]), P(hi[0]), P(hi[1]), P(hi[2]), (double)s * unit, nobj);
        auto nb4 = g4.get_nb_voxels();
        auto nb3 = g3.get_nb_voxels();
        // the same questions to grids that are RE-USED from case to case through update_dimensions (one per voxel size, as the contact
        // models re-use theirs at every iteration): their answers must be those of the freshly constructed grids
        static std::map<double, std::unique_ptr<uspg_4d<int>>> R4;
        static std::map<double, std::unique_ptr<uspg_3d<int>>> R3;
        const double vs = (double)s * unit;
        bool reuse_same = true;
        auto& r4 = R4[vs]; auto& r3 = R3[vs];
        if (!r4) r4 = std::make_unique<uspg_4d<int>>(P(lo[0]), P(lo[1]), P(lo[2]), P(hi[0]), P(hi[1]), P(hi[2]), vs, nobj);
        else r4->update_dimensions(nobj, P(lo[0]), P(lo[1]), P(lo[2]), P(hi[0]), P(hi[1]), P(hi[2]));
        if (!r3) r3 = std::make_unique<uspg_3d<int>>(P(lo[0]), P(lo[1]), P(lo[2]), P(hi[0]), P(hi[1]), P(hi[2]), vs, nobj);
        else r3->update_dimensions(nobj, P(lo[0]), P(lo[1]), P(lo[2]), P(hi[0]), P(hi[1]), P(hi[2]));
        if (r4->get_nb_voxels() != nb4 || r3->get_nb_voxels() != nb3) reuse_same = false;

        auto inside = [](const std::array<unsigned, 3>& v, const std::array<unsigned, 3>& nb) {
            return v[0] < nb[0] && v[1] < nb[1] && v[2] < nb[2];
        };

        vj::out o;
        o.obj();
        o.key("k").i(c["k"].i());
        o.key("lo").iarr(lo); o.key("hi").iarr(hi); o.key("s").i(s);
        o.key("reg").iarr(c["reg"].ivec());
        o.key("objs").arr();
        for (size_t i = 0; i < nobj; i++) o.iarr(c["objs"][i].ivec());
        o.end_arr();
        o.key("nb").iarr(nb4);
        o.key("nb3").iarr(nb3);

        // place the objects (ids 1..n), never letting the real object index out of its storage
        std::vector<int> oob;  // objects whose voxel index is outside the grid
        for (size_t i = 0; i < nobj; i++) {
            auto p = c["objs"][i].ivec();
            auto v4 = g4.get_3d_voxel_index(P(p[0]), P(p[1]), P(p[2]));
            auto v3 = g3.get_3d_voxel_index(P(p[0]), P(p[1]), P(p[2]));
            if (inside(v4, nb4)) g4.place_object((int)i + 1, P(p[0]), P(p[1]), P(p[2])); else oob.push_back((int)i + 1);
            if (inside(v3, nb3)) g3.place_object((int)i + 1, P(p[0]), P(p[1]), P(p[2]));
            if (r4->get_3d_voxel_index(P(p[0]), P(p[1]), P(p[2])) != v4 || r3->get_3d_voxel_index(P(p[0]), P(p[1]), P(p[2])) != v3) reuse_same = false;
            if (reuse_same && inside(v4, nb4)) r4->place_object((int)i + 1, P(p[0]), P(p[1]), P(p[2]));
            if (reuse_same && inside(v3, nb3)) r3->place_object((int)i + 1, P(p[0]), P(p[1]), P(p[2]));
        }
        o.key("oob").iarr(oob);

        // every lattice point of the box: voxel index, neighbourhoods
        o.key("pts").arr();
        for (long long x = lo[0]; x <= hi[0]; x++) for (long long y = lo[1]; y <= hi[1]; y++) for (long long z = lo[2]; z <= hi[2]; z++) {
            auto v4 = g4.get_3d_voxel_index(P(x), P(y), P(z));
            auto v3 = g3.get_3d_voxel_index(P(x), P(y), P(z));
            o.obj();
            o.key("p").arr().i(x).i(y).i(z).end_arr();
            o.key("v").iarr(v4);
            o.key("v3").iarr(v3);
            const bool in4 = inside(v4, nb4), in3 = inside(v3, nb3);
            o.key("in").b(in4 && in3);
            std::vector<int> n4, n3, c4;
            int c3 = 0;
            if (in4) {
                for (int id : g4.get_neighborhood(P(x), P(y), P(z))) n4.push_back(id);
                for (int id : g4.get_voxel_content(v4[0], v4[1], v4[2])) c4.push_back(id);
            }
            if (in3) {
                for (int id : g3.get_neighborhood(P(x), P(y), P(z))) n3.push_back(id);
                auto oc = g3.get_voxel_content(v3[0], v3[1], v3[2]);
                if (oc) c3 = oc.value();
            }
            std::sort(n4.begin(), n4.end()); std::sort(n3.begin(), n3.end());
            if (reuse_same) {
                if (r4->get_3d_voxel_index(P(x), P(y), P(z)) != v4 || r3->get_3d_voxel_index(P(x), P(y), P(z)) != v3) reuse_same = false;
                else {
                    std::vector<int> m4, m3;
                    if (in4) for (int id : r4->get_neighborhood(P(x), P(y), P(z))) m4.push_back(id);
                    if (in3) for (int id : r3->get_neighborhood(P(x), P(y), P(z))) m3.push_back(id);
                    std::sort(m4.begin(), m4.end()); std::sort(m3.begin(), m3.end());
                    if (m4 != n4 || m3 != n3) reuse_same = false;
                }
            }
            o.key("n4").iarr(n4); o.key("n3").iarr(n3);
            o.key("c4").iarr(c4);   // in the list order of the implementation
            o.key("c3").i(c3);
            o.end_obj();
        }
        o.end_arr();
        std::vector<int> gc4, gc3;
        for (int id : g4.get_grid_content()) gc4.push_back(id);
        for (int id : g3.get_grid_content()) gc3.push_back(id);
        std::sort(gc4.begin(), gc4.end()); std::sort(gc3.begin(), gc3.end());
        o.key("g4").iarr(gc4); o.key("g3").iarr(gc3);
        if (reuse_same) {
            std::vector<int> h4, h3;
            for (int id : r4->get_grid_content()) h4.push_back(id);
            for (int id : r3->get_grid_content()) h3.push_back(id);
            std::sort(h4.begin(), h4.end()); std::sort(h3.begin(), h3.end());
            if (h4 != gc4 || h3 != gc3) reuse_same = false;
        }
        o.key("reuse_same").b(reuse_same);
        // the grids store objects BY VALUE: the same questions with the structured element type the simulator stores in them
        // (oriented_point: id, position, normal, a flag), objects with alternating flags, several per voxel -- what is read back from
        // a voxel must be, field by field, what was placed (uspg_3d keeps the last one placed in a voxel, uspg_4d all of them)
        bool struct_same = true;
        {
            uspg_4d<oriented_point> s4(P(lo[0]), P(lo[1]), P(lo[2]), P(hi[0]), P(hi[1]), P(hi[2]), (double)s * unit, nobj);
            uspg_3d<oriented_point> s3(P(lo[0]), P(lo[1]), P(lo[2]), P(hi[0]), P(hi[1]), P(hi[2]), (double)s * unit, nobj);
            std::vector<oriented_point> placed;
            std::map<std::array<unsigned, 3>, unsigned> last_in_voxel;
            for (size_t i = 0; i < nobj; i++) {
                auto p = c["objs"][i].ivec();
                oriented_point op((unsigned)i + 1, vec3(P(p[0]), P(p[1]), P(p[2])), vec3((double)i, -1. - (double)i, 0.5));
                op.created_by_poisson_sampling_ = (i % 2 == 0);
                placed.push_back(op);
                auto v = s4.get_3d_voxel_index(P(p[0]), P(p[1]), P(p[2]));
                if (!inside(v, nb4)) continue;
                s4.place_object(op, P(p[0]), P(p[1]), P(p[2]));
                // uspg_3d holds one object per voxel: a decoy with the opposite flag is placed first, so that the object itself always
                // lands in an OCCUPIED voxel (overwriting is an assignment, placing into an empty voxel may be a construction)
                oriented_point decoy(0u, vec3(P(p[0]), P(p[1]), P(p[2])), vec3(9., 9., 9.));
                decoy.created_by_poisson_sampling_ = !op.created_by_poisson_sampling_;
                s3.place_object(decoy, P(p[0]), P(p[1]), P(p[2]));
                s3.place_object(op, P(p[0]), P(p[1]), P(p[2]));
                last_in_voxel[v] = (unsigned)i + 1;
            }
            auto same = [&](const oriented_point& a, const oriented_point& b) {
                return a.id_ == b.id_ && a.created_by_poisson_sampling_ == b.created_by_poisson_sampling_ && a.position_.dx() == b.position_.dx() && a.position_.dy() == b.position_.dy() &&
                       a.position_.dz() == b.position_.dz() && a.normal_.dx() == b.normal_.dx() && a.normal_.dy() == b.normal_.dy() && a.normal_.dz() == b.normal_.dz(); };
            for (auto& kv : last_in_voxel) {
                for (const oriented_point& q : s4.get_voxel_content(kv.first[0], kv.first[1], kv.first[2])) if (q.id_ < 1 || q.id_ > nobj || !same(q, placed[q.id_ - 1])) struct_same = false;
                auto oc = s3.get_voxel_content(kv.first[0], kv.first[1], kv.first[2]);
                if (!oc || !same(oc.value(), placed[kv.second - 1])) struct_same = false;
            }
        }
        o.key("struct_same").b(struct_same);
        o.key("exact").b(!c.has("exact") || c["exact"].boolean());
        o.end_obj();
        fprintf(fo, "%s\n", o.text().c_str());
    }
    fclose(fo);
    return 0;
}
