// C15 conformance driver.
//   par_driver divide <scenario.json> <events.ndjson>   real cell_divider::run under seeded scheduling delays (hook H5)
//   par_driver exc    <scenario.json> <events.ndjson>   real parallel_exception_handler / refine_meshes / mesh_writer::write with failing items
// Events carry a global ticket (atomic counter taken inside the callback) and the OpenMP thread number.
#include "mesh_probe.hpp"
#include "shapes.hpp"
#include "verif_hooks.hpp"
#include "cell_divider.hpp"
#include "epithelial_cell.hpp"
#include "mesh_writer.hpp"
#include "local_mesh_refiner.hpp"
#include <atomic>
#include <chrono>
#include <cstring>
#include <mutex>
#include <random>
#include <thread>

static std::mutex g_mu;
static std::vector<std::string> g_events;
static std::atomic<long> g_ticket{0};
static unsigned long long g_seed = 1;
static long g_crit_sleep_us = 2000, g_read_sleep_us = 600;
static long g_reverse_step_us = 0, g_ncells = 0;      // adversarial schedule: cell i starts (n - i) steps late, so that later cells complete first
static thread_local long tl_index = -1;
static thread_local long tl_draws = 0;

static void emit(vj::out& o) { std::lock_guard<std::mutex> lk(g_mu); g_events.push_back(o.text()); }

static void on_event(const char* ev, const void*, long a, long b, long c, double) {
    if (std::strncmp(ev, "div_", 4)) return;
    if (!std::strcmp(ev, "div_read")) { tl_index = a; tl_draws = 0; }
    vj::out o;
    const long tk = ++g_ticket;           // the ticket is taken before anything else the thread does after the observed point
    o.obj().key("e").str(ev + 4).key("ticket").i(tk).key("t").i(omp_get_thread_num()).key("i").i(a).key("size").i(b).key("buf").i((long long)((unsigned long long)c % 1000000007ULL)).end_obj();
    emit(o);
}
static unsigned long long mix(unsigned long long x) { x ^= x >> 33; x *= 0xff51afd7ed558ccdULL; x ^= x >> 33; x *= 0xc4ceb9fe1a85ec53ULL; x ^= x >> 33; return x; }
static void on_yield(const char* site, long idx) {
    const unsigned long long h = mix(g_seed * 1315423911ULL + (unsigned long long)idx * 2654435761ULL + (site[4] == 'i' ? 17 : 3));
    const long us = !std::strcmp(site, "div_in_crit") ? g_crit_sleep_us : (long)(h % (unsigned long long)(g_read_sleep_us + 1));
    if (us > 0) std::this_thread::sleep_for(std::chrono::microseconds(us));
    if (g_reverse_step_us > 0 && !std::strcmp(site, "div_before_read")) std::this_thread::sleep_for(std::chrono::microseconds(g_reverse_step_us * std::max(0L, g_ncells - idx)));
}
// random generators are seeded per cell so that a cell divides the same way whatever thread handles it
static unsigned long long on_seed(const char* site) { return mix(g_seed + 1000003ULL * (unsigned long long)(tl_index + 1) + 101ULL * (unsigned long long)(tl_draws++) + (unsigned long long)site[0]); }

static cell_type_param_ptr make_type() {
    auto ct = std::make_shared<cell_type_parameters>();
    ct->global_type_id_ = 0; ct->mass_density_ = 1e3; ct->bulk_modulus_ = 2.5e3; ct->max_pressure_ = 1e300;
    ct->avg_division_vol_ = 1.; ct->min_vol_ = 0.; ct->target_isoperimetric_ratio_ = 150.;
    for (int k = 0; k < 3; k++) { face_type_parameters ft; ft.face_type_global_id_ = k; ft.repulsion_strength_ = 1e9; ct->add_face_type(ft); }
    return ct;
}

static std::vector<cell_ptr> make_cells(const vj::value& S) {
    std::vector<cell_ptr> L;
    std::mt19937_64 rng(S["geom_seed"].i());
    std::uniform_real_distribution<double> U(-1., 1.);
    const long n = S["n"].i();
    for (long i = 0; i < n; i++) {
        shapes::tmesh m = shapes::sphere(2);
        for (size_t k = 0; k < m.pos.size(); k++) m.pos[k] += 0.03 * U(rng);
        shapes::transform(m, 4e-6, 2e-5 * i, 0, 0);
        auto c = std::make_shared<epithelial_cell>(m.pos, m.tris, (unsigned)i, make_type());
        c->initialize_cell_properties(true);
        c->set_local_id(i);
        L.push_back(c);
    }
    for (size_t k = 0; k < S["ready"].size(); k++) { cell& c = *L[S["ready"][k].i()]; cell_tester::division_volume(c) = c.get_volume() * 0.5; }
    for (long i = 0; i < n; i++) if (cell_tester::division_volume(*L[i]) == 1.) cell_tester::division_volume(*L[i]) = 1.;   // not ready (volume << 1)
    return L;
}

static void population_json(vj::out& o, const char* key, std::vector<cell_ptr>& L) {
    o.key(key).arr();
    for (auto& c : L) o.obj().key("id").i(c->get_id()).key("lid").i(c->get_local_id()).key("nn").i(c->get_nb_of_nodes()).end_obj();
    o.end_arr();
}

struct my_exc : public std::runtime_error { int k; my_exc(int k_) : std::runtime_error("my_exc " + std::to_string(k_)), k(k_) {} };

int main(int argc, char** argv) {
    setvbuf(stdout, NULL, _IONBF, 0);
    if (argc < 4) return 2;
    std::ifstream f(argv[2]); std::stringstream ss; ss << f.rdbuf();
    vj::vptr scn = vj::parse(ss.str());
    const vj::value& S = *scn;
    g_seed = S["seed"].i();
    const std::string mode = argv[1];
    FILE* fo = fopen(argv[3], "w");
    const int threads = (int)S["threads"].i();
    if (mode == "divide") {
        const double lmin = 1e-6;
        local_mesh_refiner lmr(lmin, 3 * lmin, false);
        verif::hooks().seed = on_seed;
        // sequential reference (no delays, one thread)
        std::vector<cell_ptr> ref = make_cells(S);
        unsigned ref_next = (unsigned)ref.size();
        omp_set_num_threads(1);
        verif::hooks().event = [](const char* ev, const void*, long a, long, long, double) { if (!std::strcmp(ev, "div_read")) { tl_index = a; tl_draws = 0; } };
        cell_divider::run(ref, lmin, lmr, ref_next, false);
        // the run under test
        std::vector<cell_ptr> L = make_cells(S);
        std::vector<unsigned> before; for (auto& c : L) before.push_back(c->get_id());
        unsigned next = (unsigned)L.size();
        omp_set_num_threads(threads);
        if (S.has("crit_sleep_us")) g_crit_sleep_us = S["crit_sleep_us"].i();
        if (S.has("read_sleep_us")) g_read_sleep_us = S["read_sleep_us"].i();
        g_reverse_step_us = S.has("reverse_step_us") ? S["reverse_step_us"].i() : 0;
        g_ncells = S["n"].i();
        verif::hooks().event = on_event;
        verif::hooks().yield = on_yield;
        cell_divider::run(L, lmin, lmr, next, false);
        verif::hooks().event = nullptr; verif::hooks().yield = nullptr;
        for (auto& e : g_events) fprintf(fo, "%s\n", e.c_str());
        vj::out o;
        o.obj().key("e").str("result").key("ticket").i(++g_ticket).key("threads").i(threads).key("n_before").i(before.size()).key("next").i(next).key("ref_next").i(ref_next);
        population_json(o, "cells", L);
        population_json(o, "ref", ref);
        o.end_obj();
        fprintf(fo, "%s\n", o.text().c_str());
    } else if (mode == "excstress") {
        // thousands of items that ALL throw at once, several rounds: whatever the handler keeps of the exceptions it catches in
        // parallel must survive being written by many threads at the same moment; every round must end with one of the thrown
        // exceptions reaching the caller intact
        omp_set_num_threads(threads);
        const long n = S["n"].i(), rounds = S["rounds"].i();
        long ok = 0;
        std::vector<long> items(n); for (long i = 0; i < n; i++) items[i] = i;
        std::function<void(long)> body = [&](long i) { throw mesh_integrity_exception("item " + std::to_string(i) + " of a long enough message to live on the heap"); };
        for (long r = 0; r < rounds; r++) {
            try { parallel_exception_handler(items, body); }
            catch (mesh_integrity_exception& e) { const std::string w = e.what(); if (w.rfind("item ", 0) == 0 && w.find("to live on the heap") != std::string::npos) ok++; }
            catch (...) {}
        }
        vj::out o; o.obj().key("e").str("stress").key("rounds").i(rounds).key("ok").i(ok).end_obj();
        fprintf(fo, "%s\n", o.text().c_str());
    } else if (mode == "write") {
        // mesh output at several thread counts on a tissue whose cells hold free slots (real edge collapses, no compaction since)
        const long n = S["n"].i(), level = S["level"].i(), trials = S["trials"].i();
        auto build = [&]() {
            std::vector<cell_ptr> L;
            local_mesh_refiner coarsen(S["lmin"].d(), S["lmax"].d(), false);
            for (long i = 0; i < n; i++) {
                shapes::tmesh m = shapes::sphere((int)level);
                shapes::transform(m, 4e-6 * (1. + 0.1 * (double)(i % 3)), 2e-5 * i, 0, 0);
                auto c = std::make_shared<epithelial_cell>(m.pos, m.tris, (unsigned)i, make_type());
                c->initialize_cell_properties(true);
                c->set_local_id(i);
                try { coarsen.refine_mesh(c); } catch (std::exception&) {}
                L.push_back(c);
            }
            return L;
        };
        auto digest = [&](const std::string& path, long& size) {
            std::ifstream in(path, std::ios::binary); std::stringstream b; b << in.rdbuf(); const std::string s = b.str();
            size = (long)s.size();
            unsigned long long h = 1469598103934665603ULL; for (unsigned char ch : s) { h ^= ch; h *= 1099511628211ULL; }
            char buf[32]; snprintf(buf, sizeof buf, "%016llx", h); return std::string(buf);
        };
        const std::string base = std::string(argv[3]);
        std::string ref_c, ref_f; long ref_cs = 0, ref_fs = 0;
        std::vector<long long> tl = S["thread_list"].ivec();
        tl.insert(tl.begin(), 1);                                 // the reference call
        long call = 0;
        for (long long th : tl) for (long tr = 0; tr < (call == 0 ? 1 : trials); tr++) {
            auto L = build();
            long fn = 0, ff = 0; for (auto& c : L) { fn += (long)cell_tester::free_nodes(*c).size(); ff += (long)cell_tester::free_faces(*c).size(); }
            omp_set_num_threads((int)th);
            const std::string pc = base + ".cell.vtk", pf = base + ".face.vtk";
            bool returned = true;
            try { mesh_writer::write(pc, pf, L); } catch (std::exception&) { returned = false; }
            long cs = 0, fs = 0; const std::string dc = digest(pc, cs), df = digest(pf, fs);
            std::remove(pc.c_str()); std::remove(pf.c_str());
            long fa = 0; for (auto& c : L) fa += (long)cell_tester::free_nodes(*c).size() + (long)cell_tester::free_faces(*c).size();
            if (call == 0) { ref_c = dc; ref_f = df; ref_cs = cs; ref_fs = fs; }
            vj::out o;
            o.obj().key("e").str("write").key("call").i(call).key("threads").i(th).key("trial").i(tr).key("returned").b(returned).key("free_nodes").i(fn).key("free_faces").i(ff).key("free_after").i(fa);
            o.key("cell_digest").str(dc).key("face_digest").str(df).key("cell_size").i(cs).key("face_size").i(fs);
            o.key("ref_cell_digest").str(ref_c).key("ref_face_digest").str(ref_f).key("ref_cell_size").i(ref_cs).key("ref_face_size").i(ref_fs).end_obj();
            fprintf(fo, "%s\n", o.text().c_str()); fflush(fo);
            call++;
        }
    } else if (mode == "exc") {
        omp_set_num_threads(threads);
        const long n = S["n"].i();
        std::vector<long long> throwers = S["throwers"].ivec();
        const std::string target = S["target"].s();
        std::string caught = "none"; long caught_k = -1;
        auto log_ev = [&](const char* name, long i) { vj::out o; o.obj().key("e").str(name).key("ticket").i(++g_ticket).key("t").i(omp_get_thread_num()).key("i").i(i).end_obj(); emit(o); };
        if (target == "handler") {
            std::vector<long> items(n); for (long i = 0; i < n; i++) items[i] = i;
            std::function<void(long)> body = [&](long i) {
                log_ev("start", i);
                std::this_thread::sleep_for(std::chrono::microseconds((long)(mix(g_seed * 77 + i) % 1500)));
                for (long long t : throwers) if (t == i) {
                    log_ev("threw", i);
                    if (i % 3 == 0) throw my_exc((int)i);
                    if (i % 3 == 1) throw mesh_integrity_exception("item " + std::to_string(i));
                    throw (int)i;       // not derived from std::exception
                }
                log_ev("finish", i);
            };
            try { parallel_exception_handler(items, body); log_ev("returned", -1); }
            catch (my_exc& e) { caught = "my_exc"; caught_k = e.k; log_ev("caught", e.k); }
            catch (mesh_integrity_exception& e) { caught = "mesh_integrity_exception"; caught_k = atol(std::string(e.what()).substr(std::string(e.what()).rfind(' ') + 1).c_str()); log_ev("caught", caught_k); }
            catch (int k) { caught = "int"; caught_k = k; log_ev("caught", k); }
            catch (...) { caught = "other"; log_ev("caught", -2); }
        } else if (target == "refine") {
            // real refine_meshes: the cells listed in `throwers` are given a mesh that makes the refinement give up
            std::vector<cell_ptr> L;
            for (long i = 0; i < n; i++) {
                shapes::tmesh m = shapes::sphere(1);
                bool bad = false; for (long long t : throwers) if (t == i) bad = true;
                shapes::transform(m, bad ? 1e-7 : 4e-6, 2e-5 * i, 0, 0);     // far below l_min everywhere: every edge is collapsed until the bound is hit
                auto c = std::make_shared<epithelial_cell>(m.pos, m.tris, (unsigned)i, make_type());
                c->initialize_cell_properties(true);
                L.push_back(c);
            }
            local_mesh_refiner lmr(1.8e-6, 5.4e-6, false);
            verif::hooks().mesh_op = [&](int phase, const char* op, cell* c, long, long, long, long, double, double) {
                if (std::strcmp(op, "pass")) return;
                if (phase == 0) log_ev("start", c->get_id());
                else if (phase == 1) log_ev("finish", c->get_id());
                else log_ev("threw", c->get_id());
            };
            try { lmr.refine_meshes(L); log_ev("returned", -1); }
            catch (mesh_integrity_exception& e) { caught = "mesh_integrity_exception"; const std::string w = e.what(); size_t p = w.find("cell "); caught_k = p == std::string::npos ? -1 : atol(w.c_str() + p + 5); log_ev("caught", caught_k); }
            catch (std::exception& e) { caught = "std::exception"; log_ev("caught", -2); }
            verif::hooks().mesh_op = nullptr;
        } else if (target == "writer") {
            std::vector<cell_ptr> L;
            for (long i = 0; i < n; i++) {
                shapes::tmesh m = shapes::sphere(1);
                shapes::transform(m, 4e-6, 2e-5 * i, 0, 0);
                auto c = std::make_shared<epithelial_cell>(m.pos, m.tris, (unsigned)i, make_type());
                c->initialize_cell_properties(true);
                L.push_back(c);
            }
            log_ev("start", 0); log_ev("threw", 0);
            try { mesh_writer::write("/nonexistent_dir_verif/a.vtk", std::string(argv[3]) + ".face.vtk", L); log_ev("returned", -1); }
            catch (mesh_writer_exception& e) { caught = "mesh_writer_exception"; caught_k = 0; log_ev("caught", 0); }
            catch (std::exception& e) { caught = "std::exception"; log_ev("caught", -2); }
            std::remove((std::string(argv[3]) + ".face.vtk").c_str());
        }
        for (auto& e : g_events) fprintf(fo, "%s\n", e.c_str());
        vj::out o;
        o.obj().key("e").str("exc_result").key("ticket").i(++g_ticket).key("n").i(n).key("throwers").iarr(throwers).key("caught").str(caught).key("caught_k").i(caught_k).key("target").str(target).end_obj();
        fprintf(fo, "%s\n", o.text().c_str());
    }
    fclose(fo);
    return 0;
}
