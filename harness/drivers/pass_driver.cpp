// Whole refinement passes of the real local_mesh_refiner on lattice cells, for validation against spec/Refine/RefinePass.
//   pass_driver <cases.ndjson> <out.ndjson>
// A case: {"nn":n, "tris":[[a,b,c],...], "pos":[[x,y,z],...] (integers), "modes":[m,...] (one pass per entry on the same cell; the rule by which the band
//          [2*lmin^2, 2*lmax^2] -- odd integers, lattice units -- is derived from the current edge lengths), "rebase":[0|1,...], "uexp": e (the lattice unit is 2^e metres),
//          "shift":[i,j,k] (lattice units)}
// Swaps are disabled (the triangle-quality score is not a lattice quantity).  One output record per pass: the cell before it, the
// operations the hooks of refine_mesh reported, how the pass ended and the projection of the cell afterwards.
#include <algorithm>
#include <cmath>
#include <cstdio>
#include <cstring>
#include <string>
#include <vector>

#include "cell.hpp"
#include "local_mesh_refiner.hpp"
#include "verif_hooks.hpp"
#include "vjson.hpp"
#include "mesh_probe.hpp"

struct op_rec { std::string op; long a, b, f1, f2; };
static std::vector<op_rec> g_ops;
static int g_end_phase = 0;
static double g_it = -1, g_nedges = -1;

static void hook(int phase, const char* op, cell* c, long n1, long n2, long f1, long f2, double v1, double v2) {
    if (!std::strcmp(op, "pass")) {
        if (phase != 0) { g_end_phase = phase; g_it = v1; g_nedges = v2; }
        return;
    }
    if (phase != 1) return;
    if (!std::strcmp(op, "swap")) return;
    g_ops.push_back({op, n1, n2, f1, f2});
}

int main(int argc, char** argv) {
    if (argc < 3) { fprintf(stderr, "usage: pass_driver <cases.ndjson> <out.ndjson>\n"); return 2; }
    auto rows = vj::read_ndjson(argv[1]);
    FILE* out = fopen(argv[2], "w");
    verif::hooks().mesh_op = hook;
    long done = 0;
    for (auto& rp : rows) {
        const vj::value& r = *rp;
        const size_t nn = (size_t)r["nn"].i();
        const double unit = std::ldexp(1.0, (int)r["uexp"].i());
        const auto sh = r["shift"].ivec();
        std::vector<double> pos;
        for (size_t i = 0; i < nn; i++) { auto p = r["pos"][i].ivec(); for (int a = 0; a < 3; a++) pos.push_back((double)(p[a] + sh[a]) * unit); }
        std::vector<unsigned> tris;
        for (size_t f = 0; f < r["tris"].size(); f++) { auto t = r["tris"][f].ivec(); for (int a = 0; a < 3; a++) tris.push_back((unsigned)t[a]); }
        cell_ptr c = std::make_shared<cell>(pos, tris, 0);
        c->initialize_cell_properties(true);
        {
            auto& F = cell_tester::faces(*c);
            for (size_t f = 0; f < F.size(); f++) F[f].set_face_type_id(f % 3);
        }
        // several passes on the same cell: before every pass but the first the nodes are displaced on the lattice (a history of
        // deformation), the normals refreshed as the solver does, and the lists optionally compacted
        const size_t npass = r["modes"].size();
        for (size_t p = 0; p < npass; p++) {
            auto& N = cell_tester::nodes(*c);
            if (p > 0) {
                for (size_t i = 0; i < N.size(); i++) if (N[i].is_used()) {
                    const long d[3] = {(long)((i * 5 + p * 7) % 3) - 1, (long)((i * 3 + p) % 3) - 1, (long)((i + 2 * p) % 3) - 1};
                    cell_tester::pos(N[i]) = N[i].pos() + vec3(16. * d[0] * unit, 16. * d[1] * unit, 16. * d[2] * unit);
                }
                if (r.has("rebase") && r["rebase"][p].i()) c->rebase();
                c->update_all_face_normals_and_areas();
            }
            auto lat = [&](const node& n, int a) { return (a == 0 ? n.pos().dx() : (a == 1 ? n.pos().dy() : n.pos().dz())) / unit - (double)sh[a]; };
            vj::out o;
            o.obj();
            o.key("id").i(r["id"].i() * 10 + (long long)p);
            o.key("pre"); cell_tester::mesh_json(*c, o);
            bool integral = true;
            o.key("prepos").arr();
            for (auto& n : cell_tester::nodes(*c)) {
                o.arr();
                for (int a = 0; a < 3; a++) { const double x = lat(n, a); if (!n.is_used()) { o.i(0); continue; } if (x != std::floor(x) || std::fabs(x) > 1e9) { integral = false; o.i(0); } else o.i((long long)x); }
                o.end_arr();
            }
            o.end_arr();
            // the band of this pass, from the current squared edge lengths (lattice units) by the rule the case names
            std::vector<long long> L;
            for (const edge& e : c->get_edge_set()) {
                long long q = 0;
                for (int a = 0; a < 3; a++) { const long long d = std::llround(lat(N[e.n1()], a)) - std::llround(lat(N[e.n2()], a)); q += d * d; }
                L.push_back(q);
            }
            std::sort(L.begin(), L.end());
            long long lo = 1, hi = 3;
            if (!L.empty()) switch (r["modes"][p].i()) {
                case 0: lo = L.front() / 2; hi = L.back() / 3; break;                                     // some edges too long
                case 1: lo = L[L.size() / 2]; hi = 4 * L.back(); break;                                   // some too short
                case 2: lo = L[L.size() / 3]; hi = std::max(L[2 * L.size() / 3], 3 * L[L.size() / 3]); break;   // both
                case 3: lo = L[L.size() / 2]; hi = 2 * L[L.size() / 2] + L[L.size() / 2] / 2; break;     // a narrow band in the middle
                case 4: lo = L.front() / 4; hi = L.back() - 1; break;                                     // only the longest edges
                default: lo = L.front() - 1; hi = 4 * L.back(); break;                                    // nothing to do
            }
            long long b0 = 2 * std::max(lo, 1LL) + 1, b1 = 2 * hi + 1;
            if (b1 <= b0) b1 = b0 + 2;
            o.key("band").arr().i(b0).i(b1).end_arr();
            const double lmin = std::sqrt((double)b0 / 2.) * unit, lmax = std::sqrt((double)b1 / 2.) * unit;
            local_mesh_refiner lmr(lmin, lmax, false);
            g_ops.clear(); g_end_phase = 0; g_it = g_nedges = -1;
            std::string threw;
            try { lmr.refine_mesh(c); } catch (std::exception& ex) { threw = ex.what(); }
            o.key("ops").arr();
            for (auto& e : g_ops) { o.obj().key("op").str(e.op).key("a").i(e.a).key("b").i(e.b).key("f1").i(e.f1).key("f2").i(e.f2).end_obj(); }
            o.end_arr();
            o.key("outcome").str(g_end_phase == 2 ? "unstable" : (g_end_phase == 1 ? "done" : "none"));
            o.key("threw").str(threw);
            o.key("it").i((long long)g_it);
            o.key("nedges").i((long long)g_nedges);
            o.key("post"); cell_tester::mesh_json(*c, o);
            o.key("postpos").arr();
            for (auto& n : cell_tester::nodes(*c)) {
                o.arr();
                for (int a = 0; a < 3; a++) { const double x = lat(n, a); if (!n.is_used()) { o.i(0); continue; } if (x != std::floor(x) || std::fabs(x) > 1e9) { integral = false; o.i(0); } else o.i((long long)x); }
                o.end_arr();
            }
            o.end_arr();
            o.key("integral").b(integral);
            o.key("pass").i((long long)p);
            o.end_obj();
            fprintf(out, "%s\n", o.text().c_str());
            if (!integral || c->get_nb_of_nodes() > 60 || c->get_nb_of_faces() < 4) break;   // the cell has left the lattice (or grown too big for TLC)
        }
        done++;
    }
    fclose(out);
    printf("records %ld\n", done);
    return 0;
}
