// Whole refinement passes of the real local_mesh_refiner on lattice cells, for validation against spec/Refine/RefinePass.
//   pass_driver <cases.ndjson> <out.ndjson>
// A case: {"nn":n, "tris":[[a,b,c],...], "pos":[[x,y,z],...] (integers), "band":[2*lmin^2, 2*lmax^2] (odd integers, lattice units),
//          "uexp": e (the lattice unit is 2^e metres), "shift":[i,j,k] (lattice units)}
// Swaps are disabled (the triangle-quality score is not a lattice quantity).  One output record per case: the case itself, the
// operations the hooks of refine_mesh reported, how the pass ended and the projection of the cell afterwards.
#include <cmath>
#include <cstdio>
#include <cstring>
#include <string>
#include <vector>

#include "cell.hpp"
#include "local_mesh_refiner.hpp"
#include "verif_hooks.hpp"
#include "vjson.hpp"
#include "mesh_probe.hpp"

struct op_rec { std::string op; long a, b, f1, f2; };
static std::vector<op_rec> g_ops;
static int g_end_phase = 0;
static double g_it = -1, g_nedges = -1;

static void hook(int phase, const char* op, cell* c, long n1, long n2, long f1, long f2, double v1, double v2) {
    if (!std::strcmp(op, "pass")) {
        if (phase != 0) { g_end_phase = phase; g_it = v1; g_nedges = v2; }
        return;
    }
    if (phase != 1) return;
    if (!std::strcmp(op, "swap")) return;
    g_ops.push_back({op, n1, n2, f1, f2});
}

int main(int argc, char** argv) {
    if (argc < 3) { fprintf(stderr, "usage: pass_driver <cases.ndjson> <out.ndjson>\n"); return 2; }
    auto rows = vj::read_ndjson(argv[1]);
    FILE* out = fopen(argv[2], "w");
    verif::hooks().mesh_op = hook;
    long done = 0;
    for (auto& rp : rows) {
        const vj::value& r = *rp;
        const size_t nn = (size_t)r["nn"].i();
        const double unit = std::ldexp(1.0, (int)r["uexp"].i());
        const auto sh = r["shift"].ivec();
        std::vector<double> pos;
        for (size_t i = 0; i < nn; i++) { auto p = r["pos"][i].ivec(); for (int a = 0; a < 3; a++) pos.push_back((double)(p[a] + sh[a]) * unit); }
        std::vector<unsigned> tris;
        for (size_t f = 0; f < r["tris"].size(); f++) { auto t = r["tris"][f].ivec(); for (int a = 0; a < 3; a++) tris.push_back((unsigned)t[a]); }
        cell_ptr c = std::make_shared<cell>(pos, tris, 0);
        c->initialize_cell_properties(true);
        auto& F = cell_tester::faces(*c);
        for (size_t f = 0; f < F.size(); f++) F[f].set_face_type_id(f % 3);
        const double lmin = std::sqrt((double)r["band"][0].i() / 2.) * unit, lmax = std::sqrt((double)r["band"][1].i() / 2.) * unit;
        local_mesh_refiner lmr(lmin, lmax, false);
        g_ops.clear(); g_end_phase = 0; g_it = g_nedges = -1;
        std::string threw;
        try { lmr.refine_mesh(c); } catch (std::exception& ex) { threw = ex.what(); }
        vj::out o;
        o.obj();
        o.key("id").i(r["id"].i());
        o.key("nn").i(nn);
        o.key("tris").arr(); for (size_t f = 0; f < tris.size() / 3; f++) { o.arr().i(tris[3 * f]).i(tris[3 * f + 1]).i(tris[3 * f + 2]).end_arr(); } o.end_arr();
        o.key("pos").arr(); for (size_t i = 0; i < nn; i++) { auto p = r["pos"][i].ivec(); o.arr().i(p[0]).i(p[1]).i(p[2]).end_arr(); } o.end_arr();
        o.key("band").arr().i(r["band"][0].i()).i(r["band"][1].i()).end_arr();
        o.key("ops").arr();
        for (auto& e : g_ops) { o.obj().key("op").str(e.op).key("a").i(e.a).key("b").i(e.b).key("f1").i(e.f1).key("f2").i(e.f2).end_obj(); }
        o.end_arr();
        o.key("outcome").str(g_end_phase == 2 ? "unstable" : (g_end_phase == 1 ? "done" : "none"));
        o.key("threw").str(threw);
        o.key("it").i((long long)g_it);
        o.key("nedges").i((long long)g_nedges);
        o.key("post"); cell_tester::mesh_json(*c, o);
        bool integral = true;
        o.key("postpos").arr();
        for (auto& n : cell_tester::nodes(*c)) {
            o.arr();
            for (int a = 0; a < 3; a++) {
                const double x = (a == 0 ? n.pos().dx() : (a == 1 ? n.pos().dy() : n.pos().dz())) / unit - (double)sh[a];
                if (!n.is_used()) { o.i(0); continue; }
                if (x != std::floor(x) || std::fabs(x) > 1e9) { integral = false; o.i(0); } else o.i((long long)x);
            }
            o.end_arr();
        }
        o.end_arr();
        o.key("integral").b(integral);
        o.end_obj();
        fprintf(out, "%s\n", o.text().c_str());
        done++;
    }
    fclose(out);
    printf("records %ld\n", done);
    return 0;
}
