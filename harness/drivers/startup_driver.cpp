// C17 driver: the start-up path of main() (simulation_initializer under try/catch(std::exception)) on one parameter file.
// Prints one line "OUTCOME <completed|std_exception|other_exception> <what>" and exits 0; anything else (signal, abort, timeout, memory
// limit) is observed by the parent process.  Limits are set here so that every mutant runs under the same budget.
#include <sys/resource.h>
#include <unistd.h>
#include <cstdio>
#include <cstdlib>
#include <exception>
#include <iostream>
#include <string>
#include "simulation_initializer.hpp"

int main(int argc, char** argv) {
    if (argc < 2) return 2;
    setvbuf(stdout, NULL, _IONBF, 0);
    struct rlimit rl;
    rl.rlim_cur = rl.rlim_max = (rlim_t)3 << 30; setrlimit(RLIMIT_AS, &rl);     // 3 GB of address space
    rl.rlim_cur = rl.rlim_max = 20; setrlimit(RLIMIT_CPU, &rl);                   // 20 s of CPU time
    rl.rlim_cur = rl.rlim_max = 0; setrlimit(RLIMIT_CORE, &rl);
    try {
        simulation_initializer sim_init(argv[1], false);
        std::string shape;      // nodes:faces of every cell handed over (read by C18's start-up stage)
        for (auto& c : sim_init.get_cell_lst()) shape += (shape.empty() ? "" : ",") + std::to_string(c->get_nb_of_nodes()) + ":" + std::to_string(c->get_nb_of_faces());
        printf("OUTCOME completed cells=%zu shape=%s\n", sim_init.get_cell_lst().size(), shape.c_str());
    } catch (std::exception const& e) {
        std::string w = e.what();
        for (auto& ch : w) if (ch == '\n') ch = ' ';
        printf("OUTCOME std_exception %s\n", w.substr(0, 160).c_str());
    } catch (...) {
        printf("OUTCOME other_exception\n");
    }
    fflush(stdout);
    _exit(0);      // the property is about start-up; skip static destruction noise
}
