// C20, the grid of the automatic polarizer: the box it declares for its uspg_3d must contain every node it then stores.
//   polar_grid_driver <cases.ndjson> <obs.ndjson>
// case: {"k":n,"pts":[[x,y,z] x 4],"scale":s,"shift":[x,y,z],"voxel":v}   (a tetrahedron; node order as listed)
#include "vjson.hpp"
#include "custom_structures.hpp"
#include "epithelial_cell.hpp"
#include "automatic_polarizer.hpp"
#include <cmath>

int main(int argc, char** argv) {
    if (argc < 3) return 2;
    auto cases = vj::read_ndjson(argv[1]);
    FILE* fo = fopen(argv[2], "w");
    if (!fo) return 2;
    for (auto& cp : cases) {
        const vj::value& C = *cp;
        const double scale = C["scale"].d(), voxel = C["voxel"].d() * scale;
        auto shift = C["shift"].dvec();
        auto ct = std::make_shared<cell_type_parameters>();
        ct->name_ = "epithelial"; ct->global_type_id_ = 0;
        face_type_parameters ft; ft.name_ = "apical"; ft.face_type_global_id_ = 0; ct->add_face_type(ft);
        mesh m;
        for (size_t i = 0; i < C["pts"].size(); i++) { auto p = C["pts"][i].dvec(); for (int a = 0; a < 3; a++) m.node_pos_lst.push_back(p[a] * scale + shift[a] * scale); }
        m.face_point_ids = {{0, 2, 1}, {0, 1, 3}, {0, 3, 2}, {1, 2, 3}};
        std::vector<cell_ptr> L{std::make_shared<epithelial_cell>(m, 0, ct)};
        automatic_polarizer pol(voxel);
        pol.update_grid_dimensions(L);
        const auto& grid = pol.get_grid();
        const auto mn = grid.get_min_corner(); const auto mx = grid.get_max_corner(); const auto nb = grid.get_nb_voxels();
        bool in_box = true, raw_ok = true;
        for (const node& n : L[0]->get_node_lst()) {
            const auto p = n.pos().to_array();
            for (int a = 0; a < 3; a++) {
                if (!(p[a] >= mn[a] && p[a] <= mx[a])) in_box = false;
                const double raw = std::floor((p[a] - mn[a]) / voxel);
                if (raw < 0. || raw >= (double)nb[a]) raw_ok = false;
            }
        }
        bool retrievable = true;
        pol.mark_boundary_voxels(L);
        for (const node& n : L[0]->get_node_lst()) {
            const auto idx = grid.get_3d_voxel_index(n.pos());
            const auto content = grid.get_voxel_content(idx[0], idx[1], idx[2]);
            if (!content.has_value()) retrievable = false;
        }
        vj::out o;
        o.obj().key("k").i(C["k"].i()).key("in_box").b(in_box).key("raw_ok").b(raw_ok).key("retrievable").b(retrievable);
        o.key("nb").arr().i((long)nb[0]).i((long)nb[1]).i((long)nb[2]).end_arr().end_obj();
        fprintf(fo, "%s\n", o.text().c_str()); fflush(fo);
    }
    fclose(fo);
    return 0;
}
