// C05 conformance driver: replays lattice cases enumerated by TLC (spec/ClosestPoint) into
// contact_model_abstract::compute_node_triangle_distance.
//   cp_driver <cases.ndjson> <obs.ndjson>
// case: {"k":n,"p":[..],"a":[..],"b":[..],"c":[..],"scale":s,"off":[ox,oy,oz]}  physical = off + lattice*scale
#include "vjson.hpp"
#include "contact_model_abstract.hpp"

int main(int argc, char** argv) {
    if (argc < 3) return 2;
    auto cases = vj::read_ndjson(argv[1]);
    FILE* fo = fopen(argv[2], "w");
    if (!fo) return 2;
    for (auto& cp : cases) {
        const vj::value& c = *cp;
        const double sc = c["scale"].d();
        auto off = c["off"].dvec();
        auto V = [&](const char* k) { auto v = c[k].dvec(); return vec3(off[0] + v[0] * sc, off[1] + v[1] * sc, off[2] + v[2] * sc); };
        auto [d2, bary] = contact_model_abstract::compute_node_triangle_distance(V("p"), V("a"), V("b"), V("c"));
        vj::out o;
        o.obj().key("k").i(c["k"].i()).key("d2").d(d2).key("u").d(bary.dx()).key("v").d(bary.dy()).key("w").d(bary.dz()).end_obj();
        fprintf(fo, "%s\n", o.text().c_str());
    }
    fclose(fo);
    return 0;
}
