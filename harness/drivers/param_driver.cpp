// C18 conformance driver: real parameter_reader on generated XML files.
//   param_driver <list.ndjson> <out.ndjson>       list: {"k":..,"path":"..."}
#include "vjson.hpp"
#include "parameter_reader.hpp"

int main(int argc, char** argv) {
    if (argc < 3) return 2;
    auto cases = vj::read_ndjson(argv[1]);
    FILE* fo = fopen(argv[2], "w");
    for (auto& cp : cases) {
        const vj::value& C = *cp;
        vj::out o;
        o.obj().key("k").i(C["k"].i());
        try {
            parameter_reader r(C["path"].s());
            global_simulation_parameters g = r.read_numerical_parameters();
            auto types = r.read_biomechanical_parameters();
            o.key("outcome").str("ok");
            o.key("num").obj();
            o.key("input_mesh_file_path").str(g.input_mesh_path_).key("output_mesh_folder_path").str(g.output_folder_path_);
            o.key("damping_coefficient").d(g.damping_coefficient_).key("perform_initial_triangulation").b(g.perform_initial_triangulation_);
            o.key("simulation_duration").d(g.simulation_duration_).key("time_step").d(g.time_step_).key("sampling_period").d(g.sampling_period_);
            o.key("min_edge_length").d(g.min_edge_len_).key("contact_cutoff_adhesion").d(g.contact_cutoff_adhesion_).key("contact_cutoff_repulsion").d(g.contact_cutoff_repulsion_);
            o.key("enable_edge_swap_operation").b(g.enable_edge_swap_operation_);
            o.end_obj();
            o.key("cells").arr();
            for (auto& t : types) {
                o.obj();
                o.key("cell_type_name").str(t->name_).key("global_cell_id").d(t->global_type_id_).key("cell_mass_density").d(t->mass_density_);
                o.key("cell_bulk_modulus").d(t->bulk_modulus_).key("max_inner_pressure").d(t->max_pressure_).key("area_elasticity_modulus").d(t->area_elasticity_modulus_);
                o.key("avg_division_volume").d(t->avg_division_vol_).key("std_division_volume").d(t->std_division_vol_).key("avg_growth_rate").d(t->avg_growth_rate_);
                o.key("std_growth_rate").d(t->std_growth_rate_).key("target_isoperimetric_ratio").d(t->target_isoperimetric_ratio_);
                o.key("angle_regularization_factor").d(t->angle_regularization_factor_).key("min_vol").d(t->min_vol_);
                o.key("surface_coupling_max_curvature").d(t->surface_coupling_max_curvature_).key("initial_pressure").d(t->initial_pressure_);
                o.key("faces").arr();
                for (auto& f : t->face_types_) {
                    o.obj().key("face_type_name").str(f.name_).key("global_face_id").d(f.face_type_global_id_).key("surface_tension").d(f.surface_tension_);
                    o.key("adherence_strength").d(f.adherence_strength_).key("repulsion_strength").d(f.repulsion_strength_).key("bending_modulus").d(f.bending_modulus_).end_obj();
                }
                o.end_arr().end_obj();
            }
            o.end_arr();
        } catch (parameter_reader_exception& e) { o.key("outcome").str("parameter_reader_exception").key("what").str(e.what()); }
        catch (std::exception& e) { o.key("outcome").str("other_std_exception").key("what").str(e.what()); }
        catch (...) { o.key("outcome").str("unknown_exception"); }
        o.end_obj();
        fprintf(fo, "%s\n", o.text().c_str());
        fflush(fo);
    }
    fclose(fo);
    return 0;
}
