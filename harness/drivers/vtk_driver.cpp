// C16 conformance driver: real mesh_writer::write then real mesh_reader on generated populations.
//   vtk_driver <cases.ndjson> <out.ndjson> <workdir>
// case: {"k":..,"scale":s,"cells":[{"seed":"tetra|octa|bipyr|sphere1","type":0..4,"ops":[["split",i]|["merge",i]...],"salt":n}]}
// record: the population as it is before the write (spec/Mesh projection with unused slots, one coordinate token triple per slot),
//         the path of the written file (tokenised by the check), and what the real reader returns for it
#include "mesh_probe.hpp"
#include "shapes.hpp"
#include "mesh_writer.hpp"
#include "mesh_reader.hpp"
#include "epithelial_cell.hpp"
#include "ecm_cell.hpp"
#include "lumen_cell.hpp"
#include "nucleus_cell.hpp"
#include "static_cell.hpp"

static shapes::tmesh seed_mesh(const std::string& s) {
    if (s == "tetra") return shapes::tetrahedron();
    if (s == "octa") return shapes::octahedron();
    if (s == "sphere1") return shapes::sphere(1);
    shapes::tmesh m;      // triangular bipyramid
    const double h = std::sqrt(3.) / 2.;
    m.pos = {1, 0, 0, -0.5, h, 0, -0.5, -h, 0, 0, 0, 1, 0, 0, -1};
    m.tris = {0, 1, 3, 1, 2, 3, 2, 0, 3, 1, 0, 4, 2, 1, 4, 0, 2, 4};
    return m;
}

// ---- "big": a population with more than 65536 points and 131072 triangles in ONE file (a small cell, a finely meshed one, a
// small one): point offsets, counts and face numbers beyond 16 bits.  Too large for TLC to tokenise; the driver compares what the
// real reader returns with what was written (counts, triangles over the same coordinates to the written precision) and logs verdicts.
static int run_big(const char* out_path, const std::string& work) {
    FILE* fo = fopen(out_path, "w");
    std::vector<cell_ptr> L;
    std::vector<shapes::tmesh> src;
    for (int i = 0; i < 3; i++) {
        shapes::tmesh m = i == 1 ? shapes::sphere(7) : shapes::sphere(1);
        shapes::transform(m, i == 1 ? 3e-5 : 4e-6, 1e-4 * i, -2e-5 * i, 3e-5);
        auto ct = std::make_shared<cell_type_parameters>();
        ct->global_type_id_ = (short)(i == 1 ? 2 : 0);
        face_type_parameters ft; ct->add_face_type(ft); ct->add_face_type(ft); ct->add_face_type(ft);
        cell_ptr c;
        if (i == 1) c = std::make_shared<lumen_cell>(m.pos, m.tris, (unsigned)(10 + i), ct); else c = std::make_shared<epithelial_cell>(m.pos, m.tris, (unsigned)(10 + i), ct);
        c->initialize_cell_properties(true);
        L.push_back(c); src.push_back(m);
    }
    // snapshot: per cell, the triangles as coordinate triples (what must come back)
    auto snap = [&](cell& c) { std::vector<std::array<double, 9>> T; auto& N = cell_tester::nodes(c);
        for (auto& f : cell_tester::faces(c)) if (f.is_used()) { auto t = cell_tester::tri(f); std::array<double, 9> a; for (int k = 0; k < 3; k++) { a[3 * k] = N[t[k]].pos().dx(); a[3 * k + 1] = N[t[k]].pos().dy(); a[3 * k + 2] = N[t[k]].pos().dz(); } T.push_back(a); }
        return T; };
    std::vector<std::vector<std::array<double, 9>>> want; for (auto& c : L) want.push_back(snap(*c));
    const std::string cpath = work + "/big_cell.vtk", fpath = work + "/big_face.vtk";
    std::string werr, rerr;
    try { mesh_writer::write(cpath, fpath, L); } catch (std::exception& e) { werr = e.what(); }
    bool counts_ok = false, types_ok = false, tris_ok = false; size_t npts = 0, ntris = 0;
    if (werr.empty()) {
        try {
            mesh_reader r(cpath, false);
            auto meshes = r.read();
            auto types = r.get_cell_types();
            counts_ok = meshes.size() == L.size();
            types_ok = types.size() == 3 && types[0] == 0 && types[1] == 2 && types[2] == 0;
            tris_ok = counts_ok;
            for (size_t i = 0; i < meshes.size() && tris_ok; i++) {
                auto& mm = meshes[i];
                npts += mm.node_pos_lst.size() / 3; ntris += mm.face_point_ids.size();
                if (mm.face_point_ids.size() != want[i].size()) { tris_ok = false; break; }
                for (size_t f = 0; f < want[i].size() && tris_ok; f++) {
                    auto& ids = mm.face_point_ids[f];
                    if (ids.size() != 3) { tris_ok = false; break; }
                    for (int k = 0; k < 3 && tris_ok; k++) for (int a = 0; a < 3; a++) {
                        if (3 * (size_t)ids[k] + a >= mm.node_pos_lst.size()) { tris_ok = false; break; }
                        const double got = mm.node_pos_lst[3 * ids[k] + a], w = want[i][f][3 * k + a];
                        if (std::abs(got - w) > 6e-5 * std::abs(w) + 1e-300) tris_ok = false;
                    }
                }
            }
        } catch (std::exception& e) { rerr = e.what(); }
    }
    std::remove(cpath.c_str()); std::remove(fpath.c_str());
    vj::out o;
    o.obj().key("op").str("big_roundtrip").key("write_error").str(werr).key("read_error").str(rerr).key("npoints").i(npts).key("ntris").i(ntris)
     .key("counts_ok").b(counts_ok).key("types_ok").b(types_ok).key("tris_ok").b(tris_ok).end_obj();
    fprintf(fo, "%s\n", o.text().c_str());
    fclose(fo);
    return 0;
}

int main(int argc, char** argv) {
    if (argc >= 4 && std::string(argv[1]) == "big") return run_big(argv[2], argv[3]);
    if (argc < 4) return 2;
    auto cases = vj::read_ndjson(argv[1]);
    FILE* fo = fopen(argv[2], "w");
    const std::string work = argv[3];
    for (auto& cp : cases) {
        const vj::value& C = *cp;
        const double scale = C["scale"].d();
        std::vector<cell_ptr> L;
        vj::out o;
        o.obj().key("k").i(C["k"].i()).key("scale").d(scale);
        for (size_t i = 0; i < C["cells"].size(); i++) {
            const vj::value& cc = C["cells"][i];
            shapes::tmesh m = seed_mesh(cc["seed"].s());
            auto ct = std::make_shared<cell_type_parameters>();
            ct->global_type_id_ = (short)cc["type"].i();
            face_type_parameters ft; ct->add_face_type(ft); ct->add_face_type(ft); ct->add_face_type(ft);
            // persistent identifier of the cell: its position in the list, or (case field "ids") something else, as after divisions / removals
            const unsigned cid = C.has("ids") ? (unsigned)C["ids"][i].i() : (unsigned)i;
            cell_ptr c;
            switch (ct->global_type_id_) {
                case 0: c = std::make_shared<epithelial_cell>(m.pos, m.tris, cid, ct); break;
                case 1: c = std::make_shared<ecm_cell>(m.pos, m.tris, cid, ct); break;
                case 2: c = std::make_shared<lumen_cell>(m.pos, m.tris, cid, ct); break;
                case 3: c = std::make_shared<nucleus_cell>(m.pos, m.tris, cid, ct); break;
                default: c = std::make_shared<static_cell>(m.pos, m.tris, cid, ct); break;
            }
            c->initialize_cell_properties(true);
            // remeshing operations leave unused node / face slots behind: the writer has to compact them away
            local_mesh_refiner lmr(1e-30, 1e30, false);
            for (size_t q = 0; q < cc["ops"].size(); q++) {
                const std::string op = cc["ops"][q][0].s();
                size_t which = (size_t)cc["ops"][q][1].i();
                auto it = c->get_edge_set().begin();
                std::advance(it, which % c->get_edge_set().size());
                edge e = *it; edge_set dummy;
                if (op == "split") lmr.split_edge(e, c, dummy);
                else if (lmr.can_be_merged(e, c)) lmr.merge_edge(e, c, dummy);
            }
            // coordinate tokens: one integer triple per node slot, placed in space through `scale`
            auto& N = cell_tester::nodes(*c);
            const long salt = cc["salt"].i();
            L.push_back(c);
            o.key(("cell" + std::to_string(i)).c_str()).obj();
            o.key("type").i(ct->global_type_id_);
            o.key("xyz").arr();
            for (size_t s = 0; s < N.size(); s++) {
                const long kx = 3 * (long)(s + 1) + salt, ky = -(3 * (long)(s + 1) + 1) - salt, kz = (s % 4 == 0) ? 0 : 100 + 7 * (long)(s + 1);
                if (N[s].is_used()) cell_tester::pos(N[s]) = vec3(kx * scale, ky * scale, kz * scale);
                o.arr().i(kx).i(ky).i(kz).end_arr();
            }
            o.end_arr();
            c->update_all_face_normals_and_areas();
            o.key("mesh"); cell_tester::mesh_json(*c, o);
            o.end_obj();
        }
        o.key("ncells").i(L.size());
        const std::string cpath = work + "/cell_" + std::to_string(C["k"].i()) + ".vtk", fpath = work + "/face_" + std::to_string(C["k"].i()) + ".vtk";
        // the path-based writer of the cell-data file, called the way a user calls it (its default arguments), FIRST -- on the cells as
        // they are, unused slots included; what the reader returns for its file is compared below with what it returns for the file of
        // mesh_writer::write
        // ... and, before anything has compacted the cells, the same writer with compaction switched off (its documented third
        // argument): the file then lists every node slot, the faces reference a non-contiguous subset of a cell's points, and the
        // reader has to return the same tissue all the same ("cells with unused slots before compaction")
        const std::string npath = work + "/ncell_" + std::to_string(C["k"].i()) + ".vtk";
        std::string nerr; std::vector<mesh> nmeshes;
        try { mesh_writer::write_cell_data_file(npath, L, false); mesh_reader nr(npath, false); nmeshes = nr.read(); } catch (std::exception& e) { nerr = e.what(); }
        std::remove(npath.c_str());
        const std::string ppath = work + "/pcell_" + std::to_string(C["k"].i()) + ".vtk";
        std::string perr; std::vector<mesh> pmeshes; std::vector<short> ptypes;
        // (this writer does not add the cell_type_id array unless asked to: only the geometry is compared)
        try { mesh_writer::write_cell_data_file(ppath, L); mesh_reader pr(ppath, false); pmeshes = pr.read(); } catch (std::exception& e) { perr = e.what(); }
        std::remove(ppath.c_str());
        std::string werr;
        try { mesh_writer::write(cpath, fpath, L); } catch (std::exception& e) { werr = e.what(); }
        std::remove(fpath.c_str());
        o.key("write_error").str(werr).key("path").str(cpath);
        // read back with the real reader
        o.key("read").obj();
        try {
            mesh_reader r(cpath, false);
            auto meshes = r.read();
            auto types = r.get_cell_types();
            bool path_same = perr.empty() && pmeshes.size() == meshes.size();
            for (size_t q = 0; path_same && q < meshes.size(); q++)
                if (pmeshes[q].node_pos_lst != meshes[q].node_pos_lst || pmeshes[q].face_point_ids != meshes[q].face_point_ids) path_same = false;
            if (getenv("VDBG")) fprintf(stderr, "perr='%s' sizes %zu %zu types %zu %zu\n", perr.c_str(), pmeshes.size(), meshes.size(), ptypes.size(), types.size());
            bool norebase_same = nerr.empty() && nmeshes.size() == meshes.size();
            for (size_t q = 0; norebase_same && q < meshes.size(); q++)
                if (nmeshes[q].node_pos_lst != meshes[q].node_pos_lst || nmeshes[q].face_point_ids != meshes[q].face_point_ids) norebase_same = false;
            if (getenv("VDBG")) fprintf(stderr, "nerr='%s' sizes %zu %zu same %d\n", nerr.c_str(), nmeshes.size(), meshes.size(), (int)norebase_same);
            o.key("ok").b(true).key("path_same").b(path_same).key("norebase_same").b(norebase_same).key("types").iarr(types);
            o.key("cells").arr();
            for (auto& mm : meshes) {
                o.obj().key("nodes").darr(mm.node_pos_lst);
                o.key("tris").arr();
                for (auto& f : mm.face_point_ids) o.iarr(f);
                o.end_arr().end_obj();
            }
            o.end_arr();
        } catch (std::exception& e) { o.key("ok").b(false).key("path_same").b(true).key("norebase_same").b(true).key("err").str(e.what()).key("types").arr().end_arr().key("cells").arr().end_arr(); }
        o.end_obj();
        o.end_obj();
        fprintf(fo, "%s\n", o.text().c_str());
    }
    fclose(fo);
    return 0;
}
