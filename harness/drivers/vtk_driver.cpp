// C16 conformance driver: real mesh_writer::write then real mesh_reader on generated populations.
//   vtk_driver <cases.ndjson> <out.ndjson> <workdir>
// case: {"k":..,"scale":s,"cells":[{"seed":"tetra|octa|bipyr|sphere1","type":0..4,"ops":[["split",i]|["merge",i]...],"salt":n}]}
// record: the population as it is before the write (spec/Mesh projection with unused slots, one coordinate token triple per slot),
//         the path of the written file (tokenised by the check), and what the real reader returns for it
#include "mesh_probe.hpp"
#include "shapes.hpp"
#include "mesh_writer.hpp"
#include "mesh_reader.hpp"
#include "epithelial_cell.hpp"
#include "ecm_cell.hpp"
#include "lumen_cell.hpp"
#include "nucleus_cell.hpp"
#include "static_cell.hpp"

static shapes::tmesh seed_mesh(const std::string& s) {
    if (s == "tetra") return shapes::tetrahedron();
    if (s == "octa") return shapes::octahedron();
    if (s == "sphere1") return shapes::sphere(1);
    shapes::tmesh m;      // triangular bipyramid
    const double h = std::sqrt(3.) / 2.;
    m.pos = {1, 0, 0, -0.5, h, 0, -0.5, -h, 0, 0, 0, 1, 0, 0, -1};
    m.tris = {0, 1, 3, 1, 2, 3, 2, 0, 3, 1, 0, 4, 2, 1, 4, 0, 2, 4};
    return m;
}

int main(int argc, char** argv) {
    if (argc < 4) return 2;
    auto cases = vj::read_ndjson(argv[1]);
    FILE* fo = fopen(argv[2], "w");
    const std::string work = argv[3];
    for (auto& cp : cases) {
        const vj::value& C = *cp;
        const double scale = C["scale"].d();
        std::vector<cell_ptr> L;
        vj::out o;
        o.obj().key("k").i(C["k"].i()).key("scale").d(scale);
        for (size_t i = 0; i < C["cells"].size(); i++) {
            const vj::value& cc = C["cells"][i];
            shapes::tmesh m = seed_mesh(cc["seed"].s());
            auto ct = std::make_shared<cell_type_parameters>();
            ct->global_type_id_ = (short)cc["type"].i();
            face_type_parameters ft; ct->add_face_type(ft); ct->add_face_type(ft); ct->add_face_type(ft);
            // persistent identifier of the cell: its position in the list, or (case field "ids") something else, as after divisions / removals
            const unsigned cid = C.has("ids") ? (unsigned)C["ids"][i].i() : (unsigned)i;
            cell_ptr c;
            switch (ct->global_type_id_) {
                case 0: c = std::make_shared<epithelial_cell>(m.pos, m.tris, cid, ct); break;
                case 1: c = std::make_shared<ecm_cell>(m.pos, m.tris, cid, ct); break;
                case 2: c = std::make_shared<lumen_cell>(m.pos, m.tris, cid, ct); break;
                case 3: c = std::make_shared<nucleus_cell>(m.pos, m.tris, cid, ct); break;
                default: c = std::make_shared<static_cell>(m.pos, m.tris, cid, ct); break;
            }
            c->initialize_cell_properties(true);
            // remeshing operations leave unused node / face slots behind: the writer has to compact them away
            local_mesh_refiner lmr(1e-30, 1e30, false);
            for (size_t q = 0; q < cc["ops"].size(); q++) {
                const std::string op = cc["ops"][q][0].s();
                size_t which = (size_t)cc["ops"][q][1].i();
                auto it = c->get_edge_set().begin();
                std::advance(it, which % c->get_edge_set().size());
                edge e = *it; edge_set dummy;
                if (op == "split") lmr.split_edge(e, c, dummy);
                else if (lmr.can_be_merged(e, c)) lmr.merge_edge(e, c, dummy);
            }
            // coordinate tokens: one integer triple per node slot, placed in space through `scale`
            auto& N = cell_tester::nodes(*c);
            const long salt = cc["salt"].i();
            L.push_back(c);
            o.key(("cell" + std::to_string(i)).c_str()).obj();
            o.key("type").i(ct->global_type_id_);
            o.key("xyz").arr();
            for (size_t s = 0; s < N.size(); s++) {
                const long kx = 3 * (long)(s + 1) + salt, ky = -(3 * (long)(s + 1) + 1) - salt, kz = (s % 4 == 0) ? 0 : 100 + 7 * (long)(s + 1);
                if (N[s].is_used()) cell_tester::pos(N[s]) = vec3(kx * scale, ky * scale, kz * scale);
                o.arr().i(kx).i(ky).i(kz).end_arr();
            }
            o.end_arr();
            c->update_all_face_normals_and_areas();
            o.key("mesh"); cell_tester::mesh_json(*c, o);
            o.end_obj();
        }
        o.key("ncells").i(L.size());
        const std::string cpath = work + "/cell_" + std::to_string(C["k"].i()) + ".vtk", fpath = work + "/face_" + std::to_string(C["k"].i()) + ".vtk";
        std::string werr;
        try { mesh_writer::write(cpath, fpath, L); } catch (std::exception& e) { werr = e.what(); }
        std::remove(fpath.c_str());
        o.key("write_error").str(werr).key("path").str(cpath);
        // read back with the real reader
        o.key("read").obj();
        try {
            mesh_reader r(cpath, false);
            auto meshes = r.read();
            auto types = r.get_cell_types();
            o.key("ok").b(true).key("types").iarr(types);
            o.key("cells").arr();
            for (auto& mm : meshes) {
                o.obj().key("nodes").darr(mm.node_pos_lst);
                o.key("tris").arr();
                for (auto& f : mm.face_point_ids) o.iarr(f);
                o.end_arr().end_obj();
            }
            o.end_arr();
        } catch (std::exception& e) { o.key("ok").b(false).key("err").str(e.what()).key("types").arr().end_arr().key("cells").arr().end_arr(); }
        o.end_obj();
        o.end_obj();
        fprintf(fo, "%s\n", o.text().c_str());
    }
    fclose(fo);
    return 0;
}
