#!/usr/bin/env python3
"""Generates /verif/MANIFEST.json from the table below (single source of truth for the registered checks)."""
import json, os, subprocess
ROOT = os.path.dirname(os.path.dirname(os.path.abspath(__file__)))

def hook_commits():
    try:
        out = subprocess.run(["git", "-C", "/repo", "log", "--format=%h %s"], capture_output=True, text=True).stdout
        return [l.split()[0] for l in out.splitlines() if l.split(" ", 1)[1].startswith("verif hook")]
    except Exception:
        return []

CHECKS = {
 "C20": dict(
    category="model_checking", design_ref="DESIGN.md §C20, §3.3",
    text="TLC exhaustively explores spec/Grid (every box position/extent/voxel size/epsilon regime and object placement in the bound) "
         "and checks the five C20 predicates on the design; every explored state is replayed into the real uspg_3d/uspg_4d templates at "
         "physical embeddings realising each floating-point epsilon regime, and TLC (spec/Grid/GridTrace) validates the implementation's "
         "answers: the property predicates on the real answers (alarm) and exact agreement with the design (reported as drift).",
    note="Bounded lattice boxes; IEEE-754 doubles; per-axis index arithmetic so y/z take fewer values than x. The JSON reader of the "
         "TLA+ CommunityModules and the small C++ driver are trusted.",
    technique="TLA+ spec (Grid) model-checked by TLC + replay of every TLC state into uspg_3d/uspg_4d + TLC trace validation (GridTrace)"),
}

CHECKS["C05"] = dict(
    category="model_checking", design_ref="DESIGN.md §C05, §3.3",
    text="The seven branches of the kernel are transcribed into TLA+ over the integer lattice (spec/ClosestPoint); TLC checks, for every "
         "non-degenerate triangle and query point of the box, that the answer satisfies the contract (barycentrics >= 0 summing to one, "
         "KKT optimality of the designated point, d2 = |p-q|^2) and is invariant under the 24 lattice rotations and under translations. "
         "TLC's state dump is the table of exact rational answers that is replayed into the real static function at six scales/positions "
         "in space and under random lattice rotations.",
    note="Inputs on the lattice (all branch predicates exact in IEEE doubles); degenerate triangles excluded as in the property; "
         "comparison tolerances 1e-9 (barycentrics) and 1e-9 relative + rounding allowance (d2).",
    technique="TLA+ transcription of the kernel model-checked by TLC (contract + invariances) + replay of every enumerated case into compute_node_triangle_distance")

CHECKS["C01"] = dict(
    category="model_checking", design_ref="DESIGN.md §C01, §3.1",
    text="spec/Mesh models the slot-indexed triangle list, both LIFO free lists, face types and the cached-normal flag, with split / merge "
         "(and its link-condition guard) / swap (with its three early-outs) / rebase / refresh written in the code's order of sub-steps; TLC "
         "explores every chain of operations up to the bound from three seed meshes (plus simulation of long chains in the thorough tier) "
         "and checks NoRepeat, LiveNodes, Closed (two triangles per edge, opposite directions), Euler, Simple, Bookkeeping and NormalSide in "
         "every state. Binding: the real operations are executed in every order up to the same depth, in long random chains and inside real "
         "refine_mesh passes (hook H6); every executed transition is validated by TLC (MeshTrace): the C01 predicates on the real cell after "
         "the operation, the real edge_set_ against the recomputed index, and the operation against the spec's transition function.",
    note="No triangle geometrically inverts between a refresh of the normals and the next remeshing operation (solver regime); outwardness is "
         "decided as preservation of the global orientation by every operation (the sign of the enclosed volume is logged, not asserted); "
         "exhaustive part bounded to chains of 2 (quick) / 3 (thorough) operations from 3 seeds.",
    technique="TLA+ spec (Mesh) model-checked by TLC + TLC validation (MeshTrace) of every transition executed by the real remeshing code")

CHECKS["C11"] = dict(
    category="model_checking", design_ref="DESIGN.md §C11",
    text="Design: TLC checks on spec/Mesh, over every chain of operations, the action properties SplitKeepsLabels (children inherit the "
         "parent's face type, nothing else is relabelled) and OnlyRemeshChanges. Implementation: real refine_mesh passes on random meshes / "
         "displacements / edge-length bands / swap settings are observed through hook H6 and every operation and pass record is validated by "
         "TLC (MeshTrace with MeshTraceC11.cfg): momentum conserved, survivors not moved (bitwise), new node at the midpoint (bitwise), labels "
         "inherited (evaluated by TLC from the two meshes), split only if longer than l_max / merge only if shorter than l_min, splits keep "
         "volume and area, a pass on a conforming mesh changes nothing, iteration count and failure exception consistent, plus all C01 predicates.",
    note="Numeric facts are evaluated by the driver with independent formulas and logged as booleans (TLC has no reals); termination is "
         "observed (time limit), not proved; the irrational swap trigger is not predicted, only its effect is validated.",
    technique="TLC action properties on spec/Mesh + TLC trace validation of hooked real refine_mesh passes")

CHECKS["C08"] = dict(
    category="model_checking", design_ref="DESIGN.md §C08, §3.2",
    text="spec/Tissue is the solver as an implementation-shaped state machine (contact stores list positions, division and removal renumber, ids "
         "from a monotone counter); TLC checks LidIsIndex / CouplingValid at the use phases, IdsUnique, IdsFresh, Gone and DivisionReplaces over "
         "every history of divisions and removals in the bound. Binding: real solver::run on scripted histories (division / removal at every list "
         "position, mixed orders, several per iteration, adjacent cells with live couplings, 1-16 threads, 1-3 face types, contact models 1 and 2) "
         "observed at every phase boundary (hook H4); TLC (TissueTrace) replays the population events with Tissue's DivideResult / RemoveResult and "
         "checks ids, list positions, couplings, face owners and face-type indices on every state.",
    note="Scripted histories (the driver sets a cell's division volume / its type's minimum volume); validity is required at the use points only; "
         "known finding F13 (epithelial type with one face type) is listed in known_findings.json.",
    technique="TLA+ spec (Tissue) model-checked by TLC + TLC trace validation (TissueTrace) of hooked real solver runs")
CHECKS["C04"] = dict(
    category="model_checking", design_ref="DESIGN.md §C04",
    text="TLC checks on spec/Tissue: Gone, RemovedAtEnd, TvolClamped, OnlyReadyDivide over every history in the bound. Real solver runs over "
         "parameter sets (growth >0/=0/<0 with active clamp, finite/infinite pressure cap, initial pressure, tiny bulk modulus, infinite and reached "
         "division volume, non-epithelial cells above their division volume, removals) are validated by TLC (TissueTrace): eligibility, removal at "
         "the end of the iteration, never reappearing, and the numeric laws logged as verdicts (target-volume law bitwise, pressure law against an "
         "independently recomputed enclosed volume, initial target volume, 3-sigma bound over 10^4 seeded draws).",
    note="ln(), the volume sum and the 3-sigma comparison are C++-side oracles whose verdicts TLC requires (no transcendental functions in TLA+); "
         "static cells are excluded from the numeric laws.",
    technique="TLA+ spec (Tissue) model-checked by TLC + TLC trace validation of hooked real solver runs with harness-evaluated numeric verdicts")
CHECKS["C19"] = dict(
    category="model_checking", design_ref="DESIGN.md §C19",
    text="TLC checks NoGaps, KBound, TimeLaw and StatsRows on spec/Tissue for the code's file rule (and refutes the pre-fix rule as a control). "
         "Real solver::run over a (dt, S, T) grid including S = dt and non-commensurable ratios, with division, removal and extinction, file and "
         "in-memory statistics: every phase boundary, every file written, the final directory listing, every cell-data file read back with the real "
         "reader and every statistics row (compared as strings with the getters formatted at recording time) are validated by TLC (TissueTrace).",
    note="Times are integer nanoseconds converted to doubles; K is compared with floor(T/S)+1 computed exactly; computation-time and energy columns "
         "are not checked.",
    technique="TLA+ spec (Tissue) model-checked by TLC + TLC trace validation of hooked real solver runs and of the files they leave")

CHECKS["C09"] = dict(
    category="model_checking", design_ref="DESIGN.md §C09",
    text="Design: TLC checks the population protocol of division on spec/Tissue (DivisionReplaces: the mother is replaced by exactly two cells with fresh "
         "ids, OnlyReadyDivide, IdsUnique, IdsFresh) for every set of cells dividing in one iteration, and the topology of the cut on spec/Mesh/MeshCut "
         "(every mother of a small family, every separation of its nodes by a plane: both capped halves are closed oriented manifolds iff both sides are "
         "connected). Implementation: real cell_divider::divide_cell on "
         "generated mothers (spheres, stretched spheres, boxes; symmetric so that the plane passes through nodes, and jittered; each coordinate axis in "
         "both directions, diagonal and generic axes; several l_min/size ratios; unused slots before the call): TLC (DivideTrace) evaluates every C01 "
         "predicate of spec/Mesh on both daughters, the real edge index, and the facts 'mother is exactly what a compaction leaves', 'own side of the plane', "
         "'volumes add up', 'target volume halved', 'same type', 'outward'. Several cells dividing in one real solver iteration are validated by TissueTrace.",
    note="MeshCut is a design-level model of the cut (fan cap instead of the Delaunay cap); the real cut is followed by a remeshing pass inside "
         "divide_cell, so it is bound to the code through its conclusion only: the validity of the real daughters is what DivideTrace decides. Volume sum tolerance 20% (coarse test meshes); a clean failure "
         "(e.g. axis = -z, plane through nodes) satisfies the property.",
    technique="TLC on spec/Tissue (population protocol) + TLC validation (DivideTrace, spec/Mesh predicates) of real divide_cell results")

CHECKS["C15"] = dict(
    category="model_checking", design_ref="DESIGN.md §C15",
    text="PlusCal specifications ParDivide (threads read the shared list without a lock, critical section for the population update, append after the join) "
         "and ExcHandler (store under critical, rethrow after the barrier) are checked by TLC over every interleaving (NoReadDuringResize, FinalOK = no cell "
         "lost / duplicated / duplicate id, RethrownWasThrown, AfterAllFinished, NoneLost, termination under fairness); the in-loop append of the code before "
         "the fix is refuted as a control. Binding: real cell_divider::run under seeded scheduling delays with 1-16 threads observed through hook H5 (every "
         "unlocked read, every critical section with the list's size/buffer) and real parallel_exception_handler / refine_meshes / mesh_writer::write with "
         "failing items; TLC (ParTrace) validates the ticket-ordered traces. Whole solver runs on non-interacting cells at 1..16 threads and repeated must have "
         "bit-identical digests.",
    note="A race is shown as a read event lying inside another thread's list-resizing critical section (lockset argument), not as a crash; delays are injected "
         "at hook points only; per-cell re-seeding (H3) makes division results schedule independent; digests are compared on runs without division.",
    technique="PlusCal/TLA+ specs model-checked by TLC (all interleavings) + TLC trace validation of hooked real parallel phases under seeded schedules")

CHECKS["C03"] = dict(
    category="model_checking", design_ref="DESIGN.md §C03",
    text="spec/Integrate states the integration law (semi-implicit Euler and overdamped forward Euler, static cells skipped, the mutually coupled pair "
         "averaged and processed once by the side with the greater list position, force accumulators zeroed, time advanced by dt) in exact dyadic "
         "arithmetic; TLC checks StaticFrozen, ForcesZeroed, TimeAdvances, PairSameDisplacement, PairMomentum and FreeNodeLaw on every configuration "
         "and over consecutive steps. Every explored behaviour (quick: all 12960; thorough: 60000 sampled per build) is replayed into the real "
         "update_nodes_positions in the builds DYNAMIC 0/1 x CONTACT 1 (plus CONTACT 0 and 2 in the thorough tier) and compared per node and component.",
    note="Node mass set through the density (exact to 1 ulp), tolerance 1e-9 of the value unit; one scalar per node stands for the 3 components (linear law); "
         "couplings with static cells / non-mutual couplings are outside the property; contact model 2 only with 2-way couplings.",
    technique="TLA+ spec (Integrate, exact arithmetic) model-checked by TLC + replay of every TLC behaviour into update_nodes_positions")

CHECKS["C16"] = dict(
    category="model_checking", design_ref="DESIGN.md §C16, §3.5",
    text="spec/Io/VtkFormat models the cell-data file and the writer / reader as operators (compaction through Mesh.Rebase, global node offsets, per-cell "
         "integer counts 1+4*nf, CELL_TYPES 42, the cell_type_id array, per-cell renumbering on reading); TLC checks Read(Write(pop)) = Normalise(pop) and "
         "CountsConsistent(Write(pop)) for every population in the bound (seed meshes and everything one remeshing operation away, all cell types). Real "
         "mesh_writer::write + mesh_reader runs on generated populations (1-4 cells, every cell class, unused slots left by real splits/merges, four coordinate "
         "scales incl. negative and zero values) are validated by TLC (VtkTrace): tokens of the real file = Write(pop), declared counts = contents, reader "
         "result = Normalise(pop) = Read(real tokens), types preserved, coordinates equal at the written precision.",
    note="Coordinates are integer tokens times a scale (relative 6e-5 = %.4e precision); other CELL_DATA arrays are checked for shape only; the face-data file "
         "is outside the property.",
    technique="TLA+ spec of the file format (VtkFormat) model-checked by TLC + TLC validation of real writer output and reader results")
CHECKS["C18"] = dict(
    category="model_checking", design_ref="DESIGN.md §C18, §3.5",
    text="spec/Io/Params is the schema of the XML file (31 tags with section, kind, sign rule, documented INF) with the expected verdict and expected field "
         "values of a file that is valid except for one fault; TLC enumerates every (shape with 1-3 cell types x 1-3 face types, tag, fault in {omitted, "
         "negative, zero, INF}) and checks the schema (distinct tokens, omission always rejected, documented INF accepted). Every case is rendered to XML "
         "(distinct value per tag instance so that mis-wiring and swapped cell/face types are visible, decimal/scientific notations, shuffled tag order) and "
         "read by the real parameter_reader; TLC (ParamsTrace) compares the verdict and every field of the three returned structures with the schema.",
    note="Sign rules are the reader's own diagnostics (the documentation states none); zero damping and INF in undocumented places are 'either'. The claim "
         "'the values govern the run' is carried by C19 (dt, T, S), C11 (l_min) and C04 whose traces depend on those parameters.",
    technique="TLA+ schema spec (Params) enumerated by TLC + TLC validation (ParamsTrace) of real parameter_reader results on every enumerated case")

CHECKS["C17"] = dict(
    category="fault_enumeration", design_ref="DESIGN.md §C17",
    text="Fault enumeration driven by the format specifications: spec/Io/VtkFaults enumerates structured edits of Write(pop) (declared counts off by one, "
         "dropped points/rows, node ids out of range or huge, wrong cell type code, type ids beyond the defined types, non-triangular faces) and TLC checks that "
         "every such edit breaks the format's consistency predicate (verdict: must be diagnosed); spec/Io/Params (Params_c17) enumerates empty / non-numeric / "
         "overflowing values for every XML tag with the schema's verdict. Plus seeded token- and byte-level faults of both files (delete, duplicate, replace by "
         "negative/huge/non-numeric/empty/NaN text, section removal and reordering, unclosed elements, truncation at many offsets), also with the initial "
         "triangulation enabled. Every mutant runs through the real start-up path in a child process with CPU/memory/time limits; outcome must be 'completed' or "
         "'std::exception', and an exception where the verdict is 'reject'.",
    note="Level is fault enumeration over these operators; arbitrary byte strings (coverage-guided fuzzing) are not generated; memory errors that do not crash "
         "the child are invisible here. One known finding (coordinate outlier with initial triangulation) is listed in known_findings.json.",
    technique="TLC-enumerated structured faults from the TLA+ format specs (VtkFaults, Params) + seeded token/byte faults, executed against the real start-up path in sandboxed child processes")

CHECKS["C12"] = dict(
    category="model_checking", design_ref="DESIGN.md §C12",
    text="spec/Geom/LatticeGeom gives 6*volume, 2*area, 6*area*centroid and the bounding box of a lattice mesh as exact integers and the orientation repair "
         "as the unique consistent outward re-winding; TLC checks, for every mix of input windings of tetrahedron / octahedron / bipyramid, that exactly one "
         "re-winding is consistent and outward, and the invariance and k^3 / k^2 scaling laws under the 24 lattice rotations, translations and scalings. "
         "Real initialize_cell_properties and the getters on seeds and triangulated boxes under rotations, translations up to 1000 cell sizes, scalings, three "
         "physical units, node / face renumberings and winding mixes are validated by TLC (GeomTrace): exact volume, bounding box, area, centroid, every "
         "triangle wound outward whatever the input winding, unit normals on the winding side, longest axis of boxes covariant under rotation.",
    note="Exactness only on lattice meshes; area / centroid only on meshes with integer-length area vectors (boxes); far-origin cancellation (offset/size > 1e3) "
         "is a floating-point effect outside this family's reach; longest axis only with a strictly longest side, up to sign.",
    technique="TLA+ spec (LatticeGeom, exact integer geometry) model-checked by TLC + TLC validation (GeomTrace) of the real cell's reported geometry")

CHECKS["C02"] = dict(
    category="model_checking", design_ref="DESIGN.md §C02",
    text="spec/Geom/LatticeForces states pressure and tension forces on the integer lattice (exact); TLC checks for tetrahedron / octahedron / bipyramid / unit "
         "cube at the 24 lattice rotations and several translations: pressure force = pressure x gradient of the volume (two different formulas), zero resultant "
         "and torque of pressure and tension forces, rigid covariance. Real apply_pressure_on_surface and apply_surface_tension_and_membrane_elasticity on lattice "
         "meshes (seeds, cube, boxes; rotations, translations, three units) are compared exactly per node by TLC (ForceTrace). For every term incl. bending and "
         "angle regularisation and for all together, on jittered ellipsoids with random parameter sets: zero resultant, zero torque, covariance under a random "
         "rigid motion, finite-difference agreement of pressure (P dV/dx) and tension/elasticity (- sum tau_f dA_f/dx) -- driver verdicts required by TLC.",
    note="Exact only on the lattice (tension only with lattice unit normals). Bending / angle terms are not specified in TLA+ (acos, cot): their sub-claims are "
         "decided by harness-evaluated numeric verdicts (tolerances 1e-9 / 1e-7 / 1e-5), which is numeric testing under TLC's bookkeeping, not model checking.",
    technique="TLA+ spec (LatticeForces, exact) model-checked by TLC + TLC validation (ForceTrace) of real forces: exact on lattice meshes, harness-evaluated verdicts on generic meshes")

CHECKS["C06"] = dict(
    category="model_checking", design_ref="DESIGN.md §C06, §3.3",
    text="spec/Contact/BroadPhase models the broad phase along one axis on the integer lattice (padded face boxes, global box with its extra padding, voxel size "
         "3*l_min + 2*cut-off, registration interval of every face, single-voxel lookup of every node, the three epsilon regimes of the grid origin / size); TLC "
         "checks Complete, RangeImpliesBox and NoOOB exhaustively (36300 arrangements) and refutes the registration rule of the code before the fix. Per-axis "
         "completeness gives completeness in space because registration, lookup and the AABB test are per-axis products. Binding: real contact_model::run in the "
         "builds of contact models 1 and 0 (and 2 in the thorough tier; 1/8/16 threads) on lattice tissues -- two shapes at every relative offset of a window, "
         "three units, positions straddling the origin and far from it, exact voxel alignment, 3-4 cells -- against the model's own public narrow phase applied "
         "to ALL node-triangle pairs of different cells: forces equal and adding up to zero.",
    note="Lattice tissues only; two epithelial cells are never adjacent (order-dependent couplings belong to C08/C03); the reference shares the narrow phase with "
         "the code under test on purpose (the property is about the broad phase).",
    technique="TLA+ spec (BroadPhase) model-checked by TLC + whole-run replay of lattice tissues into the real contact models against an all-pairs reference")
CHECKS["C07"] = dict(
    category="model_checking", design_ref="DESIGN.md §C07, §3.3",
    text="spec/Contact/ContactRule states the narrow phase on the integer lattice on top of spec/ClosestPoint: forbidden side (reversed for epithelial-vs-ECM and "
         "nucleus-vs-epithelial), cut-off test, reaction distributed with the barycentric weights; TLC checks Reciprocal, NoForceOutOfRangeOrSameCell, PushesBack "
         "and OverlapResolved over every node position of a box, four triangles, the 24 type pairs and two cut-offs (48384 states). Every case (quick: a balanced "
         "sample of 5000) is replayed through the public narrow phase of the real models 1 and 0 (2 in the thorough tier) at two units and three offsets and "
         "validated by TLC (ContactTrace): forces add up to zero, nothing beyond the cut-off, exact repulsion forces on the forbidden side, nothing (or only "
         "attraction, spring model) on the allowed side.",
    note="A node exactly in the tangent plane (d.n = 0) is decided by rounding and only required to be reciprocal and short-ranged (margin rule); the coupling of two "
         "epithelial cells is a stage of its own (single-threaded order of presentations, gates on normals / curvature opened by the driver); the spring model's adhesion amplitude (sqrt) is checked for direction, range and reciprocity only.",
    technique="TLA+ specs (ContactRule over ClosestPoint; CouplingRule / Coupling) model-checked by TLC + TLC validation (ContactTrace, CouplingTrace) of the real narrow phase on every enumerated case and every enumerated sequence of presentations")

CHECKS["C13"] = dict(
    category="model_checking", design_ref="DESIGN.md §C13",
    text="spec/Mesh/InitProtocol is the accept / retry / give-up protocol of triangulate_surface (TLC: at most ten attempts, a cell is handed over only after a "
         "validated attempt, the protocol always ends under fairness). Real simulation_initializer runs on generated closed polyhedra (boxes, non-convex voxel solids, "
         "spheres / ellipsoids, prisms; polygonal and triangulated; consistent and mixed input windings; l_min/size 0.3..0.08; triangulation on and off; positions and "
         "scales; open and non-manifold inputs as negatives) are observed through hook H8; TLC (InitTrace) validates the protocol of every run, every C01 predicate of "
         "spec/Mesh and the real edge index on every cell handed to the solver, and requires the driver's verdicts (Poisson samples >= l_min apart, volume / bounding "
         "box / node-to-surface distance within resolution-dependent tolerances, outward).",
    note="Randomised geometry: the specification contributes protocol and topological oracle, coverage is a sample of shapes x seeds (exploration-style counts). A "
         "clean failure satisfies the property; only the vacuity guard notices a change that makes every reconstruction fail. Tolerances are fixed per case.",
    technique="TLA+ protocol spec (InitProtocol) model-checked by TLC + TLC validation (InitTrace, spec/Mesh predicates) of hooked real initialisation runs")

CHECKS["C14"] = dict(
    category="model_checking", design_ref="DESIGN.md §C14",
    text="Design: the absolute-coordinate code paths are specified on the lattice and TLC re-checks there that their discrete outputs do not depend on the position: "
         "spatial grids (Grid: every box position incl. negative and straddling the origin, three epsilon regimes), broad phase (BroadPhase: every arrangement on -4..5), "
         "closest-point kernel (ClosestPoint.TransInv and RotInv). Implementation: pairs of real solver runs (reference / translated input: 1e-7, fractions of a voxel, "
         "dyadic, across the origin, 1000 cell sizes; thorough: 20 vectors) on a single growing cell, two adhering cells (live couplings), overlapping cells of different "
         "types and a cell against an ECM; the two phase-boundary traces (hook H4) are consumed in lock-step by TLC (PairTrace): every discrete observable identical "
         "at every phase boundary (ids, list positions, node/face counts, connectivity digest, couplings, file numbers, verdicts); final positions up to the translation, "
         "volumes and pressures within a tolerance that grows with |translation|/size.",
    note="One thread, 25 (quick) / 60 (thorough) iterations; tolerances grow with the translation (far-origin cancellation in the volume formula is a floating-point "
         "effect the specification cannot predict); scenarios avoid threshold ties (l_min not commensurable with the symmetric test shapes).",
    technique="TLC on the lattice specs of the absolute-coordinate code paths + TLC lock-step trace validation (PairTrace) of pairs of hooked real solver runs")

PENDING = {}   # property id -> reason (filled below for everything not in CHECKS)
NOT_APPLICABLE = {
 "C10": "memory safety / undefined behaviour has no representation in a TLA+ state (no addresses, lifetimes or indeterminate values); "
        "it is the domain of sanitizers, a different technique family (DESIGN.md §C10)",
}


# additions made while testing the checks against seeded changes (DESIGN.md §6)
EXTRA = {
    "C01": " Big stage: a 65538-node / 131072-face ellipsoid is initialised, refined (a splitting and a collapsing pass) and compacted; the predicates are recomputed from the triangle list by the driver and required by TLC (BigMeshTrace). Real passes also on nanometre-scale cells (3e-9 m, triangle areas of 1e-17).",
    "C02": " Sizes from 7e-11 to 2.5e5 (lattice units 2^-37 .. 2^20); generic cells both freshly built and with a history (unused slots inside the node / face lists, nodes moved since the lists were built). The forces must not depend on the order in which the triangles are stored (P_StorageOrder), and the bending force must be a constant multiple of minus the gradient of the hinge energy built from the per-face-type moduli (finite differences of an energy recomputed by the driver).",
    "C03": " All four builds (dynamic 0/1 with contact model 1, dynamic 0 with contact models 0 and 2) in both tiers; every other behaviour on cells with unused slots before live nodes. Every third behaviour is replayed with mass, momentum, force and damping coefficient scaled by 2^-60 or 2^40 (the law is homogeneous in them: same positions).",
    "C04": " Removal scripts with neighbouring cells, runs of cells and whole populations below their minimum volume in one iteration. Growth rates of 5e-20 ... 3e-16 as well as the shipped magnitudes.",
    "C05": " The enumeration must contain, for each of the 12 guard conjuncts of the kernel that can matter, a case on which the kernel with that conjunct dropped answers differently (state component `kills`; the check refuses an inadequate enumeration). Thin triangles (ClosestPointThin: planar needles / flat triangles up to aspect ratio 2^15, interior query points; formula proved equal to the kernel transcription on the members that fit TLC's integers) compared on the closest point with a tolerance of 1e-5 of the long side. Placements with separations of 1e-8..1e-9 of the coordinate magnitude. Placements at the units 2^-22, 2^-24 (the scale of real meshes), 2^-40 and 2^20.",
    "C06": " A tissue with more than 131072 faces (finely meshed bystander listed first); the contact phase right after real edge splits against a reference with refreshed cached normals. Every tissue also through a contact-model object re-used from the previous tissues. Tissues of freshly built cells and of cells with unused slots inside their lists; cell identifiers equal to, rotated against and unrelated to list positions; all three contact models in both tiers. Coarse cells whose triangles are three to four voxels long, with a small cell dipping into the middle of a side (interior voxels of a face's padded box).",
    "C07": " Second stage: a whole contact phase (contact_model::run) on tissues (fresh / fragmented cells, identifiers equal to / rotated against / unrelated to positions) must equal the sum of the pair rule over the node-triangle pairs of different cells and add up to zero; all three contact models in both tiers. Pair cases also at the units 2^-27 and 2^-34 (penetrations far below any absolute tolerance). Third stage: the coupling protocol of the node-node coupling model between two epithelial cells (spec/Contact/CouplingRule, Coupling): TLC explores every order of the presentations (node, opposing triangle) for five lattice placements (68500 states; DistMatches, OtherCell, WithinCut, Uncoupled, StaleOnlyIfStolen, MutualNearestCoupled, HistExplains, DistMonotone) and every state (quick: 5800) is replayed presentation by presentation through the real resolve_contact; partner and stored distance of all nodes must be what the specification computes (CouplingTrace). Two whole contact phases on the same cells, one cell shrunk and moved far away in between: the second phase starts from Fresh (CouplingPhaseTrace).",
    "C08": " Both coupling contact models (1 and 2) in both tiers; histories with a division and a removal in the same iteration (every arrangement of removed / dividing / ordinary cell, and two of each); the contact phase on a population of 65538 cells (BigPopTrace); the identifier discipline proved for any population size with TLAPS (spec/Tissue/IdAlloc, 20 obligations) and the refinement Tissue => IdAlloc checked by TLC; the decision of special_polarization_update (spec/Tissue/Polarisation) replayed into the real function (index range is the verdict, decision differences are design drift).",
    "C09": " Scenario with successive division rounds on one identifier counter (daughters of an earlier round alive and dividing in a later one). TissueTrace prints every tag set (ReportAll) because TLC names only the first violated invariant of a state. Division axes at 1, 0.6 and 0.01 degree from a coordinate axis.",
    "C11": " Whole passes on lattice cells (exact arithmetic) are validated against spec/Refine/RefinePass: the work set of the pass is not logged, the specification carries it (Cantor order, copies of the face ids), and the real pass must be one of its behaviours, end as it ends (normally / by the exception, same counter) and leave the mesh slot for slot and the positions it predicts (drift-level: D_PassModel); TLC explores every order in which the work set can be emptied on small cells (TodoCoherent, C01's predicates after every step, Complete, liveness). Passes on a family of thin tetrahedra whose slivers ask for swaps that swap_edge has to refuse (joined opposite nodes, no valence-three node): a refused swap must leave the mesh as it is. Real passes also on nanometre-scale cells with a first pass that splits about half of the edges.",
    "C12": " Lattice units 2^-37 .. 2^20; P_History: the same quantities after the lists were fragmented, after an exact map p -> 2(p.y, p.z, p.x) of the nodes, and after compaction; the longest axis also on an unevenly sampled copy, at its place and moved to the origin; a 65538-node ellipsoid with mixed windings, naturally numbered and renumbered (BigGeomTrace). The longest axis also after a generic (non-lattice) rotation.",
    "C13": " Input sizes 4e-7 .. 4e3 including nucleus-sized inside-out inputs. Four-cell tissues triangulated in parallel at four threads with an impossible cell at every list position, and an all-good control (InitMultiTrace).",
    "C14": " The default contact model on every pair, contact models 0 and 2 on the tissues with contacts; a tissue with a division (generic ellipsoid) among the translated pairs.",
    "C16": " Coordinate magnitudes include tokens with three-digit exponents (2.5e-120, 6e99, 3.75e-203); cell identifiers equal to, rotated against and unrelated to the list positions; a population of 65574 points / 131136 triangles in one file (BigVtkTrace). The path-based write_cell_data_file with its default arguments, on the cells as they are, must give a file that reads back with the same geometry (P_PathWriter); the same writer with compaction switched off, called before anything has compacted the cells (every node slot listed, faces referencing a non-contiguous subset of a cell's points), must read back as the same tissue too (P_NoRebaseWriter).",
    "C17": " Structured faults include point ids at the wrap boundaries of index arithmetic (2^31/m + d, 2^32/m + d). Start-ups on files with 3000 malformed cells at four threads.",
    "C18": " 'Govern the run': density / damping / time step through a replay of spec/Integrate's behaviours into the real integrator; bulk modulus, tensions, area-elasticity and bending moduli through the energy-gradient oracle of C02 on generic cells with different values per face type. The two parameters consumed before the first iteration (perform_initial_triangulation, min_edge_length) through the XML constructor of the real simulation_initializer: flag 0 / 1 x coarse / fine edge length on a two-cell file, validated against spec/Io/StartupTrace. Real solver runs of the same growing tissue with three values of min_edge_length must end with more nodes the smaller the value (StartupTrace.P_EdgeLengthGovernsTheRun); that no edge is longer than three minimum edge lengths after a pass that ended normally is checked as design drift only (the factor is the solver's choice). A sampling period equal to the time step (case kind eqstep of Io/Params: accepted, value intact).",
    "C19": " The identifier arrays inside the files (cell_id of the cell-data file, runs of face_cell_id of the face-data file) are extracted by the driver and compared by TissueTrace with the population alive when the pair was written. Durations that the accumulated time hits bit for bit (C19_StopsWhenTReached: no iteration starts once T is reached). Populations made of static / ECM cells only (from the start, and after the last mobile cell was removed): time still advances by dt per iteration.",
    "C15": " Adversarial schedules (every dividing cell on its own thread, started in reverse order of list position) besides the random ones. The exception funnel under load (4000 items throwing at once, 8 threads, 12 [60] rounds); the determinism tissue is heterogeneous and is also run with its cells listed in the opposite order at one thread (same per-cell end states required). Mesh output phase: spec/Parallel/WriteSections (compaction joined before the two concurrent file sections: NoReadDuringCompaction, FilesAgree, termination under every schedule; the design that compacts inside a section is refuted) and real mesh_writer::write calls on coarsened cells with 16000 free slots at 1, 2, 3, 8 threads, repeated: both files byte-identical (digest) to the single-threaded call, validated by TLC (WriteTrace).",
    "C20": " Every case is also answered by grids re-used from case to case through update_dimensions, which must answer like the fresh ones (P_Reuse); embeddings with a unit that is not a power of two (all coordinates rounded, extents rounded multiples of the voxel size) are replayed too, with a distance of exactly one voxel size left to rounding. The grids are also exercised with the simulator's structured element type (every object placed into an occupied voxel of uspg_3d; field-by-field read-back, P_StructRetrievable); the quick enumeration contains boxes that are flat as well as tall. The automatic polarizer's own grid: the box that the real update_grid_dimensions declares must contain every node it stores (36 elongated cells, far tip listed first / second / last, six directions, two scales; PolarGridTrace).",
}
for _k, _v in EXTRA.items():
    CHECKS[_k]["text"] += _v

def main():
    props = [json.loads(l)["id"] for l in open(os.path.join(ROOT, "properties.jsonl"))]
    checks = []
    for pid in props:
        if pid not in CHECKS:
            continue
        c = CHECKS[pid]
        checks.append({
            "property_id": pid,
            "quick_cmd": "bin/check %s --tier quick" % pid,
            "thorough_cmd": "bin/check %s --tier thorough" % pid,
            "evidence_file": "evidence/%s.json" % pid,
            "replay_cmd_template": "bin/check %s --replay {path}" % pid,
            "engine": "tlc+harness",
            "level_claimed": {"category": c["category"], "text": c["text"], "design_ref": c["design_ref"]},
            "level_note": c["note"],
            "technique": c["technique"],
        })
    na = []
    for pid in props:
        if pid in CHECKS:
            continue
        reason = NOT_APPLICABLE.get(pid) or PENDING.get(pid) or "check not built yet in this round (planned: DESIGN.md §4 %s); not claimed until it is" % pid
        na.append({"property_id": pid, "reason": reason})
    m = {
        "version": 1,
        "setup_cmd": "bin/setup",
        "hooks": {
            "guard": "SIMUCELL3D_VERIF",
            "enable": "harness/CMakeLists.txt adds -DSIMUCELL3D_VERIF (and -DVERIF_CONTACT_MODEL_INDEX / -DVERIF_DYNAMIC_MODEL_INDEX per variant) and builds /repo through add_subdirectory into /verif/build/<variant>",
            "baseline_off_cmd": "bin/baseline_off",
            "source_commits": hook_commits(),
            "add_only": True,
        },
        "engines": [{"name": "tlc+harness", "path": "bin/check", "serves_properties": [c["property_id"] for c in checks],
                     "kind_free_text": "TLA+ specifications under spec/ checked by TLC; C++ conformance drivers under harness/ built against /repo's working tree; trace validation by TLC"}],
        "checks": checks,
        "not_applicable": na,
        "notes": "See DESIGN.md. known_findings.json lists recorded findings and fixed defects.",
    }
    with open(os.path.join(ROOT, "MANIFEST.json"), "w") as f:
        json.dump(m, f, indent=1)
    print("MANIFEST.json: %d checks, %d not_applicable" % (len(checks), len(na)))

if __name__ == "__main__":
    main()
