#!/bin/bash
# tools/seedcheck.sh <seed-id> <worktree> <check ids...>
# Confirms a seeded change independently (tests pass with it, demonstration fails with it and passes without it), stores it under
# seeded/<seed-id>/ and runs the given checks against it (patch applied to /repo, undone afterwards).
set -u
ID=$1; WT=$2; shift 2
OUT=/verif/seeded/$ID; mkdir -p $OUT
cp $WT/seed_out/patch.diff $WT/seed_out/meta.json $OUT/ 2>/dev/null
cp $WT/seed_out/demo.cpp $WT/seed_out/run_demo.sh $OUT/ 2>/dev/null
cp $WT/seed_out/*.cpp $WT/seed_out/*.sh $WT/seed_out/*.py $WT/seed_out/*.xml $WT/seed_out/*.vtk $OUT/ 2>/dev/null
LOG=$OUT/confirm.log; : > $LOG
cd $WT
echo "## with the change: build + ctest" >> $LOG
cmake --build $WT/_build -j8 >/dev/null 2>&1
ctest --test-dir $WT/_build -j8 2>&1 | tail -3 >> $LOG
echo "## with the change: demonstration" >> $LOG
( bash $WT/seed_out/run_demo.sh 2>&1 | tail -5; echo "exit=${PIPESTATUS[0]}" ) >> $LOG
echo "## without the change" >> $LOG
git -C $WT apply -R $WT/seed_out/patch.diff && cmake --build $WT/_build -j8 >/dev/null 2>&1
( bash $WT/seed_out/run_demo.sh 2>&1 | tail -5; echo "exit=${PIPESTATUS[0]}" ) >> $LOG
git -C $WT apply $WT/seed_out/patch.diff
echo "## checks against the change (patch applied to /repo)" >> $LOG
git -C /repo apply $OUT/patch.diff || { echo "PATCH DOES NOT APPLY to /repo" >> $LOG; cat $LOG; exit 1; }
for c in "$@"; do
  ( cd /verif && timeout 3000 bin/check $c --tier quick 2>&1 | grep -E "^OK|VIOLATION|MACHINERY|KNOWN" | cut -c1-300 | head -4; echo "check $c exit=${PIPESTATUS[0]}" ) >> $LOG
done
git -C /repo checkout -- . ; git -C /repo status --short | grep -v _build >> $LOG
cat $LOG
