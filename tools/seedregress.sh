#!/bin/bash
# tools/seedregress.sh [seed-id ...]
# Applies every stored seeded change to /repo in turn, runs the quick tier of the check of the property it breaks, and undoes it.
# Expected: exit 1 (VIOLATION) for every seed.  Writes seeded/REGRESSION.md.  /repo must be clean; nothing else may use /repo meanwhile.
cd /verif
if [ -n "$(git -C /repo status --porcelain --untracked-files=no)" ]; then echo "/repo is not clean"; exit 2; fi
OUT=seeded/REGRESSION.md
SEEDS="$@"; PARTIAL=0
if [ -n "$SEEDS" ]; then PARTIAL=1; cp $OUT /tmp/REGRESSION.prev 2>/dev/null; OUT=/tmp/REGRESSION.part; else SEEDS=$(ls seeded | grep -v "\.md$"); fi
echo "# Seeded changes against the current checks ($(date -u +%F' '%H:%M)Z, /repo $(git -C /repo log -1 --format=%h), /verif $(git log -1 --format=%h))" > $OUT
echo >> $OUT; echo "| seed | check | exit | verdict |" >> $OUT; echo "|---|---|---|---|" >> $OUT
bad=0
for s in $SEEDS; do
  prop=$(python3 -c "import json;print(json.load(open('seeded/$s/meta.json'))['property'])")
  oos=$(python3 -c "import json;print(int(bool(json.load(open('seeded/$s/meta.json')).get('out_of_scope'))))")
  git -C /repo apply /verif/seeded/$s/patch.diff || { echo "| $s | $prop | - | patch does not apply |" >> $OUT; bad=1; continue; }
  timeout 3000 bin/check $prop --tier quick > /tmp/seedregress.out 2>&1; rc=$?
  git -C /repo checkout -- .
  v="MISSED"; [ $rc -eq 1 ] && v="detected"; [ $rc -eq 2 ] && v="machinery error"
  if [ $oos -eq 1 ]; then v="not detected (does not break the property as stated, see meta.json)"; [ $rc -ne 0 ] && { v="UNEXPECTED exit $rc on an out-of-scope seed"; bad=1; }
  else [ $rc -ne 1 ] && bad=1; fi
  echo "| $s | $prop | $rc | $v |" >> $OUT
  echo "$s $prop exit=$rc $v"
done
echo >> $OUT; echo "Evidence files in /verif/evidence were overwritten by these runs: re-run the quick tier on the unchanged tree afterwards." >> $OUT
if [ $PARTIAL -eq 1 ]; then
  # replace the rows of the seeds just re-run in the previous full table
  python3 - <<'PY'
import re
prev = open('/tmp/REGRESSION.prev').read().splitlines()
part = {l.split('|')[1].strip(): l for l in open('/tmp/REGRESSION.part').read().splitlines() if l.startswith('| ') and not l.startswith('| seed')}
out = [part.get(l.split('|')[1].strip(), l) if l.startswith('| ') and not l.startswith('| seed') else l for l in prev]
have = {l.split('|')[1].strip() for l in prev if l.startswith('| ')}
last = max(i for i, l in enumerate(out) if l.startswith('| '))
out[last + 1:last + 1] = [part[k] for k in sorted(part) if k not in have]        # seeds stored since the last full run
out.append("Rows re-run (or added) individually afterwards: " + ", ".join(sorted(part)))
open('/verif/seeded/REGRESSION.md', 'w').write("\n".join(out) + "\n")
PY
fi
exit $bad
