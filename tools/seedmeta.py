#!/usr/bin/env python3
"""Folds seeded/<id>/confirm.log (written by tools/seedcheck.sh) into seeded/<id>/meta.json and rewrites seeded/INDEX.md."""
import json, os, re, sys
ROOT = os.path.join(os.path.dirname(os.path.abspath(__file__)), "..", "seeded")
rows = []
for d in sorted(os.listdir(ROOT)):
    p = os.path.join(ROOT, d)
    if not os.path.isdir(p) or not os.path.exists(os.path.join(p, "confirm.log")):
        continue
    log = open(os.path.join(p, "confirm.log")).read()
    meta = json.load(open(os.path.join(p, "meta.json")))
    sec = re.split(r"^## ", log, flags=re.M)
    def part(name):
        for s in sec:
            if s.startswith(name):
                return s
        return ""
    m = re.search(r"(\d+)% tests passed, (\d+) tests failed out of (\d+)", part("with the change: build"))
    with_demo = re.search(r"exit=(\d+)", part("with the change: demonstration"))
    without_demo = re.search(r"exit=(\d+)", part("without the change"))
    checks = {}
    cur = part("checks against")
    for c, rc in re.findall(r"check (C\d+) exit=(\d+)", cur):
        checks[c] = {"0": "not detected (exit 0)", "1": "VIOLATION (exit 1)", "2": "machinery error (exit 2)"}.get(rc, "exit " + rc)
    for k, v in (meta.get("rechecked") or {}).items():
        checks[k] = v
    meta["confirmed_by_me"] = {
        "existing_tests_with_change": ("%s/%s passed" % (int(m.group(3)) - int(m.group(2)), m.group(3))) if m else "?",
        "demonstration_with_change": "FAIL (exit %s)" % with_demo.group(1) if with_demo else "?",
        "demonstration_without_change": "PASS (exit %s)" % without_demo.group(1) if without_demo else "?",
        "how": "tools/seedcheck.sh: rebuilt the agent's scratch worktree and ran ctest and run_demo.sh with the change, reverse-applied "
               "patch.diff, rebuilt and ran run_demo.sh again; then `git -C /repo apply patch.diff`, ran the quick tier of the listed "
               "checks, `git -C /repo checkout -- .`"}
    meta["checks_run_against_it"] = checks
    json.dump(meta, open(os.path.join(p, "meta.json"), "w"), indent=1)
    rows.append((d, meta))
with open(os.path.join(ROOT, "INDEX.md"), "w") as f:
    f.write("# Seeded changes\n\nEach directory holds one change to /repo written by a fresh sub-agent that saw only the text of the property "
            "(never /verif), confirmed by me (existing 126 tests pass with it, its demonstration fails with it and passes without it). "
            "None of them is committed in /repo.\n\n| seed | property | needs | existing tests | checks run (quick tier) |\n|---|---|---|---|---|\n")
    for d, m in rows:
        f.write("| %s | %s | %s | %s | %s |\n" % (d, m.get("property"), m.get("needs", "").replace("|", "/")[:260],
                m["confirmed_by_me"]["existing_tests_with_change"], "; ".join("%s: %s" % kv for kv in sorted(m["checks_run_against_it"].items()))))
# the same table inside DESIGN.md
dp = os.path.join(ROOT, "..", "DESIGN.md")
ds = open(dp).read()
b0, b1 = ds.index("<!-- SEEDED-TABLE-BEGIN -->"), ds.index("<!-- SEEDED-TABLE-END -->")
tab = "| seed | property | what it changes | what it needs | checks run against it (quick tier) |\n|---|---|---|---|---|\n"
for d, m in rows:
    tab += "| %s | %s | %s | %s | %s |\n" % (d, m.get("property"), m.get("summary", "").replace("|", "/")[:300], m.get("needs", "").replace("|", "/")[:300],
                                         "; ".join("**%s**: %s" % kv for kv in sorted(m["checks_run_against_it"].items())))
first = sum(1 for d, m in rows if any("first run: not detected" in v or "first run printed" in v for v in m["checks_run_against_it"].values()))
oos = sum(1 for d, m in rows if m.get("out_of_scope"))
first = sum(1 for d, m in rows if not m.get("out_of_scope") and any(("first run" in v) or ("would have missed" in v) for v in m["checks_run_against_it"].values()))
tab += ("\n%d seeded changes (eleven rounds; several later ones repeat an idea of an earlier round). %d escaped the property's own check -- or were mis-reported by it -- on the first run "
        "and are detected after the strengthening described below; %d are kept as documented non-detections because they do not break their property as stated; "
        "every other one is detected by the check of its property (seeded/REGRESSION.md).\n" % (len(rows), first, oos))
open(dp, "w").write(ds[:b0] + "<!-- SEEDED-TABLE-BEGIN -->\n" + tab + ds[b1:])
print(open(os.path.join(ROOT, "INDEX.md")).read())
