"""Shared machinery for the /verif checks: building the harness against /repo's working tree,
running TLC, parsing TLC state dumps, writing evidence, known findings."""
import json, os, re, shutil, subprocess, sys, time, hashlib

ROOT = os.path.dirname(os.path.dirname(os.path.abspath(__file__)))
REPO = os.environ.get("VERIF_REPO", "/repo")
# VERIF_REPO / VERIF_BUILD / VERIF_EVIDENCE: only for side runs against a frozen copy of the repository while /repo itself is busy
# (e.g. a thorough tier during seeding); the registered commands never set them
BUILD = os.environ.get("VERIF_BUILD", os.path.join(ROOT, "build"))
EVIDENCE = os.environ.get("VERIF_EVIDENCE", os.path.join(ROOT, "evidence"))
TMP = os.path.join(BUILD, "tmp")
TLA_CP = "/opt/veriftools/tla/tla2tools.jar:/opt/veriftools/tla/CommunityModules-deps.jar"
NCPU = os.cpu_count() or 4

VARIANTS = {            # name -> (contact model, dynamic model)
    "m1d0": ("", ""),   # repository defaults (CONTACT_MODEL_INDEX 1, DYNAMIC_MODEL_INDEX 0)
    "m0d0": ("0", "0"),
    "m2d0": ("2", "0"),
    "m1d1": ("1", "1"),
}


class ModelError(Exception):
    """A failure of the verification machinery itself (never reported as a property violation)."""


def log(*a):
    print(*a, flush=True)


def run(cmd, timeout=None, env=None, cwd=None, check=False, capture=True):
    e = dict(os.environ)
    if env:
        e.update(env)
    try:
        p = subprocess.run(cmd, cwd=cwd, env=e, timeout=timeout, stdout=subprocess.PIPE if capture else None,
                           stderr=subprocess.STDOUT if capture else None, text=True, errors="replace")
    except subprocess.TimeoutExpired as ex:
        out = ex.stdout if isinstance(ex.stdout, str) else (ex.stdout or b"").decode(errors="replace")
        return 124, out
    if check and p.returncode != 0:
        raise ModelError("command failed (%d): %s\n%s" % (p.returncode, " ".join(cmd), (p.stdout or "")[-4000:]))
    return p.returncode, p.stdout or ""


# ----------------------------------------------------------------------------------------------
# build
def build(variant="m1d0", targets=(), jobs=None):
    """Configure (once) and build the given driver targets against /repo's current working tree."""
    bdir = os.path.join(BUILD, variant)
    cm, dm = VARIANTS[variant]
    if not os.path.exists(os.path.join(bdir, "build.ninja")):
        os.makedirs(bdir, exist_ok=True)
        cmd = ["cmake", "-G", "Ninja", "-S", os.path.join(ROOT, "harness"), "-B", bdir,
               "-DCMAKE_BUILD_TYPE=RelWithDebInfo", "-DREPO_DIR=" + REPO,
               "-DVERIF_CM=" + cm, "-DVERIF_DM=" + dm]
        rc, out = run(cmd, timeout=600)
        if rc != 0:
            raise ModelError("cmake configure failed:\n" + out[-4000:])
    cmd = ["cmake", "--build", bdir, "-j", str(jobs or NCPU)]
    if targets:
        cmd += ["--target"] + list(targets)
    rc, out = run(cmd, timeout=3000)
    if rc != 0:
        # a glob of new drivers needs a re-configure; try once
        run(["cmake", bdir], timeout=600)
        rc, out = run(cmd, timeout=3000)
        if rc != 0:
            raise ModelError("harness build failed (variant %s):\n%s" % (variant, out[-6000:]))
    return bdir


def scratch(name):
    d = os.path.join(TMP, "%s-%d" % (name, os.getpid()))
    shutil.rmtree(d, ignore_errors=True)
    os.makedirs(d, exist_ok=True)
    return d


# ----------------------------------------------------------------------------------------------
# TLC
class TlcResult:
    def __init__(self, rc, out):
        self.rc, self.out = rc, out
        m = re.search(r"(\d+) states generated, (\d+) distinct states found", out)
        self.generated = int(m.group(1)) if m else 0
        self.distinct = int(m.group(2)) if m else 0
        m = re.search(r"depth of the complete state graph search is (\d+)", out)
        self.depth = int(m.group(1)) if m else 0
        self.violated = re.findall(r"Invariant (\S+) is violated", out)
        self.violated += re.findall(r"Action property (\S+) is violated", out)
        if "Temporal properties were violated" in out:
            self.violated.append("<temporal>")
        # rc 12 = safety violation, 13 = liveness violation, 0 = ok; with -continue rc can be 0/12
        self.ok = (rc == 0 and not self.violated)
        self.is_violation = rc in (12, 13) or (rc == 0 and bool(self.violated))
        self.model_error = not self.ok and not self.is_violation

    def coverage(self):
        """action name -> (taken, generated) from -coverage output"""
        cov = {}
        for m in re.finditer(r"<(\w+) line \d+, col \d+ to line \d+, col \d+ of module (\w+)>: (\d+):(\d+)", self.out):
            name = m.group(1)
            cov[name] = (cov.get(name, (0, 0))[0] + int(m.group(3)), cov.get(name, (0, 0))[1] + int(m.group(4)))
        return cov


def tlc(spec_dir, module, cfg, workers=None, dump=None, dump_dot=None, simulate=None, depth=None,
        timeout=1200, xmx="8g", extra=(), env=None, metadir=None, coverage=False, cont=False, deadlock=None):
    md = metadir or scratch("tlc-" + module)
    libs = os.pathsep.join(os.path.join(ROOT, "spec", d) for d in sorted(os.listdir(os.path.join(ROOT, "spec"))))
    os.makedirs(md, exist_ok=True)
    # java.io.tmpdir: TLC leaves a tlc-<random> directory per run in the temporary directory; keep it inside the run's own scratch
    cmd = ["java", "-Xmx" + xmx, "-XX:+UseParallelGC", "-Djava.io.tmpdir=" + md, "-DTLA-Library=" + libs, "-cp", TLA_CP, "tlc2.TLC",
           "-workers", str(workers or NCPU), "-metadir", md, "-config", cfg, "-noGenerateSpecTE"]
    if dump:
        cmd += ["-dump", dump]
    if dump_dot:
        cmd += ["-dump", "dot,actionlabels", dump_dot]
    if simulate:
        cmd += ["-simulate", simulate]
    if depth:
        cmd += ["-depth", str(depth)]
    if coverage:
        cmd += ["-coverage", "1"]
    if cont:
        cmd += ["-continue"]
    cmd += list(extra) + [module + ".tla"]
    rc, out = run(cmd, timeout=timeout, env=env, cwd=spec_dir)
    shutil.rmtree(md, ignore_errors=True)
    if rc == 124:
        raise ModelError("TLC timed out on %s/%s after %ss" % (module, cfg, timeout))
    res = TlcResult(rc, out)
    return res


def tlc_validate_records(spec_dir, module, cfg, rows, chunk=1500, env_key="OBS", par=4, workers=4, timeout=1500, extra_env=None):
    """Trace validation of independent records: each record becomes one initial state (variable k) of the
    trace specification `module`; returns (records accepted as states, {invariant: [0-based row index]})."""
    import concurrent.futures
    work = scratch("val-" + module)
    jobs = []
    for c0 in range(0, len(rows), chunk):
        part = []
        for j, r in enumerate(rows[c0:c0 + chunk]):
            r = dict(r)
            r["k"] = j + 1
            part.append(r)
        path = os.path.join(work, "chunk%d.ndjson" % c0)
        write_ndjson(path, part)
        jobs.append((c0, path, len(part)))

    def one(job):
        c0, path, n = job
        env = {env_key: path}
        if extra_env:
            env.update(extra_env)
        res = tlc(spec_dir, module, cfg, workers=workers, env=env, cont=True, timeout=timeout, xmx="4g",
                  metadir=os.path.join(work, "md%d" % c0))
        if res.model_error or (res.distinct != n):
            raise ModelError("%s failed on chunk %d: rc=%d distinct=%d expected=%d\n%s" % (module, c0, res.rc, res.distinct, n, res.out[-3000:]))
        bad = {}
        for m in re.finditer(r"Invariant (\w+) is violated[^\n]*\n(?:[^\n]*\n)*?(?:/\\ )?k = (\d+)", res.out, flags=re.S):
            bad.setdefault(m.group(1), set()).add(c0 + int(m.group(2)) - 1)
        return res, bad

    total, allbad = 0, {}
    with concurrent.futures.ThreadPoolExecutor(max_workers=par) as ex:
        for res, bad in ex.map(one, jobs):
            total += res.distinct
            for k, v in bad.items():
                allbad.setdefault(k, set()).update(v)
    shutil.rmtree(work, ignore_errors=True)
    return total, {k: sorted(v) for k, v in allbad.items()}


def tlc_expect_ok(res, what):
    if res.model_error:
        raise ModelError("TLC model error in %s (rc=%d):\n%s" % (what, res.rc, res.out[-5000:]))
    return res


# ----------------------------------------------------------------------------------------------
# TLA+ value parser (the subset TLC prints in state dumps)
class _P:
    def __init__(self, s):
        self.s, self.i = s, 0

    def ws(self):
        while self.i < len(self.s) and self.s[self.i] in " \t\r\n":
            self.i += 1

    def peek(self, n=1):
        self.ws()
        return self.s[self.i:self.i + n]

    def eat(self, tok):
        self.ws()
        if not self.s.startswith(tok, self.i):
            raise ValueError("expected %r at %d: %r" % (tok, self.i, self.s[self.i:self.i + 40]))
        self.i += len(tok)

    def value(self):
        self.ws()
        s = self.s
        c = s[self.i]
        if s.startswith("<<", self.i):
            self.i += 2
            out = []
            if self.peek(2) == ">>":
                self.i += 2
                return tuple(out)
            while True:
                out.append(self.value())
                if self.peek(2) == ">>":
                    self.eat(">>")
                    return tuple(out)
                self.eat(",")
        if c == "{":
            self.i += 1
            out = []
            if self.peek() == "}":
                self.eat("}")
                return frozenset()
            while True:
                out.append(self.value())
                if self.peek() == "}":
                    self.eat("}")
                    return frozenset(out)
                self.eat(",")
        if c == "[":
            self.i += 1
            d = {}
            if self.peek() == "]":
                self.eat("]")
                return d
            while True:
                self.ws()
                m = re.compile(r"[A-Za-z_][A-Za-z0-9_]*").match(s, self.i)
                key = m.group(0)
                self.i = m.end()
                self.eat("|->")
                d[key] = self.value()
                if self.peek() == "]":
                    self.eat("]")
                    return d
                self.eat(",")
        if c == "(":
            self.i += 1
            d = {}
            while True:
                k = self.value()
                self.eat(":>")
                d[k] = self.value()
                if self.peek() == ")":
                    self.eat(")")
                    return d
                self.eat("@@")
        if c == '"':
            j = self.i + 1
            buf = []
            while s[j] != '"':
                if s[j] == "\\":
                    j += 1
                buf.append(s[j])
                j += 1
            self.i = j + 1
            return "".join(buf)
        m = re.compile(r"-?\d+").match(s, self.i)
        if m:
            self.i = m.end()
            v = int(m.group(0))
            if self.peek(2) == "..":
                self.eat("..")
                hi = self.value()
                return frozenset(range(v, hi + 1))
            return v
        m = re.compile(r"[A-Za-z_][A-Za-z0-9_]*").match(s, self.i)
        if m:
            self.i = m.end()
            w = m.group(0)
            return True if w == "TRUE" else False if w == "FALSE" else w
        raise ValueError("cannot parse at %d: %r" % (self.i, s[self.i:self.i + 40]))


def parse_tla(text):
    p = _P(text)
    v = p.value()
    p.ws()
    if p.i != len(p.s):
        raise ValueError("trailing text: %r" % p.s[p.i:p.i + 40])
    return v


def parse_dump(path):
    """Yield each state of a TLC -dump file as {var: python value}."""
    with open(path) as f:
        txt = f.read()
    for block in re.split(r"^State \d+:\s*$", txt, flags=re.M):
        block = block.strip()
        if not block:
            continue
        st = {}
        for conj in re.split(r"^/\\ ", block, flags=re.M):
            conj = conj.strip()
            if not conj:
                continue
            name, _, val = conj.partition(" = ")
            st[name.strip()] = parse_tla(val.strip())
        yield st


def parse_dot(path):
    """Parse a TLC '-dump dot,actionlabels' graph: returns (nodes{id: state dict}, edges[(src,dst,label)], init ids)."""
    nodes, edges, inits = {}, [], set()
    node_re = re.compile(r'^(-?\d+) \[label="(.*)"(,style = filled)?\]\s*;?$')
    edge_re = re.compile(r'^(-?\d+) -> (-?\d+) \[label="(.*?)"')
    with open(path) as f:
        for line in f:
            line = line.strip()
            m = edge_re.match(line)
            if m:
                edges.append((m.group(1), m.group(2), m.group(3)))
                continue
            m = node_re.match(line)
            if m:
                lab = m.group(2).replace("\\n", "\n").replace('\\"', '"').replace("\\\\", "\\")
                st = {}
                for conj in re.split(r"^/\\ ", lab, flags=re.M):
                    conj = conj.strip()
                    if conj:
                        name, _, val = conj.partition(" = ")
                        st[name.strip()] = parse_tla(val.strip())
                nodes[m.group(1)] = st
                if m.group(3):
                    inits.add(m.group(1))
    return nodes, edges, inits


def to_json(v):
    """TLA python value -> JSON-able (tuples/sets to lists, dict keys to strings)."""
    if isinstance(v, (tuple, list)):
        return [to_json(x) for x in v]
    if isinstance(v, frozenset):
        return sorted((to_json(x) for x in v), key=lambda z: json.dumps(z))
    if isinstance(v, dict):
        if all(isinstance(k, str) for k in v):
            return {k: to_json(x) for k, x in v.items()}
        if all(isinstance(k, int) for k in v) and sorted(v) == list(range(1, len(v) + 1)):
            return [to_json(v[k]) for k in sorted(v)]
        return [{"k": to_json(k), "v": to_json(x)} for k, x in v.items()]
    return v


# ----------------------------------------------------------------------------------------------
# evidence, findings, verdicts
def load_known_findings():
    p = os.path.join(ROOT, "known_findings.json")
    if not os.path.exists(p):
        return {"findings": [], "fixed": []}
    with open(p) as f:
        return json.load(f)


CURRENT = None      # the Check of this process (bin/check reports its violations if the run ends in a ModelError)


class Check:
    """Bookkeeping of one check run: evidence counters, violations, known findings."""

    def __init__(self, pid, tier, seed, level="model_checking"):
        self.pid, self.tier, self.seed, self.level = pid, tier, seed, level
        self.t0 = time.time()
        self.cov = {"states": 0, "transitions": 0, "traces_validated_against_impl": 0, "samples": [],
                    "evaluations": 0, "distinct_nontrivial": 0, "rule": "", "tlc_runs": [],
                    "controls_run": 0, "controls_rejected": 0}
        self.assumptions = []
        self.violations = []       # (key, replay_path, description)
        self.known_hit = []
        kf = load_known_findings()
        self.known = {f["key"]: f for f in kf.get("findings", []) if f.get("property") == pid}
        global CURRENT
        CURRENT = self

    def add_tlc(self, name, res):
        self.cov["states"] += res.distinct
        self.cov["transitions"] += res.generated
        self.cov["tlc_runs"].append({"model": name, "distinct": res.distinct, "generated": res.generated,
                                     "depth": res.depth, "rc": res.rc})

    def sample(self, s, maxn=6):
        if len(self.cov["samples"]) < maxn:
            self.cov["samples"].append(s)

    def violation(self, key, description, replay_obj=None, replay_path=None):
        """Record a violation identified by `key`; known findings are reported as such."""
        if key in self.known:
            if key not in self.known_hit:
                self.known_hit.append(key)
                log("KNOWN-FINDING: property=%s %s" % (self.pid, self.known[key].get("description", key)))
            return
        if replay_path is None and len(self.violations) >= 5:
            replay_path = "(not written)"
        if replay_path is None:
            os.makedirs(os.path.join(ROOT, "replays"), exist_ok=True)
            h = hashlib.sha1(key.encode()).hexdigest()[:10]
            replay_path = os.path.join(ROOT, "replays", "%s-%s.json" % (self.pid, h))
            with open(replay_path, "w") as f:
                json.dump({"property": self.pid, "key": key, "description": description, "case": replay_obj}, f, indent=1)
        self.violations.append((key, replay_path, description))
        if len(self.violations) <= 5:
            log("VIOLATION property=%s replay=%s" % (self.pid, replay_path))
            log("  " + description[:600])
        elif len(self.violations) == 6:
            log("  (further violations of %s are counted in the evidence file, not printed)" % self.pid)

    def finish(self, extra=None):
        ev = {"property_id": self.pid, "tier": self.tier, "seed": int(self.seed), "level": self.level,
              "coverage": self.cov, "assumptions": self.assumptions,
              "wall_s": round(time.time() - self.t0, 2), "violations": len(self.violations)}
        if self.known_hit:
            ev["known_findings_hit"] = self.known_hit
        if self.violations:
            ev["violation_keys"] = [v[0][:300] for v in self.violations[:200]]
        if extra:
            ev["coverage"].update(extra)
        os.makedirs(EVIDENCE, exist_ok=True)
        with open(os.path.join(EVIDENCE, self.pid + ".json"), "w") as f:
            json.dump(ev, f, indent=1, default=str)
        if self.violations:
            return 1
        log("OK property=%s tier=%s states=%d transitions=%d impl_traces=%d wall=%.1fs" % (
            self.pid, self.tier, self.cov["states"], self.cov["transitions"],
            self.cov["traces_validated_against_impl"], time.time() - self.t0))
        return 0


def write_ndjson(path, rows):
    with open(path, "w") as f:
        for r in rows:
            f.write(json.dumps(r, separators=(",", ":")) + "\n")


def read_ndjson(path):
    """records of an ndjson file; a LAST line cut short by a crash of its writer is dropped (the caller sees fewer records than
    cases and reports the crash); non-finite numbers printed as nan / inf are read as such"""
    out = []
    with open(path) as f:
        lines = [l.strip() for l in f if l.strip()]
    for i, line in enumerate(lines):
        try:
            out.append(json.loads(line))
        except ValueError:
            try:
                out.append(json.loads(re.sub(r"(?<=[:\[,\s])(-?)nan\b", "NaN", re.sub(r"(?<=[:\[,\s])(-?)inf\b", r"\1Infinity", line))))
            except ValueError:
                if i == len(lines) - 1:
                    break
                raise ModelError("unreadable record %d of %s: %s" % (i + 1, path, line[:200]))
    return out
