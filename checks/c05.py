"""C05 -- the point-to-triangle kernel returns the true closest point.
spec/ClosestPoint transcribes the seven branches of the kernel over the integer lattice; TLC checks the contract
(barycentrics, optimality, distance, invariance under the 24 lattice rotations and under translations) for every
case in the box and on thin triangles (ClosestPointThin) (the box must contain, for every guard conjunct of the kernel that can matter, a case where it does), and its state dump is the table of expected answers replayed into the real function at several
scales and positions in space."""
import json, os, random
from fractions import Fraction
import vlib
from vlib import Check, ModelError

SPEC = os.path.join(vlib.ROOT, "spec", "ClosestPoint")
ROTS = None

def rotations():
    import itertools
    out = []
    for perm in itertools.permutations(range(3)):
        par = 1 if perm in ((0, 1, 2), (1, 2, 0), (2, 0, 1)) else -1
        for sg in itertools.product((-1, 1), repeat=3):
            if sg[0] * sg[1] * sg[2] * par == 1:
                out.append((perm, sg))
    assert len(out) == 24
    return out

def rot(g, x):
    perm, sg = g
    return [sg[i] * x[perm[i]] for i in range(3)]

# physical embeddings: (scale, offset) -- the expected answer is translation invariant, d2 scales with scale^2
EMBED = [(1.0, (0.0, 0.0, 0.0)), (2.0 ** -17, (0.0, 0.0, 0.0)), (1.0, (10.0, 10.0, 10.0)), (1.0, (-3.0, 7.0, 1000.0)),
         (0.5, (1e6, -1e6, 3e5)), (2.0 ** -17, (1.0, -2.0, 0.5)),
         # separations of 1e-8 .. 1e-9 of the coordinate magnitude (still exact: multiples of 2^-17 / 2^-20 below 2^12): differences that
         # a "clean-up" of small components would zero although doubles resolve them
         (2.0 ** -17, (1024.0, -2048.0, 1536.0)), (2.0 ** -20, (4096.0, 4096.0, -4096.0))]
# length scales far from one: sub-micrometre triangles (the scale of real SimuCell3D meshes: edges of 4e-7 .. 2e-6 m, squared lengths of
# 1e-13 and below), much smaller still, and very large -- an absolute tolerance or floor in the kernel shows only there
SCALES = [(2.0 ** -22, (0.0, 0.0, 0.0)), (2.0 ** -40, (0.0, 0.0, 0.0)), (2.0 ** 20, (0.0, 0.0, 0.0)), (2.0 ** -24, (2.0 ** -12, -2.0 ** -13, 2.0 ** -12))]


def thin_verdict(c, e, L, h, o):
    """comparison used on thin triangles: None or a description"""
    want = [e["u"] / e["den"], e["v"] / e["den"], e["w"] / e["den"]]
    got = [o["u"], o["v"], o["w"]]
    qw = [sum(w_ * c[k][i] for w_, k in zip(want, "abc")) for i in range(3)]      # the closest point in lattice units
    qg = [sum(g_ * c[k][i] for g_, k in zip(got, "abc")) for i in range(3)]
    tol = 1e-5 * L
    err = max(abs(x - y) for x, y in zip(qw, qg))
    if not all(x >= -1e-9 for x in got) or abs(sum(got) - 1.0) > 1e-9:
        return "barycentrics %r are not a convex combination" % got
    if not err <= tol:
        return "closest point off by %.3g lattice units (long side %d): barycentrics %r, specification %r" % (err, L, got, want)
    if not abs(max(o["d2"], 0.0) ** 0.5 / c["scale"] - h) <= tol:
        return "distance %r, specification %r" % (max(o["d2"], 0.0) ** 0.5 / c["scale"], h)
    return None


def run(tier, seed, replay=None):
    chk = Check("C05", tier, seed)
    bdir = vlib.build("m1d0", ["cp_driver"])
    work = vlib.scratch("c05")
    cfg = "CP_quick.cfg" if tier == "quick" else "CP_thorough.cfg"
    dump = os.path.join(work, "states")
    res = vlib.tlc(SPEC, "ClosestPointMC", cfg, dump=dump, timeout=3000)
    chk.add_tlc("ClosestPoint/" + cfg, res)
    if res.is_violation:
        chk.violation("design:" + ",".join(res.violated), "TLC: the transcribed kernel violates " + ",".join(res.violated) + "\n" + res.out[-1500:])
        return chk.finish()
    vlib.tlc_expect_ok(res, "ClosestPoint")
    states = list(vlib.parse_dump(dump + ".dump"))
    regions = {}
    for st in states:
        regions[st["out"]["reg"]] = regions.get(st["out"]["reg"], 0) + 1
    if set(regions) != {"A", "B", "C", "AB", "AC", "BC", "IN"}:
        raise ModelError("vacuous enumeration: regions covered %r" % regions)
    chk.cov["regions"] = regions
    # adequacy of the enumeration: for every guard conjunct of the kernel whose removal can change an answer (12 of the 15:
    # the other three are never decisive anywhere in the thorough box), some enumerated case must be decisive for it --
    # otherwise a kernel with that guard weakened would pass the replay unnoticed
    kills = {}
    for st in states:
        for m in st["kills"]:
            kills[m] = kills.get(m, 0) + 1
    need = {"A.d1", "A.d2", "B.d3", "B.d4", "AB.vc", "AB.d1", "AB.d3", "C.d6", "C.d5", "AC.vb", "AC.d6", "BC.va"}
    if not need <= set(kills):
        raise ModelError("enumeration not adequate: no case decisive for guard conjunct(s) %r" % sorted(need - set(kills)))
    chk.cov["decisive_cases_per_guard_conjunct"] = kills

    rnd = random.Random(seed)
    rots = rotations()
    cases, expect = [], []
    for st in states:
        # every state in the identity placement; the other embeddings / rotations rotate through the list
        picks = [(EMBED[0], rots[0])]
        if tier == "thorough":
            picks += [(e, rnd.choice(rots)) for e in EMBED[1:]] + [(e, rnd.choice(rots)) for e in SCALES]
        else:
            picks += [(rnd.choice(EMBED[1:6]), rnd.choice(rots)), (rnd.choice(EMBED[2:6]), rots[0]), (EMBED[6 + len(cases) % 2], rnd.choice(rots)),
                      (SCALES[(len(cases) // 5) % 4], rnd.choice(rots))]
        for (sc, off), g in picks:
            cases.append({"k": len(cases) + 1, "p": rot(g, list(st["p"])), "a": rot(g, list(st["a"])), "b": rot(g, list(st["b"])),
                          "c": rot(g, list(st["c"])), "scale": sc, "off": list(off)})
            expect.append(st["out"])
    if replay:
        with open(replay) as f:
            r = json.load(f)["case"]
        cases, expect = [r["case"]], [r["expected"]]
        cases[0]["k"] = 1
        if r.get("thin"):        # a case of the thin family: its own comparison
            cpath, opath = os.path.join(work, "cases.ndjson"), os.path.join(work, "obs.ndjson")
            vlib.write_ndjson(cpath, cases)
            rc, out = vlib.run([os.path.join(bdir, "cp_driver"), cpath, opath], timeout=600)
            obs = vlib.read_ndjson(opath) if rc == 0 else []
            msg = thin_verdict(cases[0], expect[0], r["thin"]["L"], r["thin"]["h"], obs[0]) if obs else "cp_driver exited with %d" % rc
            if msg:
                chk.violation("impl:thin:replay", "compute_node_triangle_distance on the thin triangle %s: %s" % (json.dumps(cases[0]), msg), r)
            chk.cov["evaluations"] = chk.cov["traces_validated_against_impl"] = 1
            return chk.finish()
    cpath, opath = os.path.join(work, "cases.ndjson"), os.path.join(work, "obs.ndjson")
    vlib.write_ndjson(cpath, cases)
    rc, out = vlib.run([os.path.join(bdir, "cp_driver"), cpath, opath], timeout=1800)
    if rc != 0:
        chk.violation("driver-crash", "cp_driver exited with %d: %s" % (rc, out[-500:]))
        return chk.finish()
    obs = vlib.read_ndjson(opath)
    if len(obs) != len(cases):
        raise ModelError("driver produced %d records for %d cases" % (len(obs), len(cases)))

    def compare(c, e, o):
        """None if the implementation's answer equals the specification's, else a description"""
        den = e["den"]
        for name in ("u", "v", "w"):
            want = e[name] / den
            if not (abs(o[name] - want) <= 1e-9):
                return "barycentric %s = %r, specification %d/%d" % (name, o[name], e[name], den)
        want = e["d2n"] / e["d2d"] * c["scale"] ** 2
        mag = max(abs(x) for x in c["off"]) + 8 * c["scale"]
        tol = 1e-9 * max(want, c["scale"] ** 2) + 64 * 2.3e-16 * mag * (want ** 0.5 + c["scale"])
        if not (abs(o["d2"] - want) <= tol):
            return "squared distance = %r, specification %r (tolerance %.3g)" % (o["d2"], want, tol)
        return None

    bad = 0
    for c, e, o in zip(cases, expect, obs):
        msg = compare(c, e, o)
        if msg:
            bad += 1
            chk.violation("impl:%s:%s" % (e["reg"], json.dumps([c["p"], c["a"], c["b"], c["c"], c["scale"], c["off"]])),
                          "compute_node_triangle_distance(region %s) on %s: %s" % (e["reg"], json.dumps(c), msg),
                          {"case": c, "expected": e, "observed": o})
    chk.cov["traces_validated_against_impl"] = len(cases)
    chk.cov["evaluations"] = len(cases)
    chk.cov["distinct_nontrivial"] = len(states)
    chk.cov["rule"] = ("one case per state of ClosestPointMC (triangle corners and query point in the lattice box, a at the origin, "
                       "non-degenerate), replayed in the identity placement and in rotated / scaled / translated placements; "
                       "distinct = distinct lattice configurations")
    chk.cov["exhaustive"] = True
    for i in range(0, len(cases), max(1, len(cases) // 4)):
        chk.sample({"case": cases[i], "expected": expect[i], "observed": obs[i]})

    # ---- thin triangles (spec/ClosestPoint/ClosestPointThin): needles and flat triangles with aspect ratios up to 2^15, query point
    # above / in the interior.  Floating point itself limits the accuracy there (the kernel's va, vb, vc cancel), so the comparison
    # is on the closest POINT with a tolerance of 1e-5 of the long side -- an answer in a wrong region is off by O(long side).
    if not replay:
        tdump = os.path.join(work, "thin")
        tres = vlib.tlc(SPEC, "ClosestPointThin", "CP_thin.cfg", dump=tdump, timeout=1200)
        chk.add_tlc("ClosestPoint/CP_thin.cfg", tres)
        if tres.is_violation:
            chk.violation("design:thin:" + ",".join(tres.violated), "TLC: ClosestPointThin violates " + ",".join(tres.violated) + "\n" + tres.out[-1500:])
            return chk.finish()
        vlib.tlc_expect_ok(tres, "ClosestPointThin")
        tstates = list(vlib.parse_dump(tdump + ".dump"))
        tcases, tinfo = [], []
        for st in tstates:
            for (sc, off), g in [(EMBED[0], rots[0]), (rnd.choice(EMBED[1:3]), rnd.choice(rots)), (EMBED[5], rnd.choice(rots))]:
                tcases.append({"k": len(tcases) + 1, "p": rot(g, list(st["p"])), "a": rot(g, list(st["a"])), "b": rot(g, list(st["b"])), "c": rot(g, list(st["c"])),
                               "scale": sc, "off": list(off)})
                tinfo.append(st)
        tc_path, to_path = os.path.join(work, "tcases.ndjson"), os.path.join(work, "tobs.ndjson")
        vlib.write_ndjson(tc_path, tcases)
        rc, out = vlib.run([os.path.join(bdir, "cp_driver"), tc_path, to_path], timeout=1800)
        tobs = vlib.read_ndjson(to_path) if rc == 0 else []
        if rc != 0 or len(tobs) != len(tcases):
            chk.violation("driver-crash:thin", "cp_driver exited with %d on the thin triangles: %s" % (rc, out[-500:]))
            return chk.finish()
        ratios = {}
        for c, st, o in zip(tcases, tinfo, tobs):
            e = st["out"]
            L = st["L"]
            ratios[L] = ratios.get(L, 0) + 1
            h = abs(st["p"][2])
            msg = thin_verdict(c, e, L, h, o)
            if msg:
                chk.violation("impl:thin:%s:%s" % (st["shape"], json.dumps([c["p"], c["a"], c["b"], c["c"], c["scale"], c["off"]])),
                              "compute_node_triangle_distance on the thin triangle %s (%s, aspect ratio %d): %s" % (json.dumps(c), st["shape"], L // 4, msg),
                              {"case": c, "expected": e, "observed": o, "thin": {"L": L, "h": h}})
        chk.cov["thin_triangles"] = {"cases": len(tcases), "per_long_side": ratios, "short_side": 4, "tolerance": "1e-5 of the long side on the closest point"}
        chk.cov["traces_validated_against_impl"] += len(tcases)
        chk.cov["evaluations"] += len(tcases)
        if max(ratios) // 4 < 16384:
            raise ModelError("thin family does not reach aspect ratio 2^14")

    # negative controls: a perturbed expectation must be reported by the comparison; the pre-fix design must be refuted by TLC
    i = rnd.randrange(len(cases))
    e2 = dict(expect[i]); e2["d2n"] = e2["d2n"] + e2["d2d"]
    e3 = dict(expect[i]); e3["u"], e3["v"] = e3["u"] + e3["den"], e3["v"] - e3["den"]
    chk.cov["controls_run"] = 3
    chk.cov["controls_rejected"] = int(compare(cases[i], e2, obs[i]) is not None) + int(compare(cases[i], e3, obs[i]) is not None)
    pres = vlib.tlc(SPEC, "ClosestPointMC", "CP_prefix_F1.cfg", timeout=600)
    if "TransInv" in pres.violated or "Contract" in pres.violated:
        chk.cov["controls_rejected"] += 1
    if chk.cov["controls_rejected"] != 3:
        raise ModelError("negative controls not rejected (%d/3)" % chk.cov["controls_rejected"])
    chk.assumptions += ["lattice inputs (integer coordinates times a power of two plus an exactly representable offset), on which every "
                        "branch predicate of the kernel is evaluated exactly in IEEE doubles; degenerate triangles excluded (as in the property)",
                        "tolerances: 1e-9 on barycentrics; on d2 1e-9 relative plus a rounding allowance proportional to the distance from the origin"]
    import shutil
    shutil.rmtree(work, ignore_errors=True)
    return chk.finish()
