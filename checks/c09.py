"""C09 -- cell division yields two valid daughters or leaves the mother untouched.
Design: TLC on spec/Tissue (DivisionReplaces, OnlyReadyDivide, IdsUnique, IdsFresh: population protocol of cell_divider::run for every
set of cells dividing in one iteration) and on spec/Mesh/MeshCut (topology of the cut: for every mother of the family and every way a
plane separates its nodes, the two capped halves are closed oriented manifolds exactly when both sides of the plane are connected).  Implementation: (a) real cell_divider::divide_cell on generated mothers (spheres, stretched
spheres, boxes; symmetric -- the plane passes through nodes -- and jittered; every coordinate axis in both directions, diagonal and
generic axes; several l_min / size ratios; with unused slots before the call); TLC (DivideTrace) evaluates every C01 predicate of
spec/Mesh on both daughters and the 'mother untouched' facts on every record; (b) real solver runs in which several cells divide in
the same iteration, validated by TissueTrace (C09_DivisionStep)."""
import json, os, random, shutil
import vlib, tissue_common as tc
from vlib import Check, ModelError

SPEC = os.path.join(vlib.ROOT, "spec", "Mesh")
P_INV = ["P_MotherUntouched", "P_DaughtersManifold", "P_DaughtersNormals", "P_DaughtersCompact", "P_DaughtersEdgeIndex", "P_Outward", "P_OwnSide",
         "P_VolumeSum", "P_TargetVolumeHalved", "P_SameType"]
AXES = [None, [1, 0, 0], [-1, 0, 0], [0, 1, 0], [0, -1, 0], [0, 0, 1], [0, 0, -1], [1, 1, 1], [0.3, -0.8, 0.52], [-0.2, 0.1, -0.97], [1, 1, 0],
        # almost, but not exactly, along a coordinate axis (1 degree, 0.6 degree, 0.01 degree): where a special case for "the axis IS z"
        # written with a tolerance would take over
        [0.015, 0.01, 1], [0.008, -0.006, 1], [0.0002, 0.0001, 1], [1, 0.012, -0.01], [0.01, -1, 0.014], [0.012, 0.009, -1]]


def cases(tier, seed):
    rnd = random.Random(seed)
    out = []
    def add(**kw):
        kw["k"] = len(out) + 1
        kw.setdefault("vtol", 0.2)
        out.append(kw)
    for jit in (0.0, 0.03):
        for i, a in enumerate(AXES):
            add(shape="sphere", level=2, scale=4e-6, pos=[1e-5, -2e-5, 3e-6], axis=a, lmin=1e-6, seed=seed + i, stretch=[1.3, 1.0, 0.9], jitter=jit, dirty=(i % 3 == 0))
        for i, a in enumerate(AXES[:7]):
            add(shape="box", dims=[2, 1, 1], sub=2, scale=3e-6, pos=[0, 0, 0], axis=a, lmin=7.5e-7, seed=seed + 20 + i, jitter=jit)
    # the same mothers at other length scales (metres, nanometres, kilometres): nothing in a division may depend on the unit of length
    for i, (sc, a) in enumerate([(1.0, None), (1.0, [0.3, -0.8, 0.52]), (3e-9, None), (3e-9, [0, 0, 1]), (1e3, [0.3, -0.8, 0.52])]):
        add(shape="sphere", level=2, scale=sc, pos=[2.5 * sc, -5 * sc, 0.75 * sc], axis=a, lmin=0.25 * sc, seed=seed + 60 + i, stretch=[1.3, 1.0, 0.9], jitter=0.03, dirty=False)
    if tier == "thorough":
        for n in range(220):
            shape = rnd.choice(["sphere", "sphere", "box"])
            a = rnd.choice(AXES + [[rnd.uniform(-1, 1), rnd.uniform(-1, 1), rnd.uniform(-1, 1)] for _ in range(6)])
            if shape == "sphere":
                lvl = rnd.choice([2, 2, 3])
                sc = rnd.choice([4e-6, 1.0, 2.5e-5])
                add(shape="sphere", level=lvl, scale=sc, pos=[rnd.uniform(-5, 5) * sc for _ in range(3)], axis=a, lmin=sc * rnd.choice([0.12, 0.2, 0.25] if lvl == 3 else [0.2, 0.25, 0.3]),
                    seed=seed + 100 + n, stretch=[rnd.uniform(0.8, 2.0), rnd.uniform(0.8, 1.3), 1.0], jitter=rnd.choice([0.0, 0.02, 0.04]), dirty=rnd.random() < 0.3)
            else:
                d = rnd.choice([[1, 1, 1], [2, 1, 1], [1, 2, 1], [1, 1, 3], [2, 2, 1]])
                sub = rnd.choice([1, 2])
                sc = 3e-6
                add(shape="box", dims=d, sub=sub, scale=sc, pos=[rnd.uniform(-3, 3) * sc for _ in range(3)], axis=a, lmin=sc / 4 * rnd.choice([0.8, 1.0]),      # cell size / l_min >= 4 (at a ratio of 2 the remeshing of the daughters, not the cut, changes the volume by 30-60 %)
                    seed=seed + 100 + n, jitter=rnd.choice([0.0, 0.02]))
    return out


def run(tier, seed, replay=None):
    chk = Check("C09", tier, seed)
    bdir = vlib.build("m1d0", ["divide_driver", "tissue_driver"])
    work = vlib.scratch("c09")
    if replay:
        with open(replay) as f:
            r = json.load(f)["case"]
        cs = [r["case"]] if "case" in r else []
        scns = [r["scenario"]] if "scenario" in r else []
    else:
        res = vlib.tlc(tc.SPEC, "TissueMC", "Tissue_c04.cfg", timeout=3000, xmx="12g")     # DivisionReplaces, OnlyReadyDivide, IdsUnique
        chk.add_tlc("Tissue/Tissue_c04.cfg", res)
        if res.is_violation:
            chk.violation("design:" + ",".join(res.violated), "TLC: spec/Tissue violates " + ",".join(res.violated) + "\n" + res.out[-2500:])
            return chk.finish()
        vlib.tlc_expect_ok(res, "Tissue")
        # topology of the cut (spec/Mesh/MeshCut): every mother of the family, every way a plane separates its nodes
        res = vlib.tlc(SPEC, "MeshCutMC", "MeshCut.cfg", timeout=3000, xmx="8g")
        chk.add_tlc("Mesh/MeshCut.cfg", res)
        if res.is_violation:
            chk.violation("design:" + ",".join(res.violated), "TLC: spec/Mesh/MeshCut violates " + ",".join(res.violated) + "\n" + res.out[-2500:])
            return chk.finish()
        vlib.tlc_expect_ok(res, "MeshCut")
        cs = cases(tier, seed)
        far = 3.0 * tc.R
        scns = [tc.scenario("multi", [tc.cell(i, i * far, level=2) for i in range(4)], [{"iter": 5, "do": "ready", "cell": c} for c in (0, 2, 3)], T_ns=1200, threads=8),
                tc.scenario("multi1", [tc.cell(i, i * far, level=2) for i in range(3)], [{"iter": 0, "do": "ready", "cell": c} for c in (0, 1, 2)], T_ns=700, threads=1),
                # successive division rounds on the same id counter, daughters of an earlier round still alive (and dividing) in a later one
                tc.scenario("rounds", [tc.cell(i, i * far, level=2) for i in range(3)], [{"iter": 0, "do": "ready", "cell": 0}, {"iter": 5, "do": "ready", "cell": 1},
                                                                                         {"iter": 10, "do": "ready", "cell": 3}, {"iter": 10, "do": "ready", "cell": 2}], T_ns=1700, threads=4)]
    n_div = n_fail = 0
    if cs:
        cp, op = os.path.join(work, "cases.ndjson"), os.path.join(work, "out.ndjson")
        for i, c in enumerate(cs):
            c["k"] = i + 1
        vlib.write_ndjson(cp, cs)
        rc, out = vlib.run([os.path.join(bdir, "divide_driver"), cp, op], timeout=3000)
        rows = vlib.read_ndjson(op) if os.path.exists(op) else []
        if rc != 0 or len(rows) != len(cs):
            bad = cs[len(rows)] if len(rows) < len(cs) else None
            chk.violation("escape:%s" % json.dumps(bad), "cell_divider::divide_cell did not return on case %s: the driver terminated with status %d (an exception escaped the noexcept "
                          "function, or a crash)\n%s" % (json.dumps(bad), rc, out[-500:]), {"case": bad})
            return chk.finish()
        ok_rows = [r for r in rows if "setup_error" not in r]
        n, bad = vlib.tlc_validate_records(SPEC, "DivideTrace", "DivideTrace.cfg", ok_rows, chunk=20, par=4, workers=4)
        chk.cov["states"] += n
        chk.cov["transitions"] += n
        for inv, idxs in sorted(bad.items()):
            for i in idxs:
                r = ok_rows[i]
                c = cs[r["k"] - 1]
                chk.violation("impl:%s:%s" % (inv, json.dumps(c)), "divide_cell on %s (axis %s, divided=%s) violates %s; facts: %s" % (
                    json.dumps(c), r["axis"], r["divided"], inv, json.dumps({k: v for k, v in r.items() if not isinstance(v, (dict, list))})), {"case": c, "invariant": inv})
        n_div = sum(1 for r in ok_rows if r["divided"])
        n_fail = sum(1 for r in ok_rows if not r["divided"])
        chk.cov["traces_validated_against_impl"] += n
        for r in ok_rows[:: max(1, len(ok_rows) // 3)][:3]:
            chk.sample({"case": cs[r["k"] - 1], "divided": r["divided"], "facts": {k: v for k, v in r.items() if not isinstance(v, (dict, list)) and k != "mother"}})
        if not replay:
            if not n_div or not n_fail:
                raise ModelError("vacuous: %d successful and %d failed divisions" % (n_div, n_fail))
            # negative controls
            rnd = random.Random(seed)
            good = [r for r in ok_rows if r["divided"]]
            c1 = json.loads(json.dumps(rnd.choice(good)))
            j = next(i for i, t in enumerate(c1["d1"]["tri"]) if t)
            c1["d1"]["tri"][j] = []                                  # a hole in daughter 1
            c1["d1"]["freeF"] = [j]
            c2 = json.loads(json.dumps(rnd.choice(good))); c2["mother_same_mesh"] = False
            _, cbad = vlib.tlc_validate_records(SPEC, "DivideTrace", "DivideTrace.cfg", [c1, c2], chunk=5, par=1, workers=2)
            rej = int(0 in cbad.get("P_DaughtersManifold", [])) + int(1 in cbad.get("P_MotherUntouched", []))
            chk.cov["controls_run"], chk.cov["controls_rejected"] = 2, rej
            if rej != 2:
                raise ModelError("negative controls: %d of 2 rejected %r" % (rej, cbad))
    nev = 0
    if scns:
        results = tc.run_scenarios("m1d0", scns, work)
        validated = tc.validate_all(results, work)
        nev = tc.report(chk, "C09", validated)
    chk.cov["divisions"] = {"succeeded": n_div, "failed_cleanly": n_fail}
    chk.cov["evaluations"] = len(cs) + nev
    chk.cov["distinct_nontrivial"] = len({json.dumps({k: v for k, v in c.items() if k != "k"}) for c in cs}) + len(scns)
    chk.cov["rule"] = ("one record per real divide_cell call (shape, symmetric or jittered, axis direction, l_min, unused slots) and one trace per solver run with "
                       "several cells dividing in the same iteration; non-trivial = distinct case")
    chk.assumptions += ["a division axis is a unit vector (as get_cell_longest_axis returns); the daughters' volume sum is compared with the mother's to 20% "
                        "(the refinement of the coarse test meshes after the cut changes the volume by up to ~11%); sides are judged with a tolerance of 1e-6 of the cell size",
                        "the cut itself is validated on the daughters (C01 predicates of spec/Mesh evaluated by TLC), it is not re-derived in the specification"]
    shutil.rmtree(work, ignore_errors=True)
    return chk.finish()
