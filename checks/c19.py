"""C19 -- output files and statistics are complete, well-formed and match simulated state.
Design: TLC on spec/Tissue: NoGaps, KBound, TimeLaw, StatsRows for every (dt, S, T) and population history in the bound, with
the file rule of the code ("sequential"); the rule used before the fix of F10 ("floor") is refuted as a control.
Implementation: real solver::run over a grid of (dt, S, T) including S = dt and non-commensurable ratios, with division,
removal and extinction, file and in-memory statistics; the trace (hook H4 + the files and table left behind, read back with
the real reader) is validated by TLC (TissueTrace)."""
import json, os, random, shutil
import vlib, tissue_common as tc
from vlib import Check, ModelError


def scenarios(tier, seed):
    rnd = random.Random(seed)
    far = 3.0 * tc.R
    out = []
    grid = [(100, 100, 10000), (100, 100, 3000), (100, 200, 2500), (100, 250, 2600), (100, 333, 2000), (100, 700, 5100), (50, 1000, 6000), (100, 1000, 950)]
    # durations that the accumulated time hits EXACTLY in doubles (ten steps of 1e-7 sum to 1e-6 bit for bit, five to 5e-7, three to 3e-7):
    # the loop condition is only tested at equality there ("... until T is reached")
    grid += [(100, 200, 1000), (100, 100, 500), (100, 100, 300)]
    if tier == "thorough":
        grid += [(100, s, t) for s in (100, 150, 300, 410, 999) for t in (1234, 4000)] + [(37, 100, 3000), (10, 10, 2000), (1, 1, 250), (100, 100, 25600)]
    for i, (dt, S, T) in enumerate(grid):
        cells = [tc.cell(0, 0, level=1), tc.cell(1, far, level=1)]
        out.append(tc.scenario("g%d_%d_%d_%d" % (i, dt, S, T), cells, [], dt_ns=dt, S_ns=S, T_ns=T, in_string=(i % 2 == 1), threads=2, max_iter=3000))
    # population histories: division, removal, both, extinction of the whole population
    out.append(tc.scenario("hdiv", [tc.cell(0, 0, level=2), tc.cell(1, far, level=1)], [{"iter": 5, "do": "ready", "cell": 0}], dt_ns=100, S_ns=300, T_ns=6000))
    out.append(tc.scenario("hrem", [tc.cell(i, i * far, level=1) for i in range(3)], [{"iter": 7, "do": "small", "cell": 1}], dt_ns=100, S_ns=200, T_ns=6000, in_string=True))
    out.append(tc.scenario("hext", [tc.cell(i, i * far, level=1) for i in range(2)], [{"iter": 3, "do": "small", "cell": 0}, {"iter": 12, "do": "small", "cell": 1}], dt_ns=100, S_ns=100, T_ns=6000))
    out.append(tc.scenario("hmix", [tc.cell(i, i * far, level=2) for i in range(3)], [{"iter": 0, "do": "ready", "cell": 1}, {"iter": 51, "do": "small", "cell": 0},
                                                                                   {"iter": 55, "do": "ready", "cell": 3}], dt_ns=100, S_ns=500, T_ns=10500))
    # populations made of static cells only (an ECM and a static cell: nothing to integrate), from the start and after the last
    # mobile cell has been removed: simulated time has to advance all the same, or the run never reaches T
    out.append(tc.scenario("hstat", [tc.cell(0, 0, level=1, ctype=4), tc.cell(1, far, level=1, ctype=1)], [], dt_ns=100, S_ns=300, T_ns=2000, max_iter=200))
    out.append(tc.scenario("hstat2", [tc.cell(0, 0, level=1), tc.cell(1, far, level=1, ctype=4), tc.cell(2, 2 * far, level=1, ctype=4)], [{"iter": 3, "do": "small", "cell": 0}],
                           dt_ns=100, S_ns=200, T_ns=2500, in_string=True, max_iter=200))
    return out


def run(tier, seed, replay=None):
    chk = Check("C19", tier, seed)
    work = vlib.scratch("c19")
    if replay:
        with open(replay) as f:
            scns = [json.load(f)["case"]["scenario"]]
    else:
        cfg = "Tissue_c19.cfg"
        res = vlib.tlc(tc.SPEC, "TissueMC", cfg, timeout=3000, xmx="12g")
        chk.add_tlc("Tissue/" + cfg, res)
        if res.is_violation:
            chk.violation("design:" + ",".join(res.violated), "TLC: spec/Tissue violates " + ",".join(res.violated) + "\n" + res.out[-2500:])
            return chk.finish()
        vlib.tlc_expect_ok(res, "Tissue")
        scns = scenarios(tier, seed)
    results = tc.run_scenarios("m1d0", scns, work, timeout=900)
    validated = tc.validate_all(results, work)
    nev = tc.report(chk, "C19", validated)
    for s, ev, rc, depth, tags, res in validated[:3]:
        end = ev[-1] if ev and ev[-1].get("e") == "end" else {}
        chk.sample({"scenario": s["name"], "dt_S_T_ns": s["ticks"], "files": end.get("files_cell"), "stat_rows": end.get("stats", {}).get("nrows"), "iterations": end.get("iter")})
    chk.cov["evaluations"] = nev
    chk.cov["runs_ending_exactly_at_T"] = sum(1 for s, ev, rc, depth, tags, res in validated if ev and ev[-1].get("e") == "end" and ev[-1].get("time_eq_T"))
    if not replay and not chk.cov["runs_ending_exactly_at_T"] and not chk.violations:
        raise ModelError("vacuous: no run whose accumulated time lands exactly on its duration")
    chk.cov["distinct_nontrivial"] = len(scns)
    chk.cov["rule"] = "one trace per (dt, S, T, population history, statistics sink); every phase boundary, every file written, the final directory listing, every file read back, every statistics row"
    if not replay:
        s, ev, rc, txt, ep = results[2]
        ev1 = json.loads(json.dumps(ev))
        k = next(i for i, e in enumerate(ev1) if e.get("e") == "mesh_written" and e["n"] == 2)
        ev1[k]["n"] = 3
        p1 = os.path.join(work, "ctl1.ndjson"); vlib.write_ndjson(p1, ev1)
        _, t1 = tc.validate_trace(p1, ev1, work, "ctl1")
        ev2 = json.loads(json.dumps(ev))
        ev2[-1]["stats"]["rows"][0]["match"] = False
        p2 = os.path.join(work, "ctl2.ndjson"); vlib.write_ndjson(p2, ev2)
        _, t2 = tc.validate_trace(p2, ev2, work, "ctl2")
        pre = vlib.tlc(tc.SPEC, "TissueMC", "Tissue_prefix_F10.cfg", timeout=900, xmx="12g")
        rej = int(any(t == "C19_ConsecutiveNumbers" for t, _ in t1)) + int(any(t == "C19_StatsRows" for t, _ in t2)) + int("NoGaps" in pre.violated)
        chk.cov["controls_run"], chk.cov["controls_rejected"] = 3, rej
        if rej != 3:
            raise ModelError("negative controls: %d of 3 rejected (%r %r %r)" % (rej, t1, t2, pre.violated))
    chk.assumptions += ["times are integers of nanoseconds converted to doubles (dt, S, T); K is compared with floor(T/S)+1 computed exactly",
                        "printed statistics are compared as strings with the cell's getters formatted with the documented formats at the moment of recording",
                        "the computation-time column and the energy columns are not checked"]
    shutil.rmtree(work, ignore_errors=True)
    return chk.finish()
