"""C11 -- remeshing is physically neutral, selective and always terminates.
Design level: spec/Mesh checked by TLC with the action properties SplitKeepsLabels / OnlyRemeshChanges on every chain of
operations.  Implementation level: real local_mesh_refiner::refine_mesh passes (random closed meshes, random displacements,
random edge-length bands, swapping on and off, repeated passes) observed through hook H6; TLC (MeshTrace, configuration
MeshTraceC11) validates every operation and every pass record: momentum conservation, survivors fixed, new node at the
midpoint, label inheritance, selectivity, volume/area neutrality of splits, idempotence on conforming meshes and the
operation bound -- together with the C01 predicates.  Whole passes on lattice cells are validated against spec/Refine/RefinePass
(the work set and the loop bound; see refine_pass.py), which TLC also explores in every order the work set can be emptied."""
import json, os, random, shutil
import vlib
import refine_pass
from vlib import Check, ModelError

SPEC = os.path.join(vlib.ROOT, "spec", "Mesh")
N_INV = {"N_Momentum", "N_Survivors", "N_Midpoint", "N_Labels", "N_Selective", "N_VolArea", "N_Idempotent", "N_Bounded"}
C01_INV = {"P_NoThrow", "P_NoRepeat", "P_LiveNodes", "P_Closed", "P_Euler", "P_Simple", "P_Bookkeeping", "P_EdgeIndex", "P_NormalSide", "P_Outward", "P_Rebase"}


def run(tier, seed, replay=None):
    chk = Check("C11", tier, seed)
    bdir = vlib.build("m1d0", ["refine_driver", "pass_driver"])
    work = vlib.scratch("c11")
    rnd = random.Random(seed)
    if replay:
        with open(replay) as f:
            rows = [json.load(f)["case"]["record"]]
    else:
        res = vlib.tlc(SPEC, "MeshMC", "Mesh_c11.cfg", timeout=3000, xmx="12g")
        chk.add_tlc("Mesh/Mesh_c11.cfg", res)
        if res.is_violation:
            chk.violation("design:" + ",".join(res.violated), "TLC: spec/Mesh violates " + ",".join(res.violated) + "\n" + res.out[-2500:])
            return chk.finish()
        vlib.tlc_expect_ok(res, "Mesh (C11 action properties)")
        p = os.path.join(work, "pass.ndjson")
        npass, maxrec, maxnodes = (200, 460, 50) if tier == "quick" else (4000, 6000, 150)
        rc, out = vlib.run([os.path.join(bdir, "refine_driver"), "c11", str(npass), str(seed), p, str(maxrec), str(maxnodes)], timeout=1500)
        if rc == 124:
            chk.violation("pass-hang", "a real refine_mesh pass did not return within the time limit (termination)", {"seed": seed})
            return chk.finish()
        if rc != 0:
            chk.violation("driver-crash", "refine_driver terminated with status %d\n%s" % (rc, out[-600:]))
            return chk.finish()
        rows = vlib.read_ndjson(p)
    n, bad = vlib.tlc_validate_records(SPEC, "MeshTrace", "MeshTraceC11.cfg", rows, chunk=60, par=4, workers=4)
    drift = {}
    for inv, idxs in sorted(bad.items()):
        for i in idxs:
            r = rows[i]
            if inv in N_INV:
                key = "impl:%s:%s:%s" % (inv, r["op"], json.dumps([r["a"], r["b"], r["num"]]))
                chk.violation(key, "real %s(a=%s,b=%s,f1=%s,f2=%s) inside refine_mesh violates %s: %s" % (r["op"], r["a"], r["b"], r["f1"], r["f2"], inv, json.dumps(r["num"])),
                              {"record": r, "invariant": inv})
            elif inv in C01_INV:
                # the surface itself is broken: that is C01's verdict; for C11 it is reported as well because neutrality presupposes it
                key = "impl:%s:%s:%s" % (inv, r["op"], json.dumps([r["a"], r["b"], r["pre"]["tri"]]))
                chk.violation(key, "real %s inside refine_mesh leaves a cell violating %s" % (r["op"], inv), {"record": r, "invariant": inv})
            else:
                drift[inv] = drift.get(inv, 0) + 1
    ops = {}
    for r in rows:
        ops[r["op"]] = ops.get(r["op"], 0) + 1
    passes = [r for r in rows if r["op"] == "pass"]
    chk.cov["ops"] = ops
    chk.cov["passes"] = {"total": len(passes), "conforming_input": sum(1 for r in passes if r["num"]["in_band"]),
                         "gave_up_by_exception": sum(1 for r in passes if r["threw"]),
                         "splits_only": sum(1 for r in passes if r["num"]["n_split"] and not r["num"]["n_merge"] and not r["num"]["n_swap"])}
    if not replay:
        for need in ("split", "merge", "pass"):
            if not ops.get(need):
                raise ModelError("vacuous: no %s record" % need)
        if not chk.cov["passes"]["conforming_input"]:
            raise ModelError("vacuous: no pass on a conforming mesh")
        chk.cov["splits_of_nanometre_edges"] = sum(1 for r in rows if r["op"] == "split" and 0 < float(r["num"].get("len2", "1")) < 1e-15)
        if not chk.cov["splits_of_nanometre_edges"]:
            raise ModelError("vacuous: no split on a nanometre-scale cell")
        chk.cov["swaps_asked_for_and_refused"] = sum(1 for r in rows if r["op"] == "swap" and r["pre"]["tri"] == r["post"]["tri"])
        if not chk.cov["swaps_asked_for_and_refused"]:
            raise ModelError("vacuous: no swap that the quality rule asked for and swap_edge refused")
    chk.cov["traces_validated_against_impl"] = n
    chk.cov["evaluations"] = n
    chk.cov["distinct_nontrivial"] = len({json.dumps([r["op"], r["a"], r["b"], r["pre"]["tri"]]) for r in rows if r["op"] in ("split", "merge", "swap", "pass")})
    chk.cov["rule"] = ("one record per split/merge/swap/blocked merge executed inside real refine_mesh passes and one per pass; passes on spheres and "
                       "stretched spheres (18-150 nodes) at micrometre scale, random displacements below 15% of the smallest altitude, random "
                       "edge-length bands (every third pass a band the mesh already satisfies), swaps enabled in 3 of 4 passes; non-trivial = "
                       "distinct (operation, arguments, pre-mesh)")
    chk.cov["design_drift"] = drift
    for r in rows[:: max(1, len(rows) // 3)][:3]:
        chk.sample({"op": r["op"], "args": [r["a"], r["b"], r["f1"], r["f2"]], "num": r["num"]})
    if not replay:
        # negative controls
        sp = [r for r in rows if r["op"] == "split"]
        c1 = json.loads(json.dumps(rnd.choice(sp))); c1["num"]["mom_ok"] = False
        c2 = json.loads(json.dumps(rnd.choice(sp)))
        e = [x for x in c2["post"]["used"] if x not in c2["pre"]["used"]][0]
        j = next(i for i, t in enumerate(c2["post"]["tri"]) if t and e in t)
        c2["post"]["ftype"][j] = (c2["post"]["ftype"][j] + 1) % 3
        c3 = json.loads(json.dumps(rnd.choice([r for r in passes if r["num"]["in_band"]]))); c3["num"]["unchanged"] = False
        _, cbad = vlib.tlc_validate_records(SPEC, "MeshTrace", "MeshTraceC11.cfg", [c1, c2, c3], chunk=10, par=1, workers=2)
        rej = int(0 in cbad.get("N_Momentum", [])) + int(1 in cbad.get("N_Labels", [])) + int(2 in cbad.get("N_Idempotent", []))
        chk.cov["controls_run"], chk.cov["controls_rejected"] = 3, rej
        if rej != 3:
            raise ModelError("negative controls: %d of 3 rejected: %r" % (rej, cbad))
        # whole passes on lattice cells against spec/Refine/RefinePass (work set, loop bound), every order on small cells
        refine_pass.stage(chk, tier, seed, rnd, bdir, work)
    chk.assumptions += ["numeric facts (momentum sums to 1e-12 relative, bitwise position equality, squared lengths against the band, volume/area to "
                        "64e-12 relative) are evaluated by the C++ driver with formulas independent of the refiner and logged as booleans; TLC requires them",
                        "termination is observed (every traced pass returned or threw within the time limit), not proved",
                        "the swap trigger (quality score < 0.2) is not predicted; its effect is validated"]
    shutil.rmtree(work, ignore_errors=True)
    return chk.finish()
