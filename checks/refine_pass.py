"""Whole refinement passes against spec/Refine/RefinePass (stage of C11).

Design level: TLC explores every order in which the work set of a pass can be emptied (PopRule = "any") on small lattice
cells: the copies of the face ids held by the work set stay in step with the mesh (TodoCoherent), the surface stays what C01
demands after every step, a pass that ends with an empty work set leaves no edge outside the band but blocked collapses
(Complete), and every behaviour ends (liveness under weak fairness).
Implementation level: real refine_mesh passes (swaps off) on lattice cells -- tetrahedra, bipyramids, octahedra, subdivided
octahedra, jittered, with bands that make edges too long, too short, both, or sit narrowly between; one pass on a fresh cell or
three passes on the same cell with lattice displacements and compactions in between -- are validated by TLC
(RefineTrace): the work set is not logged, the specification carries it, and an operation reported by the hooks is accepted
only if its edge is the first out-of-band entry of the specification's work set with the face ids the specification's copy
holds; the pass must end as the specification ends (normally / by the exception, same counter) and leave the mesh slot for
slot and the positions the specification predicts.  A real pass the specification cannot follow is design drift (NOTE): the
listed statements of C11 about single operations and passes are decided by MeshTrace on the same hooks."""
import json, os, re
import vlib
from vlib import ModelError

SPEC = os.path.join(vlib.ROOT, "spec", "Refine")
OCTA_T = [[0, 2, 4], [2, 1, 4], [1, 3, 4], [3, 0, 4], [2, 0, 5], [1, 2, 5], [3, 1, 5], [0, 3, 5]]
BIP_T = [[0, 1, 3], [1, 2, 3], [2, 0, 3], [1, 0, 4], [2, 1, 4], [0, 2, 4]]
TET_T = [[0, 2, 1], [0, 1, 3], [1, 2, 3], [0, 3, 2]]


def _octa(s):
    return [[s[0], 0, 0], [-s[0], 0, 0], [0, s[1], 0], [0, -s[1], 0], [0, 0, s[2]], [0, 0, -s[2]]], OCTA_T


def _bip(s):
    return [[s[0], 0, 0], [0, s[1], 0], [-s[0], -s[1], 0], [0, 0, s[2]], [0, 0, -s[2]]], BIP_T


def _tet(s):
    return [[s[0], s[1], s[2]], [-s[0], s[1], -s[2]], [s[0], -s[1], -s[2]], [-s[0], -s[1], s[2]]], TET_T


def _subdivide(pos, tris):
    pos = [list(p) for p in pos]
    mid, out = {}, []

    def m(a, b):
        k = (min(a, b), max(a, b))
        if k not in mid:
            mid[k] = len(pos)
            pos.append([(pos[a][i] + pos[b][i]) // 2 for i in range(3)])
        return mid[k]
    for a, b, c in tris:
        ab, bc, ca = m(a, b), m(b, c), m(c, a)
        out += [[a, ab, ca], [ab, b, bc], [ca, bc, c], [ab, bc, ca]]
    return pos, out


def gen_cases(n, rnd):
    """lattice cells with 2-adic depth 6 (coordinates are multiples of 64, jitter of 16); one or three passes on the same cell, the band
    of each pass derived by the driver from the current edge lengths by the named rule (odd doubled thresholds: no comparison ties)"""
    rows, K = [], 64
    for i in range(n):
        kind = i % 4
        s = [K * rnd.choice([1, 2, 3, 4, 6]) for _ in range(3)]
        pos, tris = (_octa(s) if kind == 0 else _bip(s) if kind == 1 else _tet(s) if kind == 2 else _subdivide(*_octa(s)))
        if i % 5 == 4:
            pos = [[x + 16 * rnd.randint(-1, 1) for x in p] for p in pos]
        npass = 1 if i % 3 == 0 else 3
        rows.append({"id": i + 1, "nn": len(pos), "tris": tris, "pos": pos, "modes": [rnd.randrange(6) for _ in range(npass)],
                     "rebase": [0] + [rnd.randrange(2) for _ in range(npass - 1)], "uexp": -24 if i % 2 else -17,
                     "shift": [0, 0, 0] if i % 3 else [5000, -7000, 900]})
    return rows


def _validate(rows, work, tag):
    """-> {id: (end tuple | None, last event index reached, stop reason | None)} from RefineTrace's reports"""
    res_by_id = {}
    chunk = 60
    import concurrent.futures
    jobs = []
    for c0 in range(0, len(rows), chunk):
        part = rows[c0:c0 + chunk]
        path = os.path.join(work, "rp-%s-%d.ndjson" % (tag, c0))
        vlib.write_ndjson(path, part)
        jobs.append((c0, path, part))

    def one(job):
        c0, path, part = job
        res = vlib.tlc(SPEC, "RefineTrace", "RefineTrace.cfg", workers=2, env={"OBS": path}, cont=True, timeout=1500, xmx="4g",
                       metadir=os.path.join(work, "md-%s-%d" % (tag, c0)))
        if res.model_error:
            raise ModelError("RefineTrace failed on chunk %d: rc=%d\n%s" % (c0, res.rc, res.out[-3000:]))
        return c0, part, res
    total = 0
    viol = []
    with concurrent.futures.ThreadPoolExecutor(max_workers=6) as ex:
        for c0, part, res in ex.map(one, jobs):
            total += res.distinct
            viol += res.violated
            at, end, stop = {}, {}, {}
            for m in re.finditer(r'<<"AT", (\d+), (\d+)>>', res.out):
                k = int(m.group(1))
                at[k] = max(at.get(k, 1), int(m.group(2)))
            for m in re.finditer(r'<<"END", (\d+), (TRUE|FALSE), (TRUE|FALSE), (TRUE|FALSE), "(\w+)">>', res.out):
                end[int(m.group(1))] = (m.group(2) == "TRUE", m.group(3) == "TRUE", m.group(4) == "TRUE", m.group(5))
            for m in re.finditer(r'<<"STOP", (\d+), "(\w+)", (\d+)>>', res.out):
                stop[int(m.group(1))] = m.group(2)
            for j, r in enumerate(part):
                res_by_id[r["id"]] = (end.get(j + 1), at.get(j + 1, 1), stop.get(j + 1))
    return res_by_id, total, sorted(set(viol))


def stage(chk, tier, seed, rnd, bdir, work):
    n = 90 if tier == "quick" else 1200
    cases = gen_cases(n, rnd)
    cpath, opath = os.path.join(work, "rp-cases.ndjson"), os.path.join(work, "rp-out.ndjson")
    vlib.write_ndjson(cpath, cases)
    rc, out = vlib.run([os.path.join(bdir, "pass_driver"), cpath, opath], timeout=900)
    if rc == 124:
        chk.violation("pass-hang:lattice", "a real refine_mesh pass on a lattice cell did not return within the time limit (termination)", {"seed": seed})
        return
    if rc != 0:
        chk.violation("driver-crash:lattice", "pass_driver terminated with status %d\n%s" % (rc, out[-600:]))
        return
    rows = vlib.read_ndjson(opath)
    if len(rows) < len(cases):
        raise ModelError("pass_driver wrote %d records for %d cases" % (len(rows), len(cases)))
    verdicts, nstates, viol = _validate(rows, work, "real")
    if viol:
        # the model's own assurances fail along a real pass: the specification (or the design it describes) is wrong
        raise ModelError("RefinePass invariants violated along real passes: %r" % viol)
    followed, cut, drift = 0, 0, []
    for r in rows:
        end, at, stop = verdicts[r["id"]]
        if end and all(end[:3]):
            followed += 1
        elif stop == "cut" or (not r["integral"] and not end):
            cut += 1
        else:
            drift.append({"id": r["id"], "end": end, "events_matched": at - 1, "events": len(r["ops"]), "stop": stop, "outcome": r["outcome"]})
    opsn = {}
    for r in rows:
        for o in r["ops"]:
            opsn[o["op"]] = opsn.get(o["op"], 0) + 1
    outcomes = {}
    for r in rows:
        key = r["outcome"] + ("" if r["outcome"] != "done" or r["it"] < r["nedges"] else ":counter_overtook_edges")
        outcomes[key] = outcomes.get(key, 0) + 1
    chk.cov["pass_model"] = {"lattice_passes": len(rows), "of_which_on_a_cell_with_a_history": sum(1 for r in rows if r["pass"] > 0),
                             "of_which_start_with_free_slots": sum(1 for r in rows if r["pre"]["freeN"] or r["pre"]["freeF"]), "followed_to_the_end_exactly": followed, "cut_at_a_non_lattice_midpoint": cut,
                             "not_followed": len(drift), "operations": opsn, "outcomes": outcomes, "trace_states": nstates}
    chk.cov["traces_validated_against_impl"] += followed
    if drift:
        chk.cov.setdefault("design_drift", {})["D_PassModel"] = len(drift)
        vlib.log("NOTE design drift D_PassModel: %d real passes are not behaviours of spec/Refine/RefinePass (first: %s)" % (len(drift), json.dumps(drift[0])))
    if followed < len(rows) // 2 and not drift:
        raise ModelError("vacuous: only %d of %d lattice passes were followed to the end" % (followed, len(rows)))
    for need in ("split", "merge", "merge_blocked"):
        if not opsn.get(need):
            raise ModelError("vacuous: no %s in the lattice passes" % need)
    # ---- negative controls: the binding rejects a pass whose log was tampered with
    good = [r for r in rows if verdicts[r["id"]][0] and all(verdicts[r["id"]][0][:3]) and len(r["ops"]) >= 2]
    ctl = []
    c1 = json.loads(json.dumps(rnd.choice(good))); c1["ops"].pop(rnd.randrange(len(c1["ops"])))                       # a hook removed
    c2 = json.loads(json.dumps(rnd.choice(good))); o = c2["ops"][0]; o["f1"], o["f2"] = o["f2"] + 1000, o["f1"]       # a stale face id
    c3 = json.loads(json.dumps(rnd.choice(good))); c3["it"] += 1                                                       # another counter
    c4 = json.loads(json.dumps(rnd.choice(good))); u = c4["post"]["used"][0]; c4["postpos"][u][0] += 1                 # a node moved
    for i, c in enumerate((c1, c2, c3, c4)):
        c["id"] = 900000 + i
        ctl.append(c)
    cv, _, _ = _validate(ctl, work, "ctl")
    rej = sum(1 for c in ctl if not (cv[c["id"]][0] and all(cv[c["id"]][0][:3])))
    chk.cov["pass_model"]["controls_run"], chk.cov["pass_model"]["controls_rejected"] = 4, rej
    if rej != 4 and not drift:
        raise ModelError("pass model: %d of 4 tampered passes rejected" % rej)
    # ---- design level: every order of the work set on the smallest cases
    small = [r for r in rows if r["integral"] and r["pass"] == 0 and r["pre"]["nslots"] <= 6 and 1 <= r["it"] <= 3
             and verdicts[r["id"]][0] and r["outcome"] == "done"]
    small.sort(key=lambda r: (-sum(1 for o in r["ops"] if o["op"] == "split"), r["id"]))
    # the six cells of the quick tier (drawn from the first 90 cases) and, in the thorough tier, more cells whose passes have at most two
    # operations and at most one split: the number of orders explodes with the splits (three splits already take TLC minutes per cell,
    # four an hour)
    nsplit = lambda r: sum(1 for o in r["ops"] if o["op"] == "split")
    pick = [r for r in small if r["id"] < 910][:6]
    if tier != "quick":
        pick += [r for r in small if r not in pick and r["it"] <= 2 and nsplit(r) <= 1][:14]
    if len(pick) < 3:
        raise ModelError("vacuous: %d small passes for the exploration of all orders" % len(pick))
    spath = os.path.join(work, "rp-small.ndjson")
    vlib.write_ndjson(spath, [{"nn": r["pre"]["nslots"], "tris": r["pre"]["tri"], "pos": r["prepos"], "band": r["band"]} for r in pick])
    res = vlib.tlc(SPEC, "RefinePassMC", "Refine_any.cfg", env={"CASES": spath}, timeout=1500 if tier == "quick" else 3000, xmx="12g", cont=False)
    chk.add_tlc("Refine/Refine_any.cfg", res)
    if res.is_violation:
        chk.violation("design:pass:" + ",".join(res.violated), "TLC: spec/Refine/RefinePass violates " + ",".join(res.violated) + "\n" + res.out[-2500:])
        return
    vlib.tlc_expect_ok(res, "RefinePass (every order of the work set)")
    fins = {}
    for m in re.finditer(r'<<"FIN", (\d+), "(\w+)", (\d+), (\d+), (\d+)>>', res.out):
        fins.setdefault(int(m.group(1)), set()).add((m.group(2), int(m.group(3))))
    chk.cov["pass_model"]["all_orders"] = {"cases": len(pick), "states": res.distinct,
                                           "ways_to_end_per_case": sorted(len(v) for v in fins.values()),
                                           "ends": sorted({e[0] for v in fins.values() for e in v})}
