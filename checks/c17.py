"""C17 -- malformed input files are rejected with an exception, never a crash.
Fault enumeration driven by the format specifications: spec/Io/VtkFaults enumerates structured faults of a cell-data file (TLC checks
that the base files are well formed and that every fault breaks the format's consistency predicate -> verdict 'reject'); spec/Io/Params
(configuration Params_c17) enumerates empty / non-numeric / overflowing values for every XML tag.  On top, token- and byte-level faults
of both files (delete, duplicate, replace by negative / huge / non-numeric / empty, section removal and reordering, truncation at many
offsets).  Every mutant is given to the real start-up path (simulation_initializer under try/catch(std::exception), as main does) in a
child process with CPU / memory / wall-clock limits.  Holds on a mutant iff the outcome is 'completed' or 'std_exception', and it is an
exception when the verdict is 'reject'."""
import concurrent.futures, json, os, random, re, shutil, subprocess
import vlib, c18
from vlib import Check, ModelError

SPEC = os.path.join(vlib.ROOT, "spec", "Io")
UNIT = 1e-6


def render_vtk(f, extra_fields=True):
    """bytes of an abstract file record of spec VtkFormat (possibly inconsistent on purpose)"""
    out = ["# vtk DataFile Version 4.2", "vtk output", "ASCII", "DATASET UNSTRUCTURED_GRID", "POINTS %d float" % f["npoints"]]
    nums = ["%.4e" % (k * UNIT) for tri in f["coords"] for k in tri]
    out += [" ".join(nums[i:i + 9]) for i in range(0, len(nums), 9)]
    out += ["", "", "CELLS %d %d" % (f["ncells"], f["nints"])]
    out += [" ".join(str(x) for x in row) + " " for row in f["rows"]]
    out += ["", "CELL_TYPES %d" % f["ntypes"]] + [str(x) for x in f["ctypes"]]
    out += ["", "CELL_DATA %d" % f["cdn"], "FIELD FieldData 2", "cell_id 1 %d int" % f["cdn"], " ".join(str(i) for i in range(f["cdn"])),
            "cell_type_id 1 %d int" % f["cdn"], " ".join(str(x) for x in f["typeids"]), ""]
    return "\n".join(out)


def base_xml(mesh_path, rnd, triangulate=0):
    xml = c18.render([3, 1], {"sec": "none", "c": 0, "f": 0, "t": 1, "kind": "omit"}, rnd)
    xml = xml.replace("name_1<", mesh_path + "<")
    xml = re.sub(r"<perform_initial_triangulation>\d", "<perform_initial_triangulation>%d" % triangulate, xml)
    ids = iter([0, 1])
    xml = re.sub(r"<global_cell_id>\d+</global_cell_id>", lambda m: "<global_cell_id>%d</global_cell_id>" % next(ids), xml)
    xml = re.sub(r"<min_edge_length>[^<]*</min_edge_length>", "<min_edge_length>5e-7</min_edge_length>", xml)
    return xml


def outlier(vtk):
    """a mesh whose extent is more than 1000 times the base geometry's (2.2e-5): one coordinate far away"""
    m = re.search(r"POINTS\s+\d+\s+\w+(.*?)(CELLS|$)", vtk, flags=re.S)
    if not m:
        return False
    vals = []
    for t in m.group(1).split():
        try:
            vals.append(abs(float(t)))
        except ValueError:
            pass
    return bool(vals) and max(vals) > 2.2e-2


def token_mutants(text, rnd, n, kind):
    """token-level faults of a file: delete / duplicate / replace a token, remove or swap sections, truncate"""
    toks = re.findall(r"\S+|\s+", text)
    idx = [i for i, t in enumerate(toks) if not t.isspace()]
    out = []
    repl = ["-1", "99999999", "1e20", "abc", "", "-0.0", "nan", "4294967296", "1e-400", "\x00", "%s", "9" * 40]
    for _ in range(n):
        i = rnd.choice(idx)
        how = rnd.choice(["delete", "dup", "replace", "replace", "replace"])
        t2 = list(toks)
        if how == "delete":
            t2[i] = ""
        elif how == "dup":
            t2[i] = toks[i] + " " + toks[i]
        else:
            t2[i] = rnd.choice(repl)
        out.append(("%s:%s:%s@%d" % (kind, how, toks[i][:12], i), "".join(t2)))
    step = max(1, len(text) // (n // 2 + 1))
    for cut in range(0, len(text), step):
        out.append(("%s:truncate@%d" % (kind, cut), text[:cut]))
    if kind == "vtk":
        secs = re.split(r"(?=^POINTS|^CELLS|^CELL_TYPES|^CELL_DATA)", text, flags=re.M)
        for j in range(1, len(secs)):
            out.append(("vtk:remove_section%d" % j, "".join(secs[:j] + secs[j + 1:])))
            if j + 1 < len(secs):
                sw = list(secs); sw[j], sw[j + 1] = sw[j + 1], sw[j]
                out.append(("vtk:swap_sections%d" % j, "".join(sw)))
    else:
        for tag in ("numerical_parameters", "cell_types", "face_types", "cell_type"):
            out.append(("xml:unclosed_%s" % tag, text.replace("</%s>" % tag, "", 1)))
            out.append(("xml:remove_%s" % tag, re.sub(r"<%s>.*?</%s>" % (tag, tag), "", text, count=1, flags=re.S)))
    return out


def run(tier, seed, replay=None):
    chk = Check("C17", tier, seed, level="fault_enumeration")
    bdir = vlib.build("m1d0", ["startup_driver"])
    work = vlib.scratch("c17")
    rnd = random.Random(seed)
    mutants = []       # (key, verdict, xml text, vtk text)
    # ---- structured mesh-file faults enumerated by TLC
    dump = os.path.join(work, "vf")
    res = vlib.tlc(SPEC, "VtkFaults", "VtkFaults.cfg", dump=dump, timeout=1200, workers=8)
    chk.add_tlc("Io/VtkFaults", res)
    if res.is_violation or res.model_error:
        raise ModelError("VtkFaults: %s\n%s" % (res.violated, res.out[-2000:]))
    mesh_path = os.path.join(work, "MESH")
    xml0 = base_xml(mesh_path, rnd)
    base_vtk = None
    for st in vlib.parse_dump(dump + ".dump"):
        f = vlib.to_json(st["mut"])
        verdict = "either" if st["op"] == "none" else "reject"
        types = [c["type"] for c in st["pop"]]
        nm = [c["mesh"]["nslots"] for c in st["pop"]]
        mutants.append(("vtkspec:%s%s@%d:%s%s" % (st["op"], ("=%d" % st["arg"]) if st["op"] == "node_wrap" else "", st["at"], nm, types), verdict, xml0, render_vtk(f)))
        if st["op"] == "none" and len(st["pop"]) == 2 and base_vtk is None:
            base_vtk = render_vtk(f)
    # ---- XML value faults enumerated by TLC from the parameter schema
    dump2 = os.path.join(work, "pf")
    res2 = vlib.tlc(SPEC, "ParamsMC", "Params_c17.cfg", dump=dump2, timeout=1200, workers=8)
    chk.add_tlc("Io/ParamsMC(c17)", res2)
    if res2.is_violation or res2.model_error:
        raise ModelError("ParamsMC c17: %s\n%s" % (res2.violated, res2.out[-2000:]))
    seen = set()
    for st in vlib.parse_dump(dump2 + ".dump"):
        ft = st["fault"]
        if tuple(st["shape"]) != (2, 1) or ft["sec"] == "none":
            continue
        key = (ft["sec"], ft["c"], ft["f"], ft["t"], ft["kind"])
        if key in seen:
            continue
        seen.add(key)
        names = c18.NUM if ft["sec"] == "num" else c18.CELL if ft["sec"] == "cell" else c18.FACE
        kinds = c18.KIND_NUM if ft["sec"] == "num" else c18.KIND_CELL if ft["sec"] == "cell" else c18.KIND_FACE
        tag, kd = names[ft["t"] - 1], kinds[ft["t"] - 1]
        val = {"empty": "", "text": "abc", "huge": "1e999999"}[ft["kind"]]
        # the occurrence of the tag: the c-th cell type / f-th face type
        xml = base_xml(mesh_path, random.Random(seed), 0)
        occ = [m for m in re.finditer(r"<%s>[^<]*</%s>" % (tag, tag), xml)]
        n_occ = 0 if ft["sec"] == "num" else (ft["c"] - 1 if ft["sec"] == "cell" else sum([3, 1][:ft["c"] - 1]) + ft["f"] - 1)
        if n_occ >= len(occ):
            continue
        m = occ[n_occ]
        xml = xml[:m.start()] + "<%s>%s</%s>" % (tag, val, tag) + xml[m.end():]
        verdict = "reject" if st["verdict"] == "reject" else "either"       # from spec/Io/Params.Verdict
        if tag == "input_mesh_file_path":
            verdict = "reject"      # the mesh file cannot be found
        mutants.append(("xmlspec:%s:%s:c%d:f%d" % (tag, ft["kind"], ft["c"], ft["f"]), verdict, xml, base_vtk))
    # ---- thousands of malformed cells at once (every cell names an undefined cell type): the cells are initialised in parallel, so
    # many threads report a rejection at the same moment; the start-up must still end with one exception, every time
    nbad = 3000
    pts, rows_ = [], []
    for i in range(nbad):
        o = 4 * i
        x = 3.0 * (i % 60); y = 3.0 * ((i // 60) % 60)
        pts += [(x + 1e-5, y, 0.0), (x, y + 1e-5, 0.0), (x, y, 1e-5), (x, y, 0.0)]
        rows_.append([17, 4, 3, o, o + 2, o + 1, 3, o, o + 1, o + 3, 3, o + 1, o + 2, o + 3, 3, o, o + 3, o + 2])
    many = {"npoints": 4 * nbad, "coords": pts, "ncells": nbad, "nints": 18 * nbad, "rows": rows_, "ntypes": nbad, "ctypes": [42] * nbad, "cdn": nbad, "typeids": [3] * nbad}
    for r in range(4 if tier == "quick" else 16):
        mutants.append(("vtkmany:undefined_type_x%d#%d" % (nbad, r), "reject", xml0, render_vtk(many)))
    # ---- token / byte level faults of both files (crash-freedom only)
    nt = 120 if tier == "quick" else 1500
    for key, txt in token_mutants(base_vtk, rnd, nt, "vtk"):
        mutants.append((key, "either", xml0, txt))
    for key, txt in token_mutants(xml0, rnd, nt, "xml"):
        mutants.append((key, "either", txt, base_vtk))
    xml_tri = base_xml(mesh_path, random.Random(seed), 1)       # with the initial triangulation enabled
    for key, txt in token_mutants(base_vtk, rnd, 12 if tier == "quick" else 120, "vtk"):
        mutants.append((key + ":tri", "either", xml_tri, txt))
    if replay:
        with open(replay) as f:
            r = json.load(f)["case"]
        mutants = [(r["key"], r["verdict"], r["xml"], r["vtk"])]

    def one(job):
        i, (key, verdict, xml, vtk) = job
        d = os.path.join(work, "m%d" % i)
        os.makedirs(d, exist_ok=True)
        mp, xp = os.path.join(d, "mesh.vtk"), os.path.join(d, "p.xml")
        with open(mp, "w", errors="surrogateescape") as f:
            f.write(vtk)
        with open(xp, "w", errors="surrogateescape") as f:
            f.write(xml.replace(mesh_path, mp))
        try:
            p = subprocess.run([os.path.join(bdir, "startup_driver"), xp], capture_output=True, text=True, errors="replace", timeout=60, env=dict(os.environ, OMP_NUM_THREADS=("4" if key.startswith("vtkmany") else "2")))
            last = ([l for l in p.stdout.splitlines() if l.startswith("OUTCOME")] or [""])[-1]
            if p.returncode == 0 and last.startswith("OUTCOME completed"):
                oc = "completed"
            elif p.returncode == 0 and last.startswith("OUTCOME std_exception"):
                oc = "std_exception"
            elif p.returncode == 0 and last.startswith("OUTCOME other_exception"):
                oc = "other_exception"
            elif p.returncode < 0:
                oc = "signal%d" % (-p.returncode)
            else:
                oc = "exit%d" % p.returncode
            detail = (last + " | " + p.stderr[-200:]).strip()
        except subprocess.TimeoutExpired:
            oc, detail = "timeout", ""
        shutil.rmtree(d, ignore_errors=True)
        return oc, detail

    with concurrent.futures.ThreadPoolExecutor(max_workers=8) as ex:
        outcomes = list(ex.map(one, enumerate(mutants)))
    hist = {}
    for (key, verdict, xml, vtk), (oc, detail) in zip(mutants, outcomes):
        hist[oc] = hist.get(oc, 0) + 1
        cls = key.split(":")[0] + ":" + key.split(":")[1].split("@")[0]
        if oc not in ("completed", "std_exception") and key.endswith(":tri") and outlier(vtk):
            chk.violation("crash:coordinate_outlier_with_initial_triangulation", "")
        elif oc not in ("completed", "std_exception"):
            chk.violation("crash:%s" % key, "start-up on mutant %s ended with %s (%s)" % (key, oc, detail[:300]), {"key": key, "verdict": verdict, "xml": xml, "vtk": vtk})
        elif verdict == "reject" and oc == "completed":
            # the class of the fault identifies a listed finding, the instance a new one
            kf = "undiagnosed:%s" % cls
            if kf in chk.known:
                chk.violation(kf, "")
            else:
                chk.violation("undiagnosed:%s" % key, "start-up completed on mutant %s which the format specification says is not well formed" % key,
                              {"key": key, "verdict": verdict, "xml": xml, "vtk": vtk})
    chk.cov["evaluations"] = len(mutants)
    chk.cov["distinct_nontrivial"] = len({(x, v) for _, _, x, v in mutants}) - 1
    chk.cov["outcomes"] = hist
    chk.cov["by_source"] = {"vtk_structured_from_spec": sum(1 for m in mutants if m[0].startswith("vtkspec")), "xml_values_from_schema": sum(1 for m in mutants if m[0].startswith("xmlspec")),
                            "token_and_byte_level": sum(1 for m in mutants if not m[0].startswith(("vtkspec", "xmlspec")))}
    chk.cov["rule"] = ("mutants of a valid 2-cell mesh file and a valid 2-cell-type parameter file: structured faults enumerated by TLC from spec/Io/VtkFaults and Params (verdict "
                       "'reject'), plus seeded token-level faults, section removal / reordering and truncations (verdict 'either'); each run in a child process with 20 s CPU, 3 GB, 60 s limits")
    for (key, verdict, xml, vtk), (oc, detail) in list(zip(mutants, outcomes))[:: max(1, len(mutants) // 5)][:5]:
        chk.sample({"mutant": key, "verdict": verdict, "outcome": oc, "detail": detail[:120]})
    if hist.get("std_exception", 0) < 10 or hist.get("completed", 0) < 2:
        raise ModelError("vacuous fault enumeration: %r" % hist)
    chk.assumptions += ["fault_enumeration over the mutation operators above; arbitrary generated byte strings (coverage-guided fuzzing) are a different technique and are not done",
                        "a memory error that does not crash the child process is not visible here (that is C10's domain)"]
    shutil.rmtree(work, ignore_errors=True)
    return chk.finish()
