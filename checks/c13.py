"""C13 -- initial surface reconstruction returns a faithful closed mesh or fails cleanly.
spec/Mesh/InitProtocol is the accept / retry / give-up protocol (TLC: at most ten attempts, a cell is handed over only after a validated
attempt, the protocol always ends).  Real simulation_initializer runs on generated closed polyhedra (boxes, non-convex voxel solids, spheres,
ellipsoids, prisms; polygonal and triangulated; consistent and mixed windings; l_min/size from 0.3 to 0.08; initial triangulation on and
off; open and non-manifold inputs as negatives) are observed through hook H8; TLC (InitTrace) validates the protocol of every run, every C01
predicate of spec/Mesh on every cell handed to the solver, and requires the driver's verdicts: Poisson samples pairwise >= l_min apart,
volume / bounding box / node-to-surface distance within resolution dependent tolerances."""
import json, os, random, shutil
import vlib
from vlib import Check, ModelError

SPEC = os.path.join(vlib.ROOT, "spec", "Mesh")
P_INV = ["P_Protocol", "P_HandedIsManifold", "P_HandedEdgeIndex", "P_Faithful", "P_PoissonSpacing"]


def cases(tier, seed):
    rnd = random.Random(seed)
    out = []
    def add(shape, r, poly=True, flip=False, tri=True, **kw):
        c = {"shape": shape, "dims": [1, 1, 1], "poly": poly, "flip": flip, "triangulate": tri, "lmin_ratio": r, "stretch": [1, 1, 1],
             "pos": [rnd.choice([0.0, 3e-5, -1e-3]) for _ in range(3)], "scale": rnd.choice([1e-5, 1.0, 1.5e-6, 4e-7, 250.0]), "seed": seed + len(out),
             "vtol": max(0.1, 3 * r), "btol": 1.0, "stol": 1.0, "closed": shape not in ("open", "nonmanifold")}
        c.update(kw)
        out.append(c)
    ratios = [0.3, 0.15] if tier == "quick" else [0.3, 0.2, 0.15, 0.1, 0.08]
    for r in ratios:
        for poly in (True, False):
            for flip in (False, True):
                add("box", r, poly, flip, dims=[2, 1, 1])
                add("voxels", r, poly, flip, voxels=[[0, 0, 0], [1, 0, 0], [0, 1, 0], [0, 0, 1]])
        add("sphere", r, False, False, level=2)
        add("sphere", r, False, True, level=2, stretch=[1.6, 1.0, 0.8])
        add("prism", r, True, False)
        add("box", r, True, False, dims=[1, 1, 3])
    # initial triangulation disabled: the triangulated input is taken as it is
    add("sphere", 0.2, False, False, tri=False, level=2)
    add("sphere", 0.2, False, True, tri=False, level=1)
    add("box", 0.2, False, True, tri=False, dims=[2, 2, 1])
    add("box", 0.2, True, False, tri=False, dims=[1, 1, 1])        # polygonal input without triangulation: must be refused
    # nucleus-sized and very large cells given inside-out (the orientation repair must not depend on the absolute size)
    add("box", 0.2, False, True, tri=False, dims=[1, 1, 1], scale=1e-6)
    add("box", 0.3, True, True, dims=[1, 1, 1], scale=2e-6)
    add("sphere", 0.2, False, True, tri=False, level=1, scale=5e-7)
    add("box", 0.3, True, True, dims=[1, 2, 1], scale=4e3)
    # negatives: open and non-manifold inputs
    add("open", 0.2, True, False)
    add("open", 0.2, False, False, tri=False)
    add("nonmanifold", 0.2, False, False, tri=False)
    add("nonmanifold", 0.2, True, False)
    if tier == "thorough":
        for n in range(60):
            add(rnd.choice(["box", "voxels", "sphere"]), rnd.choice([0.25, 0.15, 0.1]), rnd.random() < 0.5, rnd.random() < 0.5, dims=[rnd.randint(1, 3) for _ in range(3)],
                voxels=[[0, 0, 0]] + rnd.sample([[1, 0, 0], [0, 1, 0], [0, 0, 1], [1, 1, 0], [1, 0, 1]], 2), level=rnd.choice([1, 2]), stretch=[rnd.uniform(0.8, 2.0), 1.0, rnd.uniform(0.7, 1.2)])
    for i, c in enumerate(out):
        c["k"] = i + 1
    return out


def run(tier, seed, replay=None):
    chk = Check("C13", tier, seed)
    bdir = vlib.build("m1d0", ["init_driver"])
    work = vlib.scratch("c13")
    if replay:
        with open(replay) as f:
            cs = [json.load(f)["case"]["case"]]
        cs[0]["k"] = 1
    else:
        res = vlib.tlc(SPEC, "InitProtocol", "InitProtocol.cfg", timeout=600, workers=4)
        chk.add_tlc("Mesh/InitProtocol", res)
        if res.is_violation:
            chk.violation("design:" + ",".join(res.violated), "TLC: the initialisation protocol violates " + ",".join(res.violated))
            return chk.finish()
        vlib.tlc_expect_ok(res, "InitProtocol")
        cs = cases(tier, seed)
    cp, op = os.path.join(work, "cases.ndjson"), os.path.join(work, "out.ndjson")
    vlib.write_ndjson(cp, cs)
    rc, out = vlib.run([os.path.join(bdir, "init_driver"), cp, op, work], timeout=3000, env={"OMP_NUM_THREADS": "4"})
    rows = vlib.read_ndjson(op) if os.path.exists(op) else []
    if rc != 0 or len(rows) != len(cs):
        bad = cs[len(rows)] if len(rows) < len(cs) else None
        chk.violation("crash:%s" % json.dumps(bad), "simulation_initializer crashed / terminated (status %d) on %s" % (rc, json.dumps(bad)), {"case": bad})
        return chk.finish()
    recs = []
    for c, r in zip(cs, rows):
        r = dict(r)
        r["closed_input"] = c["closed"]
        for key in ("outward", "vol_close", "bbox_close", "on_surface", "reported_vol_ok", "ids_ok", "same_object"):
            r.setdefault(key, True)
        r.setdefault("eset", [])
        r.setdefault("mesh", {"nslots": 0, "fslots": 0, "used": [], "tri": [], "ftype": [], "nrm": [], "freeN": [], "freeF": []})
        recs.append(r)
    n, bad = vlib.tlc_validate_records(SPEC, "InitTrace", "InitTrace.cfg", recs, chunk=12, par=4, workers=4)
    chk.cov["states"] += n
    chk.cov["transitions"] += n
    for inv, idxs in sorted(bad.items()):
        for i in idxs:
            r = rows[i]
            chk.violation("impl:%s:%s" % (inv, json.dumps({k: v for k, v in cs[i].items() if k not in ("k", "seed")})), "initialisation of %s violates %s: outcome %s, attempts %s, %s" % (
                json.dumps(cs[i]), inv, r["outcome"], [a["result"] for a in r["attempts"]], r.get("num", "")), {"case": cs[i], "invariant": inv})
    # tissues of four cells triangulated in parallel (4 threads): an impossible cell at every list position, and an all-good control
    if not replay:
        mp = os.path.join(work, "multi.ndjson")
        rc, out = vlib.run([os.path.join(bdir, "init_driver"), "multi", mp, work], timeout=1200, env={"OMP_NUM_THREADS": "4"})
        mrows = vlib.read_ndjson(mp) if os.path.exists(mp) else []
        if rc != 0 or len(mrows) != 5:
            chk.violation("crash:multi", "initialisation of a four-cell tissue crashed / terminated (status %d) after %d of 5 tissues" % (rc, len(mrows)), {"multi": True})
        else:
            nm, mbad = vlib.tlc_validate_records(SPEC, "InitMultiTrace", "InitMultiTrace.cfg", mrows, chunk=10, par=1, workers=1)
            chk.cov["states"] += nm
            chk.cov["transitions"] += nm
            n += nm
            for inv, idxs in sorted(mbad.items()):
                for i in idxs:
                    chk.violation("impl:%s:multi:%d" % (inv, mrows[i]["bad_position"]), "four cells triangulated in parallel, the impossible one at list position %d: %s violated; %s" % (
                        mrows[i]["bad_position"], inv, json.dumps(mrows[i])), {"multi_record": mrows[i]})
    handed = sum(1 for r in rows if r["handed"])
    gave_up = sum(1 for r in rows if r["outcome"] == "initialization_exception")
    chk.cov["traces_validated_against_impl"] = n
    chk.cov["evaluations"] = n
    chk.cov["distinct_nontrivial"] = len({json.dumps({k: v for k, v in c.items() if k not in ("k", "seed")}) for c in cs})
    chk.cov["outcomes"] = {"handed_to_solver": handed, "gave_up_by_initialization_exception": gave_up, "retries_used": sum(len(r["attempts"]) - 1 for r in rows)}
    chk.cov["rule"] = "one run per (shape, polygonal or triangulated, consistent or mixed windings, l_min/size, triangulation on/off, position, scale, seed); negatives: open and non-manifold inputs"
    for r, c in list(zip(rows, cs))[:: max(1, len(cs) // 3)][:3]:
        chk.sample({"case": c, "outcome": r["outcome"], "attempts": [a["result"] for a in r["attempts"]], "num": r.get("num")})
    if not replay:
        if handed < 8 or gave_up < 1:
            raise ModelError("vacuous: %d cells handed over, %d clean failures" % (handed, gave_up))
        good = [r for r in recs if r["handed"]]
        c1 = json.loads(json.dumps(good[0])); j = next(i for i, t in enumerate(c1["mesh"]["tri"]) if t); c1["mesh"]["tri"][j] = c1["mesh"]["tri"][j][::-1]
        c2 = json.loads(json.dumps(good[1])); c2["attempts"] = [{"i": 0, "result": "accepted"}, {"i": 1, "result": "accepted"}]
        _, cbad = vlib.tlc_validate_records(SPEC, "InitTrace", "InitTrace.cfg", [c1, c2], chunk=5, par=1, workers=2)
        rej = int(0 in cbad.get("P_HandedIsManifold", [])) + int(1 in cbad.get("P_Protocol", []))
        chk.cov["controls_run"], chk.cov["controls_rejected"] = 2, rej
        if rej != 2:
            raise ModelError("negative controls: %d of 2 rejected %r" % (rej, cbad))
    chk.assumptions += ["the reconstruction is randomised geometry: the specification contributes the protocol and the topological oracle; coverage is a sample of shapes x seeds",
                        "tolerances (fixed per case, not tuned at run time): volume max(10%, 3 l_min/size), bounding box and node-to-surface distance one l_min, Poisson spacing l_min (1e-9); "
                        "node-to-surface distance by a point-triangle routine independent of the repository's kernel",
                        "a clean failure (intialization_exception after ten attempts) satisfies the property, so a change that makes every reconstruction fail is only caught by the vacuity guard"]
    shutil.rmtree(work, ignore_errors=True)
    return chk.finish()
