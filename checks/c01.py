"""C01 -- cell surfaces stay closed, consistently oriented 2-manifolds under remeshing.
spec/Mesh models the surface (slot-indexed triangles, free lists, cached-normal flag) and split / merge / swap /
rebase / refresh as the code performs them; TLC explores every chain of operations from the seed meshes and checks the
manifold / bookkeeping / normal predicates in every state.  The real operations are then executed in every order (and
in long random chains, and inside real refine_mesh passes) and every executed transition is validated by TLC
(MeshTrace): the C01 predicates on the real cell after the operation, and the operation against the spec's
transition function."""
import json, os, random, shutil
import vlib
from vlib import Check, ModelError

SPEC = os.path.join(vlib.ROOT, "spec", "Mesh")
P_INV = {"P_NoThrow", "P_NoRepeat", "P_LiveNodes", "P_Closed", "P_Euler", "P_Simple", "P_Bookkeeping", "P_EdgeIndex",
         "P_NormalSide", "P_Outward", "P_Rebase"}


def describe(r):
    return "%s(a=%s,b=%s,f1=%s,f2=%s) on %s" % (r["op"], r["a"], r["b"], r["f1"], r["f2"], json.dumps(r["pre"]["tri"]))


def validate_and_report(chk, rows, tag):
    n, bad = vlib.tlc_validate_records(SPEC, "MeshTrace", "MeshTrace.cfg", rows, chunk=150, par=4, workers=4)
    drift = {}
    for inv, idxs in sorted(bad.items()):
        for i in idxs:
            r = rows[i]
            if inv in P_INV:
                key = "impl:%s:%s:%s" % (inv, r["op"], json.dumps([r["a"], r["b"], r["f1"], r["f2"], r["pre"]["tri"], r["pre"]["nrm"]]))
                chk.violation(key, "%s: after the real %s the cell violates %s; post = %s" % (tag, describe(r), inv, json.dumps(r["post"])),
                              {"record": r, "invariant": inv})
            else:
                drift.setdefault(inv, []).append(i)
    return n, drift


def run(tier, seed, replay=None):
    chk = Check("C01", tier, seed)
    bdir = vlib.build("m1d0", ["mesh_driver", "refine_driver"])
    work = vlib.scratch("c01")
    rnd = random.Random(seed)

    if replay:
        with open(replay) as f:
            rows = [json.load(f)["case"]["record"]]
        n, drift = validate_and_report(chk, rows, "replay")
        chk.cov["evaluations"] = 1
        chk.cov["distinct_nontrivial"] = 2
        return chk.finish()

    # 1. TLC: every chain of operations up to the bound keeps the invariants (design level)
    cfg = "Mesh_quick.cfg" if tier == "quick" else "Mesh_thorough.cfg"
    res = vlib.tlc(SPEC, "MeshMC", cfg, timeout=3000, coverage=False, xmx="12g")
    chk.add_tlc("Mesh/" + cfg, res)
    if res.is_violation:
        chk.violation("design:" + ",".join(res.violated), "TLC: spec/Mesh violates " + ",".join(res.violated) + "\n" + res.out[-2500:])
        return chk.finish()
    vlib.tlc_expect_ok(res, "Mesh")
    # long chains with slot reuse: simulation (thorough tier; every step enumerates all successors, so it is costly)
    if tier == "thorough":
        sres = vlib.tlc(SPEC, "MeshMC", "Mesh_sim.cfg", simulate="num=60", depth=15, workers=16, timeout=3000,
                        extra=["-seed", str(seed)])
        if sres.is_violation:
            chk.violation("design-sim:" + ",".join(sres.violated), "TLC simulation: spec/Mesh violates " + ",".join(sres.violated) + "\n" + sres.out[-2500:])
            return chk.finish()
        if sres.rc != 0:
            raise ModelError("TLC simulation failed rc=%d\n%s" % (sres.rc, sres.out[-2000:]))
        chk.cov["tlc_runs"].append({"model": "Mesh/Mesh_sim.cfg", "mode": "simulate num=60 x 16 workers, depth 15", "rc": sres.rc})
    vlib.log("stage: TLC done at %.0fs" % (__import__("time").time() - chk.t0))
    # 2. the real operations: exhaustive chains, random long chains, real refinement passes
    logs = []
    d = 2 if tier == "quick" else 3
    p1 = os.path.join(work, "dfs.ndjson")
    rc, out = vlib.run([os.path.join(bdir, "mesh_driver"), "dfs", str(d), p1], timeout=3000)
    if rc != 0:
        chk.violation("driver-crash:dfs", "mesh_driver dfs %d terminated with status %d (crash inside a real remeshing operation)\n%s" % (d, rc, out[-600:]))
        return chk.finish()
    dfs_rows = vlib.read_ndjson(p1)
    if tier == "thorough" and len(dfs_rows) > 40000:
        keep = dfs_rows[:3000] + rnd.sample(dfs_rows[3000:], 37000)
        dfs_rows = keep
    p2 = os.path.join(work, "walk.ndjson")
    nw, ln = (20, 20) if tier == "quick" else (600, 40)
    rc, out = vlib.run([os.path.join(bdir, "mesh_driver"), "walk", str(nw), str(ln), str(seed), p2], timeout=3000)
    if rc != 0:
        chk.violation("driver-crash:walk", "mesh_driver walk terminated with status %d\n%s" % (rc, out[-600:]))
        return chk.finish()
    walk_rows = vlib.read_ndjson(p2)
    p3 = os.path.join(work, "pass.ndjson")
    npass, maxrec = (60, 380) if tier == "quick" else (2000, 5000)
    rc, out = vlib.run([os.path.join(bdir, "refine_driver"), "c01", str(npass), str(seed), p3, str(maxrec), "60" if tier == "quick" else "150"], timeout=3000)
    if rc != 0:
        chk.violation("driver-crash:pass", "refine_driver terminated with status %d\n%s" % (rc, out[-600:]))
        return chk.finish()
    pass_rows = vlib.read_ndjson(p3)

    # a mesh with more than 65536 node slots (index arithmetic on pairs of node ids, counters, offsets has room to wrap there)
    p4 = os.path.join(work, "big.ndjson")
    rc, out = vlib.run([os.path.join(bdir, "mesh_driver"), "big", p4, "7"], timeout=1200)
    big_rows = vlib.read_ndjson(p4) if os.path.exists(p4) else []
    if rc != 0 or len(big_rows) < 1:
        chk.violation("driver-crash:big", "mesh_driver big terminated with status %d after %d records\n%s" % (rc, len(big_rows), out[-400:]))
        return chk.finish()
    nb, bbad = vlib.tlc_validate_records(SPEC, "BigMeshTrace", "BigMeshTrace.cfg", big_rows, chunk=10, par=1, workers=2)
    chk.cov["states"] += nb
    chk.cov["transitions"] += nb
    for inv, idxs in sorted(bbad.items()):
        for i in idxs:
            r = big_rows[i]
            if inv == "P_BigIsBig":
                if r.get("threw") == "" and r["op"] == "big_init":
                    raise ModelError("the big mesh is not big: %r" % r)
                continue
            chk.violation("impl:%s:%s" % (inv, r["op"]), "mesh of %d node slots / %d faces, step %s: %s violated; verdicts %s" % (r["nslots"], r["nf"], r["op"], inv, json.dumps(r)), {"big_record": r})
    chk.cov["big_mesh_records"] = len(big_rows)
    vlib.log("stage: drivers done (%d + %d + %d records) at %.0fs" % (len(dfs_rows), len(walk_rows), len(pass_rows), __import__("time").time() - chk.t0))
    total, drift_all = 0, {}
    for tag, rows in (("exhaustive chains", dfs_rows), ("random chains", walk_rows), ("refine_mesh passes", pass_rows)):
        if not rows:
            raise ModelError("no records for " + tag)
        n, drift = validate_and_report(chk, rows, tag)
        total += n
        for k, v in drift.items():
            drift_all[k] = drift_all.get(k, 0) + len(v)
        chk.cov.setdefault("records", {})[tag] = len(rows)
        for r in rows[:: max(1, len(rows) // 2)][:2]:
            chk.sample({"source": tag, "op": r["op"], "args": [r["a"], r["b"], r["f1"], r["f2"]], "pre_tri": r["pre"]["tri"], "post_tri": r["post"]["tri"]})
    all_rows = dfs_rows + walk_rows + pass_rows
    chk.cov["traces_validated_against_impl"] = total
    chk.cov["evaluations"] = total
    chk.cov["distinct_nontrivial"] = len({json.dumps([r["op"], r["a"], r["b"], r["pre"]["tri"], r["pre"]["freeF"], r["pre"]["freeN"]]) for r in all_rows if r["op"] not in ("refresh",)})
    ops = {}
    for r in all_rows:
        ops[r["op"]] = ops.get(r["op"], 0) + 1
    chk.cov["ops"] = ops
    for need in ("split", "merge", "merge_blocked", "swap", "rebase", "refresh"):
        if not ops.get(need):
            raise ModelError("vacuous: no real %s transition was executed" % need)
    chk.cov["rule"] = ("one record per transition executed by the real code: every chain of <= %d operations from tetrahedron/octahedron/bipyramid, "
                       "random chains of up to %d operations (slot reuse, compaction), and every split/merge/swap performed inside real refine_mesh "
                       "passes on randomly displaced spheres; distinct = distinct (operation, arguments, pre-mesh)" % (d, ln))
    if drift_all:
        vlib.log("NOTE design drift (the real operation differs from spec/Mesh's transition function while every C01 predicate holds): %s" % drift_all)
    chk.cov["design_drift"] = drift_all

    vlib.log("stage: validation done at %.0fs" % (__import__("time").time() - chk.t0))
    # 3. negative controls
    ctl = []
    base = [r for r in all_rows if r["op"] == "split"]
    r1 = json.loads(json.dumps(rnd.choice(base)))           # a face id in the edge index is corrupted
    r1["eset"][0][2] = r1["eset"][0][3]
    r2 = json.loads(json.dumps(rnd.choice(base)))           # one triangle of the post-state has its winding reversed
    j = next(i for i, t in enumerate(r2["post"]["tri"]) if t)
    r2["post"]["tri"][j] = r2["post"]["tri"][j][::-1]
    r3 = json.loads(json.dumps(rnd.choice(base)))           # free list loses an entry
    r3["post"]["freeF"] = r3["post"]["freeF"] + [0]
    _, cbad = vlib.tlc_validate_records(SPEC, "MeshTrace", "MeshTrace.cfg", [r1, r2, r3], chunk=10, par=1, workers=2)
    rej = int(0 in cbad.get("P_EdgeIndex", [])) + int(1 in cbad.get("P_Closed", [])) + int(2 in cbad.get("P_Bookkeeping", []))
    # spec-level controls: the designs before the fixes of F2 / F3 must be refuted by TLC
    c2 = vlib.tlc(SPEC, "MeshMC", "Mesh_prefix_F2.cfg", timeout=1200, xmx="12g")
    c3 = vlib.tlc(SPEC, "MeshMC", "Mesh_prefix_F3.cfg", timeout=600)
    rej += int(bool(c2.violated)) + int("Inv_Simple" in c3.violated)
    chk.cov["controls_run"], chk.cov["controls_rejected"] = 5, rej
    if rej != 5:
        raise ModelError("negative controls: %d of 5 rejected (%r, %r, %r)" % (rej, cbad, c2.violated, c3.violated))

    chk.assumptions += ["between a refresh of the normals and the next remeshing operation no triangle is geometrically inverted (the solver's regime); "
                        "the drivers keep every node on a sphere / displace nodes by less than a third of the shortest edge",
                        "bounded chains from three seed meshes for the exhaustive part; longer histories by simulation, random chains and real passes",
                        "the order f1/f2 of the two faces stored on an edge is an argument of the spec's operations (both orders explored by TLC)"]
    shutil.rmtree(work, ignore_errors=True)
    return chk.finish()
