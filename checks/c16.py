"""C16 -- mesh files written by the simulator are read back as the same tissue.
spec/Io/VtkFormat models the cell-data file, the writer (compaction first, global node offsets, per-cell integer counts, cell types,
the cell_type_id array) and the reader (per-cell renumbering) as operators; TLC checks Read(Write(pop)) = Normalise(pop) and the
consistency of the declared counts for every population in the bound.  Real mesh_writer::write / mesh_reader runs on generated
populations (1-4 cells, every cell type, meshes with unused slots before compaction, coordinates of several magnitudes and signs) are
validated by TLC (VtkTrace): the tokens of the real file equal Write(pop), the declared counts match the contents, the real reader
returns Normalise(pop), and coordinates survive at the written precision."""
import json, os, random, re, shutil
import vlib
from vlib import Check, ModelError

SPEC = os.path.join(vlib.ROOT, "spec", "Io")
P_INV = ["P_WriteSucceeds", "P_Counts", "P_FileIsWrite", "P_ReadBack", "P_PathWriter", "P_NoRebaseWriter", "P_ReaderIsRead"]
NUM = re.compile(r"^[-+]?(\d+\.?\d*|\.\d+)([eE][-+]?\d+)?$")


def tok(x, scale):
    """coordinate -> (integer token, survives at the written precision)"""
    q = x / scale
    if not (abs(q) < 1e9):          # far from every token (TLC integers are 32 bit): a sentinel that equals no token
        return (10 ** 9 if q > 0 else -10 ** 9), False
    k = round(q)
    return k, abs(x - k * scale) <= 6e-5 * abs(k * scale) + 1e-300


def tokenise(path, scale, ncells):
    """abstract contents of a written cell-data file (structure of spec VtkFormat); parsed=False if it cannot be understood"""
    bad = {"parsed": False, "npoints": 0, "coords": [], "ncells": 0, "nints": 0, "rows": [], "ntypes": 0, "ctypes": [], "cdn": 0, "typeids": [], "fields_ok": False, "prec_ok": False}
    try:
        t = open(path).read().split()
        i = t.index("POINTS")
        npoints, ptype = int(t[i + 1]), t[i + 2]
        j = t.index("CELLS")
        nums = t[i + 3:j]
        if len(nums) % 3 or not all(NUM.match(x) for x in nums) or ptype not in ("float", "double"):
            return bad
        prec_ok = True
        coords = []
        for a in range(0, len(nums), 3):
            tri = []
            for x in nums[a:a + 3]:
                k, ok = tok(float(x), scale)
                prec_ok &= ok
                tri.append(k)
            coords.append(tri)
        nc, nints = int(t[j + 1]), int(t[j + 2])
        jt = t.index("CELL_TYPES")
        ints = [int(x) for x in t[j + 3:jt]]
        rows, p = [], 0
        while p < len(ints):
            n = ints[p]
            rows.append(ints[p:p + n + 1])
            p += n + 1
        ntypes = int(t[jt + 1])
        jd = t.index("CELL_DATA")
        ctypes = [int(x) for x in t[jt + 2:jd]]
        cdn = int(t[jd + 1])
        assert t[jd + 2] == "FIELD"
        nfields = int(t[jd + 4])
        q = jd + 5
        fields_ok, typeids, seen = True, None, 0
        while q < len(t) and seen < nfields:
            name, ncomp, ntup, typ = t[q], int(t[q + 1]), int(t[q + 2]), t[q + 3]
            vals = t[q + 4:q + 4 + ncomp * ntup]
            if ncomp != 1 or ntup != cdn or len(vals) != ntup or not all(NUM.match(v) for v in vals):
                fields_ok = False
            if name == "cell_type_id":
                typeids = [int(v) for v in vals]
            q += 4 + ncomp * ntup
            seen += 1
        if seen != nfields or q != len(t) or typeids is None:
            fields_ok = False
        return {"parsed": True, "npoints": npoints, "coords": coords, "ncells": nc, "nints": nints, "rows": rows, "ntypes": ntypes, "ctypes": ctypes,
                "cdn": cdn, "typeids": typeids or [], "fields_ok": fields_ok, "prec_ok": prec_ok}
    except (ValueError, IndexError, AssertionError):
        return bad


def cases(tier, seed):
    rnd = random.Random(seed)
    seeds = ["tetra", "octa", "bipyr", "sphere1"]
    # the coordinate tokens are signed integers times a scale: ordinary magnitudes, and magnitudes whose written form has a
    # three-digit exponent (the longest tokens of the format: "-d.dddde-ddd")
    scales = [1.2345e-6, 1.0, 7.7e4, 3.1e-12, 2.5e-120, 6.0221e+99, 3.75e-203]
    out = []
    def cell(sd=None, t=None, nops=None):
        sd = sd or rnd.choice(seeds)
        nops = rnd.randint(0, 3) if nops is None else nops
        return {"seed": sd, "type": rnd.randint(0, 4) if t is None else t, "ops": [[rnd.choice(["split", "merge", "split"]), rnd.randint(0, 40)] for _ in range(nops)], "salt": rnd.randint(0, 60)}
    for t in range(5):
        for sd in seeds:
            out.append({"scale": scales[(t + len(out)) % len(scales)], "cells": [cell(sd, t, 0)]})
            out.append({"scale": scales[(t + len(out)) % len(scales)], "cells": [cell(sd, t, 2)]})
    for n in range(40 if tier == "quick" else 600):
        out.append({"scale": rnd.choice(scales), "cells": [cell() for _ in range(rnd.randint(2, 4))]})
    # cell identifiers: the list positions, a rotation of them (the identifier of one cell is the position of another), or unrelated
    for j, c in enumerate(out):
        n = len(c["cells"])
        if j % 3 == 1 and n > 1:
            c["ids"] = [(i + 1) % n for i in range(n)]
        elif j % 3 == 2:
            c["ids"] = [10 + 3 * i for i in range(n)]
    for i, c in enumerate(out):
        c["k"] = i + 1
    return out


def run(tier, seed, replay=None):
    chk = Check("C16", tier, seed)
    bdir = vlib.build("m1d0", ["vtk_driver"])
    work = vlib.scratch("c16")
    if replay:
        with open(replay) as f:
            cs = [json.load(f)["case"]["case"]]
        cs[0]["k"] = 1
    else:
        res = vlib.tlc(SPEC, "VtkMC", "Vtk_quick.cfg" if tier == "quick" else "Vtk_thorough.cfg", timeout=3000, xmx="12g")
        chk.add_tlc("Io/VtkMC", res)
        if res.is_violation:
            chk.violation("design:" + ",".join(res.violated), "TLC: spec/Io/VtkFormat violates " + ",".join(res.violated) + "\n" + res.out[-2000:])
            return chk.finish()
        vlib.tlc_expect_ok(res, "VtkFormat")
        cs = cases(tier, seed)
    cp, op = os.path.join(work, "cases.ndjson"), os.path.join(work, "out.ndjson")
    vlib.write_ndjson(cp, cs)
    rc, out = vlib.run([os.path.join(bdir, "vtk_driver"), cp, op, work], timeout=1800)
    rows = vlib.read_ndjson(op) if os.path.exists(op) else []
    if rc != 0 or len(rows) != len(cs):
        bad = cs[len(rows)] if len(rows) < len(cs) else None
        chk.violation("crash:%s" % json.dumps(bad), "vtk_driver terminated with status %d on %s (crash in the writer or the reader)" % (rc, json.dumps(bad)), {"case": bad})
        return chk.finish()
    recs = []
    for c, r in zip(cs, rows):
        n = r["ncells"]
        cells = [r["cell%d" % i] for i in range(n)]
        f = tokenise(r["path"], r["scale"], n)
        rd = {"ok": r["read"]["ok"], "types": r["read"]["types"], "cells": [], "prec_ok": True, "path_same": r["read"].get("path_same", True), "norebase_same": r["read"].get("norebase_same", True)}
        for m in r["read"]["cells"]:
            nodes = []
            for a in range(0, len(m["nodes"]), 3):
                tri = []
                for x in m["nodes"][a:a + 3]:
                    k, ok = tok(x, r["scale"])
                    rd["prec_ok"] &= ok
                    tri.append(k)
                nodes.append(tri)
            rd["cells"].append({"nodes": nodes, "tris": m["tris"]})
        recs.append({"k": r["k"], "cells": cells, "write_error": r["write_error"], "file": f, "read": rd})
    n, bad = vlib.tlc_validate_records(SPEC, "VtkTrace", "VtkTrace.cfg", recs, chunk=40, par=4, workers=4)
    chk.cov["states"] += n
    chk.cov["transitions"] += n
    for inv, idxs in sorted(bad.items()):
        for i in idxs:
            chk.violation("impl:%s:%s" % (inv, json.dumps({k: v for k, v in cs[i].items() if k != "k"})), "writer/reader on population %s violates %s; file facts %s; reader ok=%s" % (
                json.dumps(cs[i]), inv, json.dumps({k: v for k, v in recs[i]["file"].items() if k not in ("coords", "rows")}), recs[i]["read"]["ok"]), {"case": cs[i], "invariant": inv})
    # a population with more than 65536 points and 131072 triangles in one file (offsets, counts and face numbers beyond 16 bits)
    if not replay:
        bp = os.path.join(work, "big.ndjson")
        rc, out = vlib.run([os.path.join(bdir, "vtk_driver"), "big", bp, work], timeout=900)
        brow = vlib.read_ndjson(bp) if os.path.exists(bp) else []
        if rc != 0 or not brow:
            chk.violation("crash:big", "vtk_driver big terminated with status %d (crash in the writer or the reader on a population of 65574 points)\n%s" % (rc, out[-300:]))
        else:
            nb, bbad = vlib.tlc_validate_records(SPEC, "BigVtkTrace", "BigVtkTrace.cfg", brow, chunk=5, par=1, workers=1)
            chk.cov["states"] += nb
            chk.cov["transitions"] += nb
            n += nb
            if "P_BigIsBig" in bbad and not (set(bbad) - {"P_BigIsBig"}) and brow[0]["write_error"] == "" and brow[0]["read_error"] == "":
                raise ModelError("the big population is not big: %r" % brow[0])
            for inv in sorted(set(bbad) - {"P_BigIsBig"}):
                chk.violation("impl:%s:big" % inv, "round trip of a population with %d points / %d triangles in one file violates %s: %s" % (brow[0]["npoints"], brow[0]["ntris"], inv, json.dumps(brow[0])), {"big_record": brow[0]})
            chk.cov["big_population"] = {k_: brow[0][k_] for k_ in ("npoints", "ntris")}
    chk.cov["traces_validated_against_impl"] = n
    chk.cov["evaluations"] = n
    chk.cov["distinct_nontrivial"] = len({json.dumps({k: v for k, v in c.items() if k != "k"}) for c in cs})
    chk.cov["rule"] = "one record per generated population (cells, types, remeshing operations that leave unused slots, coordinate scale); non-trivial = distinct population"
    chk.cov["with_unused_slots"] = sum(1 for r in recs if any(c["mesh"]["freeN"] or c["mesh"]["freeF"] for c in r["cells"]))
    for r in recs[:: max(1, len(recs) // 3)][:3]:
        chk.sample({"cells": [{"type": c["type"], "nslots": c["mesh"]["nslots"], "free": [c["mesh"]["freeN"], c["mesh"]["freeF"]]} for c in r["cells"]],
                    "file": {k: v for k, v in r["file"].items() if k not in ("coords", "rows")}})
    if not replay:
        rnd = random.Random(seed)
        c1 = json.loads(json.dumps(rnd.choice(recs))); c1["file"]["nints"] += 1
        c2 = json.loads(json.dumps(rnd.choice(recs))); c2["read"]["cells"][0]["tris"][0] = c2["read"]["cells"][0]["tris"][0][::-1]
        _, cbad = vlib.tlc_validate_records(SPEC, "VtkTrace", "VtkTrace.cfg", [c1, c2], chunk=5, par=1, workers=2)
        rej = int(0 in cbad.get("P_Counts", [])) + int(1 in cbad.get("P_ReadBack", []))
        chk.cov["controls_run"], chk.cov["controls_rejected"] = 2, rej
        if rej != 2:
            raise ModelError("negative controls: %d of 2 rejected %r" % (rej, cbad))
    chk.assumptions += ["coordinates are integer tokens times a scale; 'equal to the written precision' = relative 6e-5 (format %.4e)",
                        "the other CELL_DATA arrays are checked for their declared shape only (1 component, one value per cell); the face-data file is not part of the property"]
    shutil.rmtree(work, ignore_errors=True)
    return chk.finish()
