"""C12 -- volume, area, centroid, bounding box and normals are exact and frame-independent.
spec/Geom/LatticeGeom gives, on the integer lattice, 6*volume, 2*area, 6*area*centroid and the bounding box as exact integers and the
orientation repair as the unique consistent outward re-winding; TLC checks for every mix of input windings of the seeds that the repair
is unique, and the invariance / scaling laws under the 24 lattice rotations, translations and scalings.  Real initialize_cell_properties
and getters on seeds and triangulated boxes under rotations, translations (up to 1000 cell sizes), scalings, node / face renumberings and
every / many winding mixes are validated by TLC (GeomTrace) against the exact values."""
import itertools, json, os, random, shutil
import vlib
from vlib import Check, ModelError

SPEC = os.path.join(vlib.ROOT, "spec", "Geom")
P_INV = ["P_NoError", "P_Volume", "P_BBox", "P_Area", "P_Centroid", "P_Orientation", "P_LongestAxis", "P_History"]
NF = {"tetra": 4, "octa": 8, "bipyr": 6}


def rotations():
    out = []
    for perm in itertools.permutations((1, 2, 3)):
        par = 1 if perm in ((1, 2, 3), (2, 3, 1), (3, 1, 2)) else -1
        for sg in itertools.product((-1, 1), repeat=3):
            if sg[0] * sg[1] * sg[2] * par == 1:
                out.append((list(perm), list(sg)))
    return out


def cases(tier, seed):
    rnd = random.Random(seed)
    rots = rotations()
    out = []
    def add(shape, flip, g, t, k, unit, ns=0, fs=0, dims=None, diag=0):
        la = -1
        if shape == "box" and sorted(dims)[2] > sorted(dims)[1]:
            src = dims.index(max(dims)) + 1                  # canonical axis of the longest side
            la = g[0].index(src)                             # where the rotation sends it
        out.append({"shape": shape, "dims": dims or [1, 1, 1], "diag": diag, "flip": sorted(flip), "perm": g[0], "sign": g[1], "t": t, "scale": k, "unit": unit,
                    "node_shift": ns, "face_shift": fs, "long_axis": la})
    ident = rots[0]
    # every mix of windings of the three seeds (as enumerated by TLC), identity placement
    for shape in ("tetra", "bipyr", "octa"):
        subsets = [s for r in range(NF[shape] + 1) for s in itertools.combinations(range(NF[shape]), r)]
        if tier == "quick" and shape == "octa":
            subsets = rnd.sample(subsets, 60)
        for s in subsets:
            add(shape, s, rnd.choice(rots), [rnd.randint(-20, 20) for _ in range(3)], rnd.choice([1, 2, 3]), rnd.choice([2.0 ** -17, 2.0 ** -17, 2.0 ** -30, 2.0 ** -37, 2.0 ** 20]), rnd.randint(0, 5), rnd.randint(0, 7))
    # rigid motions, scalings, renumberings of seeds and boxes (integer-normal meshes: area and centroid exact)
    boxes = [[1, 1, 1], [2, 1, 1], [1, 3, 2], [2, 2, 3], [3, 1, 1]] if tier == "quick" else [[a, b, c] for a in (1, 2, 3) for b in (1, 2, 3) for c in (1, 2, 4)]
    nmot = 6 if tier == "quick" else 24
    for dims in boxes:
        for g in (rots if tier == "thorough" else rnd.sample(rots, nmot)):
            t = rnd.choice([[0, 0, 0], [7, -3, 50], [-100, 1, 2], [1000, -1000, 500]])
            nfb = 4 * (dims[0] * dims[1] + dims[1] * dims[2] + dims[0] * dims[2])
            flip = rnd.sample(range(nfb), rnd.randint(0, nfb))
            add("box", flip, g, t, rnd.choice([1, 2, 3]), rnd.choice([2.0 ** -17, 2.0 ** -20, 1.0, 2.0 ** -30, 2.0 ** -37, 2.0 ** 20]), rnd.randint(0, 50), rnd.randint(0, 50), dims, rnd.randint(0, 1))
    for shape in ("tetra", "octa", "bipyr"):
        for g in rots:
            add(shape, [], g, rnd.choice([[0, 0, 0], [300, -200, 100]]), rnd.choice([1, 2, 3]), rnd.choice([2.0 ** -17, 1.0, 2.0 ** -33]), rnd.randint(0, 5), rnd.randint(0, 7))
    for i, c in enumerate(out):
        c["k"] = i + 1
    return out


def run(tier, seed, replay=None):
    chk = Check("C12", tier, seed)
    bdir = vlib.build("m1d0", ["geom_driver"])
    work = vlib.scratch("c12")
    if replay:
        with open(replay) as f:
            cs = [json.load(f)["case"]["case"]]
        cs[0]["k"] = 1
    else:
        res = vlib.tlc(SPEC, "LatticeGeomMC", "LatticeGeom.cfg", timeout=1800)
        chk.add_tlc("Geom/LatticeGeomMC", res)
        if res.is_violation:
            chk.violation("design:" + ",".join(res.violated), "TLC: spec/Geom/LatticeGeom violates " + ",".join(res.violated) + "\n" + res.out[-2000:])
            return chk.finish()
        vlib.tlc_expect_ok(res, "LatticeGeom")
        cs = cases(tier, seed)
    cp, op = os.path.join(work, "cases.ndjson"), os.path.join(work, "out.ndjson")
    vlib.write_ndjson(cp, cs)
    rc, out = vlib.run([os.path.join(bdir, "geom_driver"), cp, op], timeout=1800)
    rows = vlib.read_ndjson(op) if os.path.exists(op) else []
    if rc != 0 or len(rows) != len(cs):
        bad = cs[len(rows)] if len(rows) < len(cs) else None
        chk.violation("crash:%s" % json.dumps(bad), "geom_driver terminated with status %d on %s" % (rc, json.dumps(bad)), {"case": bad})
        return chk.finish()
    n, bad = vlib.tlc_validate_records(SPEC, "GeomTrace", "GeomTrace.cfg", rows, chunk=100, par=4, workers=4)
    chk.cov["states"] += n
    chk.cov["transitions"] += n
    for inv, idxs in sorted(bad.items()):
        for i in idxs:
            facts = {k: v for k, v in rows[i].items() if k not in ("tris", "pos", "repaired")}
            chk.violation("impl:%s:%s" % (inv, json.dumps({k: v for k, v in cs[i].items() if k != "k"})), "cell geometry on case %s violates %s; reported (lattice units) %s" % (json.dumps(cs[i]), inv, json.dumps(facts)),
                          {"case": cs[i], "invariant": inv})
    # a mesh of 65538 nodes / 131072 triangles, mixed windings, natural and reversed numbering (index arithmetic on node ids can wrap)
    if not replay:
        bp = os.path.join(work, "big.ndjson")
        rc, out = vlib.run([os.path.join(bdir, "geom_driver"), "big", bp], timeout=900)
        brows = vlib.read_ndjson(bp) if os.path.exists(bp) else []
        if rc != 0 or len(brows) != 2:
            chk.violation("crash:big", "geom_driver big terminated with status %d after %d records (initialisation of a 65538-node mesh)\n%s" % (rc, len(brows), out[-300:]))
        else:
            nb, bbad = vlib.tlc_validate_records(SPEC, "BigGeomTrace", "BigGeomTrace.cfg", brows, chunk=5, par=1, workers=1)
            chk.cov["states"] += nb
            chk.cov["transitions"] += nb
            n += nb
            for inv, idxs in sorted(bbad.items()):
                for i in idxs:
                    if inv == "P_BigIsBig":
                        raise ModelError("the big mesh is not big: %r" % brows[i])
                    chk.violation("impl:%s:%s" % (inv, brows[i]["op"]), "initialisation of a closed mesh of %d nodes / %d triangles (%s) violates %s: %s" % (
                        brows[i]["nn"], brows[i]["nf"], brows[i]["op"], inv, json.dumps(brows[i])), {"big_record": brows[i]})
    chk.cov["traces_validated_against_impl"] = n
    chk.cov["evaluations"] = n
    chk.cov["distinct_nontrivial"] = len({json.dumps({k: v for k, v in c.items() if k != "k"}) for c in cs})
    chk.cov["rule"] = ("one record per (shape, set of mis-wound input triangles, lattice rotation, translation, scaling, physical unit, node / face renumbering); all winding mixes of "
                       "tetrahedron and bipyramid, %s of the octahedron; boxes with random mixes" % ("a sample" if tier == "quick" else "all"))
    for r, c in list(zip(rows, cs))[:: max(1, len(cs) // 3)][:3]:
        chk.sample({"case": c, "reported": {k: v for k, v in r.items() if k not in ("tris", "pos", "repaired")}})
    if not replay:
        rnd = random.Random(seed)
        c1 = json.loads(json.dumps(rnd.choice(rows))); c1["vol6"] += 1
        c2 = json.loads(json.dumps(rnd.choice(rows))); c2["repaired"][0] = [c2["repaired"][0][0], c2["repaired"][0][2], c2["repaired"][0][1]]
        c3 = json.loads(json.dumps(rnd.choice(rows))); c3["bbox"][3] += 1
        _, cbad = vlib.tlc_validate_records(SPEC, "GeomTrace", "GeomTrace.cfg", [c1, c2, c3], chunk=5, par=1, workers=2)
        rej = int(0 in cbad.get("P_Volume", [])) + int(1 in cbad.get("P_Orientation", [])) + int(2 in cbad.get("P_BBox", []))
        chk.cov["controls_run"], chk.cov["controls_rejected"] = 3, rej
        if rej != 3:
            raise ModelError("negative controls: %d of 3 rejected %r" % (rej, cbad))
    chk.assumptions += ["lattice meshes (integer coordinates times a power-of-two unit) on which volume and bounding box are exact in doubles; area and centroid only on meshes whose triangles "
                        "have integer area vectors of integer length (boxes, the octahedron is excluded by the IntegerNormals guard)",
                        "translations up to 1000 cell sizes: cancellation at larger distance from the origin is a floating-point effect outside this family's reach",
                        "longest axis only for boxes with a strictly longest side, up to sign"]
    shutil.rmtree(work, ignore_errors=True)
    return chk.finish()
