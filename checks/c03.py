"""C03 -- a time step advances every node by the documented integration law.
spec/Integrate states the law (both dynamic models, static cells, the mutually coupled pair processed by the side with the greater
list position) in exact dyadic arithmetic; TLC checks StaticFrozen, ForcesZeroed, TimeAdvances, PairSameDisplacement, PairMomentum and
FreeNodeLaw on every configuration and over consecutive steps.  Every explored behaviour is replayed into the real
time_integration_scheme::update_nodes_positions (builds: semi-implicit / overdamped; contact models 1, 0 and 2) and compared node by
node, component by component."""
import json, os, random, shutil
import vlib
from vlib import Check, ModelError

SPEC = os.path.join(vlib.ROOT, "spec", "Integrate")
ORDER = [(1, 1), (1, 2), (2, 1), (2, 2)]
U = 82944


def behaviours(dump_path, maxn, rnd):
    """states of the dump that have a history -> cases (one per maximal behaviour prefix)"""
    out = []
    for st in vlib.parse_dump(dump_path):
        h = st["hist"]
        if not h:
            continue
        steps = [{"nodes": [[e["pre"][q]["pos"], e["pre"][q]["mom"], e["pre"][q]["force"]] for q in ORDER],
                  "post": [[e["post"][q]["pos"], e["post"][q]["mom"], e["post"][q]["force"]] for q in ORDER]} for e in h]
        def two(f):
            return [f[0], f[1]] if isinstance(f, tuple) else [f[1], f[2]]
        out.append({"static": two(st["static"]), "mass": two(st["mass"]), "dtinv": st["dtinv"], "damp": st["damp"],
                    "coupled": st["coupled"], "hi": st["hi"], "steps": steps})
    if len(out) > maxn:
        out = rnd.sample(out, maxn)
    return out


def compare(case, obs, model, contact):
    """None if the real integrator did what the specification says, else a description"""
    tol = 1e-9 * U
    pos_acc = [0.0, 0.0, 0.0, 0.0]
    for s, (st, ob) in enumerate(zip(case["steps"], obs["steps"])):
        if abs(ob["dtime"] - 1.0 / case["dtinv"]) > 0:
            return "step %d: simulated time advanced by %r instead of %r" % (s, ob["dtime"], 1.0 / case["dtinv"])
        if ob["others_moved"] > tol or ob["others_force"] > tol:
            return "step %d: a force-free, momentum-free node moved or kept a force" % s
        for q in range(4):
            want_dpos = st["post"][q][0]          # positions start at 0 in the spec: post.pos is the displacement accumulated so far
            got = ob["nodes"][q]
            for comp, mul in enumerate((1.0, 2.0, -1.0)):
                if abs(got["dpos"][comp] - mul * want_dpos) > tol:
                    return "step %d node %s component %d: displacement %r, specification %r" % (s, ORDER[q], comp, got["dpos"][comp], mul * want_dpos)
                if model == "dyn" and abs(got["mom"][comp] - mul * st["post"][q][1]) > tol:
                    return "step %d node %s component %d: momentum %r, specification %r" % (s, ORDER[q], comp, got["mom"][comp], mul * st["post"][q][1])
                if abs(got["force"][comp] - mul * st["post"][q][2]) > tol:
                    return "step %d node %s component %d: force accumulator %r, specification %r" % (s, ORDER[q], comp, got["force"][comp], mul * st["post"][q][2])
    return None


def run(tier, seed, replay=None):
    chk = Check("C03", tier, seed)
    work = vlib.scratch("c03")
    rnd = random.Random(seed)
    builds = [("m1d0", "dyn", 1), ("m1d1", "over", 1), ("m0d0", "dyn", 0), ("m2d0", "dyn", 2)]      # every contact model in both tiers (the integrator has one branch per model)
    dumps = {}
    nrep = 0
    for variant, model, contact in builds:
        cfg = "Integrate_%s_%s.cfg" % (model, tier)
        if cfg not in dumps:
            dump = os.path.join(work, "st_" + model)
            res = vlib.tlc(SPEC, "IntegrateMC", cfg, dump=dump, timeout=3000, xmx="12g")
            chk.add_tlc("Integrate/" + cfg, res)
            if res.is_violation:
                chk.violation("design:" + ",".join(res.violated), "TLC: spec/Integrate violates " + ",".join(res.violated) + "\n" + res.out[-2000:])
                return chk.finish()
            vlib.tlc_expect_ok(res, "Integrate")
            dumps[cfg] = behaviours(dump + ".dump", 12000 if tier == "quick" else 60000, rnd)
            os.remove(dump + ".dump")
        cases = dumps[cfg]
        if contact == 0:
            cases = [c for c in cases if not c["coupled"]]          # the spring model has no couplings
        if replay:
            with open(replay) as f:
                r = json.load(f)["case"]
            if r["variant"] != variant:
                continue
            cases = [r["case"]]
        bdir = vlib.build(variant, ["integ_driver"])
        cp, op = os.path.join(work, "cases_%s.ndjson" % variant), os.path.join(work, "obs_%s.ndjson" % variant)
        for i, c in enumerate(cases):
            c["k"] = i + 1
            c["frag"] = (i % 2 == 1) and not replay       # every other behaviour on cells with a history (unused slots before live nodes / faces)
            if i % 3 == 2 and "mscale_exp" not in c:
                c["mscale_exp"] = -60 if i % 2 else 40    # node masses of 2e-18 / 2e12: the law is homogeneous in (mass, momentum, force, damping)
        vlib.write_ndjson(cp, cases)
        rc, out = vlib.run([os.path.join(bdir, "integ_driver"), cp, op], timeout=3000)
        obs = vlib.read_ndjson(op) if os.path.exists(op) else []
        if rc != 0 or len(obs) != len(cases):
            bad = cases[len(obs)] if len(obs) < len(cases) else None
            chk.violation("crash:%s:%s" % (variant, json.dumps(bad)[:300]), "integ_driver (%s) terminated with status %d on case %s" % (variant, rc, json.dumps(bad)[:500]), {"variant": variant, "case": bad})
            continue
        for c, o in zip(cases, obs):
            msg = compare(c, o, model, contact)
            nrep += 1
            if msg:
                key = {k: c[k] for k in ("static", "mass", "dtinv", "damp", "coupled", "hi")}
                chk.violation("impl:%s:%s:%s" % (variant, json.dumps(key), json.dumps(c["steps"][0]["nodes"])),
                              "update_nodes_positions (%s, contact model %d) on %s: %s" % (model, contact, json.dumps(key), msg), {"variant": variant, "case": c, "observed": o})
        if cases:
            chk.sample({"build": variant, "case": {k: cases[0][k] for k in ("static", "mass", "dtinv", "damp", "coupled", "hi")}, "pre": cases[0]["steps"][0]["nodes"], "post_spec": cases[0]["steps"][0]["post"], "observed": obs[0]["steps"][0]["nodes"] if obs else None})
        chk.cov.setdefault("replayed", {})[variant] = len(cases)
        if not replay and variant == "m1d0":
            # negative control: a perturbed expectation must be reported
            c2 = json.loads(json.dumps(cases[0])); c2["steps"][0]["post"][0][0] += U
            c3 = json.loads(json.dumps(cases[0])); c3["steps"][0]["post"][1][2] = U
            rej = int(compare(c2, obs[0], model, contact) is not None) + int(compare(c3, obs[0], model, contact) is not None)
            chk.cov["controls_run"], chk.cov["controls_rejected"] = 2, rej
            if rej != 2:
                raise ModelError("negative controls not rejected")
    chk.cov["traces_validated_against_impl"] = nrep
    chk.cov["evaluations"] = nrep
    chk.cov["distinct_nontrivial"] = sum(len(v) for v in dumps.values())
    chk.cov["rule"] = ("one case per behaviour of spec/Integrate (static flags, node masses 2/6, dt, damping, mutual coupling, which side has the greater list "
                       "position, momenta/forces of the two nodes of interest, 1-2 consecutive steps with re-applied forces); replayed per build")
    chk.assumptions += ["node masses are set through the density (node mass = density * volume / live nodes), exact to 1 ulp; comparison tolerance 1e-9 of the value unit",
                        "one scalar per node stands for the three components (the law is linear); the driver uses the vector (s, 2s, -s)",
                        "couplings involving a static cell and non-mutual couplings are outside the property and not exercised; contact model 2 with 2-way couplings only"]
    shutil.rmtree(work, ignore_errors=True)
    return chk.finish()
