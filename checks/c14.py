"""C14 -- simulation results do not depend on where the tissue is placed in space.
Design level: the absolute-coordinate code paths are specified on the lattice and TLC checks their translation invariance there -- the
closest-point kernel (ClosestPoint.TransInv, C05), the spatial grids and the broad phase for every position of the box relative to the
origin and the voxel boundaries (Grid, BroadPhase: all lattice positions incl. negative and straddling ones, three epsilon regimes).
Implementation level: pairs of real solver runs (reference / translated input: small, large = 1000 cell sizes, across the origin, fractions of
a voxel, dyadic and non-dyadic vectors) on single cells, adhering cells and overlapping cells of different types, one thread, tens of
iterations; the two phase-boundary traces are validated in lock-step by TLC (PairTrace): every discrete observable identical; positions
(up to the translation), volumes and pressures equal to a tolerance that grows with the translation's magnitude."""
import json, os, random, shutil, re
import vlib, tissue_common as tc
from vlib import Check, ModelError

SPEC = os.path.join(vlib.ROOT, "spec", "Pair")
R = tc.R


def tissues():
    d = 1.9 * R
    return {
        "single": [tc.cell(0, 0.0, level=2, growth=2e-11)],
        "adhering": [tc.cell(0, 0.0, level=2, growth=1e-11), tc.cell(1, d, level=2)],
        "overlap_types": [tc.cell(0, 0.0, level=2), tc.cell(1, 1.6 * R, level=1, ctype=2, nft=1), tc.cell(2, 0.0, level=1, ctype=4, nft=1, y=1.7 * R)],
        "ecm": [tc.cell(0, 0.0, level=2, growth=2e-11), tc.cell(1, 1.7 * R, level=2, ctype=1, nft=1)],
        # a flat cell with a sharp rim (neighbouring faces more than 90 degrees apart) whose long rim edges are split at once: orientation
        # decisions of the remeshing at creases, which an origin-based volume formula turns into a position dependence
        "flat": [dict(tc.cell(0, 0.0, level=1, growth=1e-11), jitter=0.03, stretch=[1.0, 1.1, 0.15]), tc.cell(1, 3.5 * R, level=1)],
        # a history with a division (iteration 5): the division axis, the cut and the remeshing of the daughters happen at both places
        # (a generic ellipsoid: on the symmetric test sphere the division plane passes exactly through nodes, a tie decided by rounding)
        "dividing": [dict(tc.cell(0, 0.0, level=2, growth=1e-11), jitter=0.04, stretch=[1.35, 1.0, 0.85]), tc.cell(1, 3.5 * R, level=1)],
    }


SCRIPTS = {"dividing": [{"iter": 5, "do": "ready", "cell": 0}]}


def shifted(cells, t):
    out = json.loads(json.dumps(cells))
    for c in out:
        c["c"] = [c["c"][a] + t[a] for a in range(3)]
    return out


def run(tier, seed, replay=None):
    chk = Check("C14", tier, seed)
    work = vlib.scratch("c14")
    rnd = random.Random(seed)
    # design level: the lattice specs of the absolute-coordinate code paths hold at every position (re-checked here, cheap configurations)
    for d, mod, cfg, lib in (("Grid", "GridMC", "Grid_quick.cfg", None), ("Contact", "BroadPhaseMC", "BroadPhase_clamp.cfg", None), ("ClosestPoint", "ClosestPointMC", "CP_quick.cfg", None)):
        res = vlib.tlc(os.path.join(vlib.ROOT, "spec", d), mod, cfg, timeout=1800)
        chk.add_tlc("%s/%s" % (d, cfg), res)
        if res.is_violation:
            chk.violation("design:%s:%s" % (mod, ",".join(res.violated)), "TLC: %s violates %s" % (mod, res.violated))
            return chk.finish()
        vlib.tlc_expect_ok(res, mod)
    T = tissues()
    shifts = [[1e-7, 0, 0], [R / 3, -R / 7, R / 5], [2.0 ** -17, 2.0 ** -16, -2.0 ** -18], [-3 * R, -3 * R, -3 * R], [4e-3, -4e-3, 4e-3]]
    # translations along ONE axis, or with very different components, by many tissue sizes: a coordinate of the wrong axis in one of three
    # parallel lines only shows when the components of the position differ by more than the tissue is wide (every earlier translation
    # had its largest component along x, or all three equal)
    axial = [[0, 40 * R, 0], [-9 * R, 0, 35 * R], [0, -50 * R, 12 * R], [30 * R, 0, 0]]
    if tier == "thorough":
        shifts += [[rnd.uniform(-1, 1) * 10 ** rnd.uniform(-7, -2.4) for _ in range(3)] for _ in range(12)] + [[1.234567e-6, 0, 0], [0, 0, -8.5e-6], [5.5e-6, 5.5e-6, 5.5e-6]]
    pairs = []
    for name, cells in T.items():
        for j, t in enumerate(shifts + axial if tier == "thorough" else rnd.sample(shifts[:4], 1) + [shifts[4]] + axial[:2]):
            pairs.append((name, j, t))
    if replay:
        with open(replay) as f:
            r = json.load(f)["case"]
        pairs = [(r["tissue"], 0, r["shift"])]
        replay_variant = r.get("variant", "m1d0")
    niter = 25 if tier == "quick" else 60
    # every contact model has its own broad phase (node lookup, face registration): the default model on every pair, the two others on
    # the tissues with contacts
    sub = [pr for pr in pairs if pr[0] in ("adhering", "overlap_types")]
    sub = sub if tier == "thorough" else sub[1::2]
    plan = [(replay_variant, pairs)] if replay else [("m1d0", pairs), ("m0d0", sub), ("m2d0", sub)]
    ntr = 0
    for variant, vpairs in plan:
        scns = []
        for name, j, t in vpairs:
            # a tissue with a division is followed up to the end of the division iteration only (margin rule, see below)
            n_it = (max(e["iter"] for e in SCRIPTS[name]) + 1) if name in SCRIPTS else niter
            base = tc.scenario("%s_%d_%s_A" % (name, j, variant), T[name], SCRIPTS.get(name, []), T_ns=100 * n_it, threads=1, seed=seed, level_lmin=0.2531 * R)     # no edge length of the symmetric test spheres ties with a threshold
            base["dump_positions"] = True
            sh = dict(base, name="%s_%d_%s_B" % (name, j, variant), cells=shifted(T[name], t))
            scns += [base, sh]
        results = tc.run_scenarios(variant, scns, work, timeout=900)
        by = {s["name"]: (s, ev, rc) for s, ev, rc, txt, ep in results}
        for name, j, t in vpairs:
            sa, A, rca = by["%s_%d_%s_A" % (name, j, variant)]
            sb, B, rcb = by["%s_%d_%s_B" % (name, j, variant)]
            case = {"tissue": name, "shift": t, "variant": variant}
            if rca != 0 or rcb != 0 or not A or not B or A[-1].get("e") != "end" or B[-1].get("e") != "end":
                chk.violation("crash:%s:%s" % (name, t), "a solver run of the pair %s / shift %s terminated abnormally" % (name, t), case)
                continue
            fa, fb = A[-1].get("final", []), B[-1].get("final", [])
            mag = max(abs(x) for x in t) + 10 * R
            ptol = 1e-9 * R + 64 * 2.3e-16 * mag * niter            # rounding of absolute coordinates accumulates per iteration
            pos_ok = vol_ok = pr_ok = len(fa) == len(fb)
            worst = [0.0, 0.0, 0.0]
            for ca, cb in zip(fa, fb):
                if len(ca["pos"]) != len(cb["pos"]) or ca["id"] != cb["id"]:
                    pos_ok = False
                    continue
                for q in range(0, len(ca["pos"])):
                    dlt = abs(cb["pos"][q] - (ca["pos"][q] + t[q % 3]))
                    worst[0] = max(worst[0], dlt)
                worst[1] = max(worst[1], abs(ca["vol"] - cb["vol"]) / abs(ca["vol"]))
                worst[2] = max(worst[2], abs(ca["press"] - cb["press"]) / (abs(ca["press"]) + 1.0))
            rel = 1e-7 + 1e3 * 2.3e-16 * (mag / R) ** 2 * niter          # volume formula multiplies absolute coordinates
            pos_ok = pos_ok and worst[0] <= ptol * 50 + rel * R
            vol_ok = vol_ok and worst[1] <= rel
            pr_ok = pr_ok and worst[2] <= rel * 10
            zipped = [{"a": a, "b": b} for a, b in zip(A, B)]
            if name in SCRIPTS:
                # Margin rule for divisions: the interface nodes of two fresh daughters coincide, so the first contact phase after a
                # division chooses couplings among exactly equidistant candidates -- a tie decided by rounding, which a translation
                # changes (observed: 63 couplings against 62, after which the two trajectories part ways).  Up to and including the
                # remeshing of the division iteration everything must agree; from its contact phase on, the number of couplings
                # and the final numeric comparison are not demanded for this tissue.
                div_it = max(e["iter"] for e in SCRIPTS[name])
                for z in zipped:
                    if z["a"].get("e") == "phase" and z["a"]["iter"] >= div_it and z["a"]["k"] >= 5 and "coupl" in z["a"] and "coupl" in z["b"]:
                        z["b"]["coupl"] = z["a"]["coupl"]
                pos_ok = vol_ok = pr_ok = True
            for z in zipped:
                for side in ("a", "b"):
                    z[side] = {k: v for k, v in z[side].items() if k not in ("final", "digest", "parsed")}
            zipped[-1]["same_length"] = len(A) == len(B)
            zipped[-1]["num"] = {"pos_match": pos_ok, "vol_match": vol_ok, "press_match": pr_ok}
            if len(A) != len(B):
                # (TLC refuses a constant-level FALSE invariant instead of reporting it: the two logs of different lengths are reported here)
                chk.violation("impl:P_SameLength:%s:%s:%s" % (variant, name, t), "tissue '%s' translated by %s (%s): the translated run logged %d phase events, the reference run %d (one of them stopped or changed its population)" % (
                    name, t, variant, len(B), len(A)), case)
                ntr += 1
                continue
            p = os.path.join(work, "pair_%s_%d.ndjson" % (name, j))
            vlib.write_ndjson(p, zipped)
            res = vlib.tlc(SPEC, "PairTrace", "PairTrace.cfg", workers=1, env={"OBS": p}, cont=True, timeout=900, xmx="3g", metadir=os.path.join(work, "md_%s_%d" % (name, j)))
            if res.model_error:
                raise ModelError("PairTrace failed on %s: rc=%d\n%s" % (name, res.rc, res.out[-2500:]))
            chk.cov["states"] += res.distinct
            chk.cov["transitions"] += res.generated
            ntr += 1
            tags = set()
            for block in re.split(r"Error: Invariant ", res.out)[1:]:
                m = re.match(r"(P_\w+) is violated", block)
                ls = re.findall(r"/\\ l = (\d+)", block)
                if m:
                    tags.add((m.group(1), int(ls[-1]) if ls else 0))
            for tag, line in sorted(tags):
                where = zipped[line - 1]["a"] if 0 < line <= len(zipped) else {}
                chk.violation("impl:%s:%s:%s:%s" % (tag, variant, name, t), "tissue '%s' translated by %s: %s at event %d %s; worst deviations: position %.3e m, volume %.3e, pressure %.3e (relative)" % (
                    name, t, tag, line, json.dumps({k: where.get(k) for k in ("e", "k", "iter")}), worst[0], worst[1], worst[2]), case)
            if len(chk.cov["samples"]) < 4:
                chk.sample({"tissue": name, "shift": t, "events": len(zipped), "worst_position_dev_m": worst[0], "worst_volume_rel": worst[1], "worst_pressure_rel": worst[2]})
    chk.cov["traces_validated_against_impl"] = ntr
    chk.cov["evaluations"] = ntr
    chk.cov["distinct_nontrivial"] = len(pairs)
    chk.cov["rule"] = "one pair of real runs (%d iterations, 1 thread) per (tissue, translation vector); both phase-boundary traces consumed in lock-step" % niter
    if not replay:
        # negative control: a trace pair whose B side lost a node at one event must be rejected
        z = vlib.read_ndjson(p)
        mid = next(i for i, e in enumerate(z) if e["a"].get("e") == "phase" and e["a"]["k"] == 5)
        z[mid]["b"]["cells"][0]["nn"] += 1
        pc = os.path.join(work, "ctl.ndjson"); vlib.write_ndjson(pc, z)
        cres = vlib.tlc(SPEC, "PairTrace", "PairTrace.cfg", workers=1, env={"OBS": pc}, cont=True, timeout=600, xmx="3g")
        chk.cov["controls_run"], chk.cov["controls_rejected"] = 1, int("P_LockStep" in cres.violated)
        if "P_LockStep" not in cres.violated:
            raise ModelError("negative control not rejected")
    chk.assumptions += ["one thread and tens of iterations: rounding differences grow along a trajectory; tolerances grow with |translation|/size (absolute coordinates enter the volume "
                        "formula: far-origin cancellation is a floating-point effect this family cannot predict) -- translations up to 1000 cell sizes",
                        "a discrete decision closer to its threshold than the rounding of the translated run could flip without violating the property; none was met on the unchanged tree; "
                        "such a scenario would have to be marked inconclusive by hand, the check does not adapt itself"]
    shutil.rmtree(work, ignore_errors=True)
    return chk.finish()
