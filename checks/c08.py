"""C08 -- cell identities and cross-references stay valid as the population changes.
Design: TLC on spec/Tissue (implementation-shaped: contact stores list positions, removal and division renumber) over every
history of divisions / removals in the bound.  Implementation: real solver::run on scripted histories (cells made ready or
too small at chosen list positions and iterations, adjacent epithelial cells so that couplings exist, 1 and 8 threads,
1-3 face types), every phase boundary logged through hook H4 and validated by TLC against Tissue (TissueTrace)."""
import json, os, random, re, shutil
import vlib, tissue_common as tc
from vlib import Check, ModelError


def scenarios(tier, seed):
    rnd = random.Random(seed)
    out = []
    d = 1.95 * tc.R          # touching neighbours: couplings are created
    far = 3.0 * tc.R
    def row(n, spacing, **kw):
        return [tc.cell(i, i * spacing, **kw) for i in range(n)]
    # removal at every list position, then further iterations that use the renumbered list
    for pos in range(4):
        out.append(tc.scenario("rm%d" % pos, row(4, d, level=1), [{"iter": 3, "do": "small", "cell": pos}], T_ns=1500, threads=(1 if pos % 2 else 8)))
    # division at every list position
    for pos in range(3):
        out.append(tc.scenario("div%d" % pos, row(3, d, level=2), [{"iter": 5, "do": "ready", "cell": pos}], T_ns=1800, threads=(8 if pos % 2 else 1)))
    # mixed histories: removal before a division, division before removal, several in one iteration, removal of a daughter
    out.append(tc.scenario("mix1", row(4, d, level=2), [{"iter": 2, "do": "small", "cell": 1}, {"iter": 5, "do": "ready", "cell": 3},
                                                       {"iter": 5, "do": "ready", "cell": 0}, {"iter": 8, "do": "small", "cell": 5}], T_ns=2000))
    out.append(tc.scenario("mix2", row(3, far, level=2), [{"iter": 0, "do": "ready", "cell": 0}, {"iter": 0, "do": "ready", "cell": 2},
                                                         {"iter": 6, "do": "small", "cell": 1}, {"iter": 10, "do": "ready", "cell": 4}], T_ns=2200, threads=8))
    # divisions and removals in the SAME iteration, in every arrangement of (removed, dividing, ordinary) and with equal numbers of
    # both (the population then ends the iteration with the size it started with, having changed all the same)
    import itertools
    for k, perm in enumerate(itertools.permutations(("small", "ready", None))):
        script = [{"iter": 5, "do": do, "cell": i} for i, do in enumerate(perm) if do]
        out.append(tc.scenario("same%d" % k, row(3, far, level=2), script, T_ns=1400, threads=(1 if k % 2 else 4)))
    out.append(tc.scenario("same22", row(5, far, level=2), [{"iter": 5, "do": "small", "cell": 0}, {"iter": 5, "do": "ready", "cell": 1}, {"iter": 5, "do": "small", "cell": 3},
                                                           {"iter": 5, "do": "ready", "cell": 4}], T_ns=1400, threads=8))
    # epithelial cells with fewer than three face types, an ECM cell and a lumen next to them
    out.append(tc.scenario("ft2", [tc.cell(0, 0, level=1, nft=3), tc.cell(1, d, level=1, nft=3), tc.cell(2, 2 * d, level=1, ctype=1, nft=1),
                                   tc.cell(3, 0, level=1, ctype=2, nft=1, y=d)], [{"iter": 4, "do": "small", "cell": 0}], T_ns=1200))
    # an epithelial type with a single face type (known finding F13)
    out.append(tc.scenario("ft1", [tc.cell(0, 0, level=2, nft=1), tc.cell(1, 1.8 * tc.R, level=2, nft=1)], [], T_ns=1600))
    if tier == "thorough":
        for k in range(24):
            n = rnd.randint(2, 6)
            script = []
            alive = list(range(n)); nxt = n
            for it in sorted(rnd.sample(range(0, 30), rnd.randint(2, 6))):
                if not alive:
                    break
                c = rnd.choice(alive)
                if rnd.random() < 0.5 and len(alive) < 9:
                    it5 = it - it % 5
                    script.append({"iter": it5, "do": "ready", "cell": c}); alive.remove(c); alive += [nxt, nxt + 1]; nxt += 2
                else:
                    script.append({"iter": it, "do": "small", "cell": c}); alive.remove(c)
            out.append(tc.scenario("rnd%d" % k, row(n, rnd.choice([d, far]), level=rnd.choice([1, 2])), script, T_ns=3500, threads=rnd.choice([1, 2, 8, 16]), seed=seed + k))
    return out


def run(tier, seed, replay=None):
    chk = Check("C08", tier, seed)
    work = vlib.scratch("c08")
    if replay:
        with open(replay) as f:
            scns = [json.load(f)["case"]["scenario"]]
    else:
        cfg = "Tissue_quick.cfg" if tier == "quick" else "Tissue_thorough.cfg"
        res = vlib.tlc(tc.SPEC, "TissueMC", cfg, timeout=3000, xmx="12g")
        chk.add_tlc("Tissue/" + cfg, res)
        if res.is_violation:
            chk.violation("design:" + ",".join(res.violated), "TLC: spec/Tissue violates " + ",".join(res.violated) + "\n" + res.out[-2500:])
            return chk.finish()
        vlib.tlc_expect_ok(res, "Tissue")
        scns = scenarios(tier, seed)
    variants = ["m1d0"] if replay else ["m1d0", "m2d0"]       # both coupling models in both tiers
    nev = 0
    for v in variants:
        results = tc.run_scenarios(v, [dict(s, name=s["name"] + "_" + v) for s in scns], work)
        validated = tc.validate_all(results, work)
        nev += tc.report(chk, "C08", validated)
        for s, ev, rc, depth, tags, res in validated[:2]:
            chk.sample({"scenario": s["name"], "script": s["script"], "events": len(ev), "final_ids": [c["id"] for c in ev[-2]["cells"]] if len(ev) > 2 and "cells" in ev[-2] else None})
    # ---- couplings in a population of 65538 cells (list positions beyond 16 bits), both coupling models
    if not replay:
        for variant in ("m1d0", "m2d0"):
            bdir = vlib.build(variant, ["contact_driver"])
            bp = os.path.join(work, "bigpop_%s.ndjson" % variant)
            rc, out = vlib.run([os.path.join(bdir, "contact_driver"), "bigpop", bp], timeout=900)
            brow = vlib.read_ndjson(bp) if os.path.exists(bp) else []
            if rc != 0 or not brow:
                chk.violation("crash:bigpop:%s" % variant, "the contact phase of %s crashed on a population of 65538 cells (status %d)" % (variant, rc), {"variant": variant})
                continue
            nb, bbad = vlib.tlc_validate_records(tc.SPEC, "BigPopTrace", "BigPopTrace.cfg", brow, chunk=5, par=1, workers=1)
            chk.cov["states"] += nb
            chk.cov["transitions"] += nb
            if "P_BigNotVacuous" in bbad and "P_BigCouplingValid" not in bbad:
                raise ModelError("bigpop is vacuous: %r" % brow[0])
            if "P_BigCouplingValid" in bbad:
                chk.violation("impl:C08_CouplingValid:bigpop:%s" % variant, "population of %d cells, contact model %d: %d of %d stored couplings do not designate a live node of the touching cell" % (
                    brow[0]["ncells"], brow[0]["model"], brow[0]["bad"], brow[0]["ncoupl"]), {"variant": variant, "big_record": brow[0]})
            chk.cov.setdefault("big_population", {})[variant] = brow[0]
    # ---- the identifier discipline for populations of ANY size: spec/Tissue/IdAlloc, proved with the TLA+ proof system (IndInv is
    # inductive, a division hands out ids nobody ever carried); the TLC run above checks that Tissue refines it (RefinesIdAlloc)
    if not replay:
        pdir = os.path.join(work, "proof"); os.makedirs(pdir, exist_ok=True)
        shutil.copy(os.path.join(tc.SPEC, "IdAlloc.tla"), pdir)
        rc, out = vlib.run(["tlapm", "--toolbox", "0", "0", "IdAlloc.tla"], timeout=900, cwd=pdir) if False else vlib.run(["sh", "-c", "cd %s && timeout 800 tlapm IdAlloc.tla" % pdir], timeout=900)
        proved = re.search(r"All (\d+) obligations proved", out)
        chk.cov["tlaps"] = {"module": "Tissue/IdAlloc", "obligations_proved": int(proved.group(1)) if proved else 0, "rc": rc}
        if not proved:
            raise ModelError("tlapm did not prove spec/Tissue/IdAlloc: rc=%d\n%s" % (rc, out[-1500:]))
    # ---- the phase that writes face-type indices from the couplings: spec/Tissue/Polarisation (decision of
    # special_polarization_update for both coupling models; TLC: index in range, only apical / lateral written, a face coupled corner
    # by corner to one triangle of one neighbour is lateral, a face with a free corner is not lateralised) replayed into the real function
    npol = 0
    if not replay:
        rnd = random.Random(seed)
        for m, variant in ((1, "m1d0"), (2, "m2d0")):
            dump = os.path.join(work, "pol%d" % m)
            res = vlib.tlc(tc.SPEC, "Polarisation", "Polarisation_m%d.cfg" % m, dump=dump, timeout=1500, xmx="8g")
            chk.add_tlc("Tissue/Polarisation_m%d.cfg" % m, res)
            if res.is_violation:
                chk.violation("design:Polarisation:%d:%s" % (m, ",".join(res.violated)), "TLC: spec/Tissue/Polarisation (model %d) violates %s" % (m, res.violated))
                continue
            vlib.tlc_expect_ok(res, "Polarisation")
            sts = list(vlib.parse_dump(dump + ".dump"))
            if tier == "quick":
                sts = rnd.sample(sts, 4000)
            pcases = []
            for st in sts:
                f = st["face"]
                corners = [f[i] for i in (1, 2, 3)] if isinstance(f, dict) else list(f)
                pcases.append({"k": len(pcases) + 1, "prev": st["prev"], "nodes": [{"cpl": [list(a) for a in sorted(x["cpl"])], "agree": x["agree"]} for x in corners]})
            bdir = vlib.build(variant, ["polar_driver"])
            cp, op = os.path.join(work, "polc%d.ndjson" % m), os.path.join(work, "polo%d.ndjson" % m)
            vlib.write_ndjson(cp, pcases)
            rc, out = vlib.run([os.path.join(bdir, "polar_driver"), cp, op], timeout=1800)
            rows = vlib.read_ndjson(op) if os.path.exists(op) else []
            if rc != 0 or len(rows) != len(pcases):
                chk.violation("crash:polarisation:%d" % m, "special_polarization_update (contact model %d) crashed on %s" % (m, json.dumps(pcases[len(rows)] if len(rows) < len(pcases) else None)), {"model": m})
                continue
            n, bad = vlib.tlc_validate_records(tc.SPEC, "PolarTrace", "PolarTrace_m%d.cfg" % m, rows, chunk=2000, par=4, workers=2)
            chk.cov["states"] += n
            chk.cov["transitions"] += n
            npol += n
            drift = {inv: len(idxs) for inv, idxs in bad.items() if inv.startswith("D_")}
            if drift:
                vlib.log("NOTE design drift (the real special_polarization_update of contact model %d decides differently from spec/Tissue/Polarisation; "
                         "C08 itself only demands a valid index): %r, e.g. %s -> %d" % (m, drift, json.dumps(pcases[next(iter(bad[next(iter(drift))]))]), rows[next(iter(bad[next(iter(drift))]))]["out"]))
                chk.cov.setdefault("design_drift", {}).update({"polarisation_m%d_%s" % (m, k_): v for k_, v in drift.items()})
            for inv, idxs in sorted(bad.items()):
                if inv.startswith("D_"):
                    continue
                for i in idxs[:50]:
                    chk.violation("impl:polarisation:%d:%s:%s" % (m, inv, json.dumps(pcases[i]["nodes"]) + str(pcases[i]["prev"])),
                                  "special_polarization_update (contact model %d) on a face with corner couplings %s, previous type %d: type %d written; violates %s" % (
                                      m, json.dumps(pcases[i]["nodes"]), pcases[i]["prev"], rows[i]["out"], inv), {"polar_case": pcases[i], "model": m})
            if m == 1:
                c1 = json.loads(json.dumps(rows[0])); c1["out"] = 2 if c1["out"] != 2 else 1
                _, cb = vlib.tlc_validate_records(tc.SPEC, "PolarTrace", "PolarTrace_m1.cfg", [c1], chunk=5, par=1, workers=1)
                if 0 not in cb.get("D_Decision", []):
                    raise ModelError("polarisation control not rejected")
        chk.cov["polarisation_decisions_replayed"] = npol
    chk.cov["evaluations"] = nev + npol
    chk.cov["distinct_nontrivial"] = len(scns) * len(variants)
    chk.cov["rule"] = ("one trace per scripted history (which cell divides / vanishes at which iteration and list position, spacing, threads, "
                       "contact model); one event per phase boundary; non-trivial = history with at least one division or removal")
    if not replay:
        # negative controls: a corrupted local id at a use point / a re-used id must be rejected; the pre-fix design must be refuted
        s, ev, rc, txt, ep = tc.run_scenarios("m1d0", [dict(scns[0], name="ctl")], work)[0]
        ev1 = json.loads(json.dumps(ev))
        k = next(i for i, e in enumerate(ev1) if e.get("e") == "phase" and e["k"] == 5 and len(e["cells"]) > 1)
        ev1[k]["cells"][1]["lid"] = 0
        p1 = os.path.join(work, "ctl1.ndjson"); vlib.write_ndjson(p1, ev1)
        _, t1 = tc.validate_trace(p1, ev1, work, "ctl1")
        ev2 = json.loads(json.dumps(ev))
        k2 = next(i for i, e in enumerate(ev2) if e.get("e") == "phase" and e["k"] == 6)
        ev2[k2]["coupl"]["bad_range"] = 3
        p2 = os.path.join(work, "ctl2.ndjson"); vlib.write_ndjson(p2, ev2)
        _, t2 = tc.validate_trace(p2, ev2, work, "ctl2")
        pre = vlib.tlc(tc.SPEC, "TissueMC", "Tissue_prefix_F4.cfg", timeout=900, xmx="12g")
        rej = int(any(t == "C08_LidIsIndex" for t, _ in t1)) + int(any(t == "C08_CouplingValid" for t, _ in t2)) + int(bool(set(pre.violated) & {"LidIsIndex", "CouplingValid"}))
        chk.cov["controls_run"], chk.cov["controls_rejected"] = 3, rej
        if rej != 3:
            raise ModelError("negative controls: %d of 3 rejected (%r %r %r)" % (rej, t1, t2, pre.violated))
    chk.assumptions += ["scripted histories: a cell is made ready to divide / too small by setting its division volume / its type's minimum volume "
                        "from the driver (each cell has its own parameter object)",
                        "validity is required where the references are used: local id == list position at the events before contact, polarisation, "
                        "forces and integration; couplings valid after the contact phase until integration; a non-mutual coupling is not counted",
                        "contact model 2 is exercised in the thorough tier only"]
    shutil.rmtree(work, ignore_errors=True)
    return chk.finish()
