"""C07 -- contact forces are reciprocal, short-ranged and push overlapping cells apart.
spec/Contact/ContactRule states the narrow phase on the integer lattice (closest point from spec/ClosestPoint, forbidden side with the two
reversed type pairs, cut-off test, barycentric distribution of the reaction); TLC checks Reciprocal, NoForceOutOfRangeOrSameCell, PushesBack
and OverlapResolved for every node position, four triangles, every pair of cell types and two cut-offs.  Every enumerated case is replayed
through the public narrow phase of the real contact models (node-node coupling, node-face spring; face-face coupling in the thorough tier)
and validated by TLC (ContactTrace); whole contact_model::run calls on lattice tissues must add no net force (also under C06)."""
import json, os, random, shutil
import vlib
from vlib import Check, ModelError

SPEC = os.path.join(vlib.ROOT, "spec", "Contact")
P_INV = ["P_Setup", "P_Reciprocal", "P_ShortRanged", "P_Repulsion", "P_AllowedSide"]
MODEL = {"m1d0": 1, "m0d0": 0, "m2d0": 2}


def run(tier, seed, replay=None):
    chk = Check("C07", tier, seed)
    work = vlib.scratch("c07")
    rnd = random.Random(seed)
    dump = os.path.join(work, "cr")
    res = vlib.tlc(SPEC, "ContactRuleMC", "ContactRule.cfg", dump=dump, timeout=1800)
    chk.add_tlc("Contact/ContactRuleMC", res)
    if res.is_violation:
        chk.violation("design:" + ",".join(res.violated), "TLC: spec/Contact/ContactRule violates " + ",".join(res.violated) + "\n" + res.out[-2000:])
        return chk.finish()
    vlib.tlc_expect_ok(res, "ContactRule")
    states = [st for st in vlib.parse_dump(dump + ".dump") if not st["same"]]
    decs = {}
    for st in states:
        decs[st["out"]["dec"]] = decs.get(st["out"]["dec"], 0) + 1
    if len(decs) < 2:
        raise ModelError("vacuous enumeration: %r" % decs)
    nmax = 5000 if tier == "quick" else 200000
    # keep every repulsion case of a sample and the same number of others
    if len(states) > nmax:
        rep = [s for s in states if s["out"]["dec"] == "repulsion"]
        oth = [s for s in states if s["out"]["dec"] != "repulsion"]
        states = rnd.sample(rep, min(len(rep), nmax // 2)) + rnd.sample(oth, min(len(oth), nmax // 2))
    builds = ["m1d0", "m0d0", "m2d0"]        # every contact model in both tiers
    if replay:
        with open(replay) as f:
            r = json.load(f)["case"]
        if "phases_case" in r:
            import coupling
            coupling.stage(chk, tier, seed, work, rnd)          # the whole stage: it is short and deterministic for a seed
            shutil.rmtree(work, ignore_errors=True)
            return chk.finish()
        if "coupling_case" in r:
            import coupling
            coupling.stage(chk, tier, seed, work, rnd, only=r["coupling_case"])
            shutil.rmtree(work, ignore_errors=True)
            return chk.finish()
        builds = [r["variant"]]
    total = 0
    for variant in builds:
        bdir = vlib.build(variant, ["contact_driver"])
        cases = []
        for i, st in enumerate(states):
            off = rnd.choice([[0, 0, 0], [40, -25, 10], [-300, 200, 100]])
            cases.append({"k": i + 1, "p": list(st["p"]), "a": list(st["a"]), "b": list(st["b"]), "c": list(st["c"]), "t1": st["t1"], "t2": st["t2"], "cut2": st["cut2"],
                          "unit": rnd.choice([2.0 ** -17, 2.0 ** -20, 2.0 ** -27, 2.0 ** -34]), "off": off, "den": st["out"]["r"]["den"], "cfg": ("B" if i % 2 else "A")})
        if replay:
            cases = [r["case"]]
        cp, op = os.path.join(work, "cases_%s.ndjson" % variant), os.path.join(work, "obs_%s.ndjson" % variant)
        vlib.write_ndjson(cp, cases)
        rc, out = vlib.run([os.path.join(bdir, "contact_driver"), "pair", cp, op], timeout=3000)
        obs = vlib.read_ndjson(op) if os.path.exists(op) else []
        if rc != 0 or len(obs) != len(cases):
            bad = cases[len(obs)] if len(obs) < len(cases) else None
            chk.violation("crash:%s:%s" % (variant, json.dumps(bad)), "contact_driver pair (%s) terminated with status %d on %s" % (variant, rc, json.dumps(bad)), {"variant": variant, "case": bad})
            continue
        recs = []
        for c, o in zip(cases, obs):
            d2 = c["den"] * c["den"]
            exact = True
            def ints(v):
                nonlocal exact
                out = []
                for x in v:
                    y = x * d2
                    if abs(y - round(y)) > 1e-6 * max(1.0, abs(y)):
                        exact = False
                    out.append(int(round(y)))
                return out
            fn, fa, fb, fc = ints(o["fn"]), ints(o["fa"]), ints(o["fb"]), ints(o["fc"])
            s = [o["fn"][j] + o["fa"][j] + o["fb"][j] + o["fc"][j] for j in range(3)]
            mag = max(1e-300, max(abs(x) for v in (o["fn"], o["fa"], o["fb"], o["fc"]) for x in v))
            model = MODEL[variant]
            adhesion = model == 0 and not exact        # the spring model's adhesion amplitude is not a lattice quantity: only its direction is checked
            recs.append({"k": c["k"], "p": c["p"], "a": c["a"], "b": c["b"], "c": c["c"], "t1": c["t1"], "t2": c["t2"], "cut2": c["cut2"], "adh2n": (c["cut2"] if c.get("cfg") == "B" else (4 * c["cut2"] if model == 0 else c["cut2"])), "adh2d": (4 if c.get("cfg") == "B" else 1), "model": model,
                         "fn": fn, "fa": fa, "fb": fb, "fc": fc, "exact": exact or adhesion, "face_ok": o["face_ok"], "coupled": o["coupled"],
                         "sum_zero": max(abs(x) for x in s) <= 1e-9 * mag, "others_zero": o["others"] == 0, "apex_zero": all(x == 0 for x in o["fapex"])})
        n, bad = vlib.tlc_validate_records(SPEC, "ContactTrace", "ContactTrace.cfg", recs, chunk=1500, par=4, workers=4)
        chk.cov["states"] += n
        chk.cov["transitions"] += n
        total += n
        for inv, idxs in sorted(bad.items()):
            for i in idxs:
                c = cases[i]
                chk.violation("impl:%s:%s:%s" % (variant, inv, json.dumps({k: c[k] for k in ("p", "a", "b", "c", "t1", "t2", "cut2")})),
                              "narrow phase of contact model %d on %s violates %s: forces (x den^2) node %s corners %s %s %s" % (MODEL[variant], json.dumps(c), inv, recs[i]["fn"], recs[i]["fa"], recs[i]["fb"], recs[i]["fc"]),
                              {"variant": variant, "case": c, "invariant": inv})
        chk.cov.setdefault("replayed", {})[variant] = len(cases)
        chk.sample({"build": variant, "case": cases[0], "forces_x_den2": [recs[0]["fn"], recs[0]["fa"], recs[0]["fb"], recs[0]["fc"]]})
        if not replay and variant == "m1d0":
            reps = [r for r in recs if r["a"] == [0, 0, 0] and r["b"] == [2, 0, 0] and r["c"] == [0, 2, 0] and r["fn"][2] != 0]      # clearly off the tangent plane
            c1 = json.loads(json.dumps(reps[0])); c1["fa"][0] += 1; c1["sum_zero"] = False
            c2 = json.loads(json.dumps(reps[-1])); c2["fn"] = [-x for x in c2["fn"]]
            _, cbad = vlib.tlc_validate_records(SPEC, "ContactTrace", "ContactTrace.cfg", [c1, c2], chunk=5, par=1, workers=2)
            rej = int(0 in cbad.get("P_Reciprocal", [])) + int(1 in cbad.get("P_Repulsion", []))
            chk.cov["controls_run"], chk.cov["controls_rejected"] = 2, rej
            if rej != 2:
                raise ModelError("negative controls: %d of 2 rejected %r" % (rej, cbad))
    # ---- from the pair rule to the forces of a whole contact phase: contact_model::run on tissues (fresh and fragmented cells, cell
    # identifiers equal to / rotated against / unrelated to list positions) must produce exactly the sum of the pair rule over all
    # node-triangle pairs of DIFFERENT cells -- no pair of one cell with itself, no pair skipped -- and forces that add up to zero.
    # With the pair rule validated above, the forces of a run are then reciprocal, short-ranged and separating.
    nrun = 0
    # ---- the coupling protocol of the node-node coupling model (pairs of two epithelial cells, excluded from the pair rule above):
    # every order of the presentations model-checked, every state replayed step by step through the real resolve_contact
    if not replay:
        import coupling
        total += coupling.stage(chk, tier, seed, work, rnd)
    if not replay:
        import c06
        allt = c06.cases(tier, seed)
        tissues = allt if tier == "thorough" else [c for j, c in enumerate(allt) if j % 4 in (1, 2)]     # (the identifier variants cycle with period 3)
        for i, c in enumerate(tissues):
            c["k"] = i + 1
        for variant in builds:
            bdir = vlib.build(variant, ["contact_driver"])
            cp, op = os.path.join(work, "tis_%s.ndjson" % variant), os.path.join(work, "tisobs_%s.ndjson" % variant)
            vlib.write_ndjson(cp, tissues)
            rc, out = vlib.run([os.path.join(bdir, "contact_driver"), "tissue", cp, op], timeout=3000, env={"OMP_NUM_THREADS": "4"})
            obs = vlib.read_ndjson(op) if os.path.exists(op) else []
            if rc != 0 or len(obs) != len(tissues):
                bad = tissues[len(obs)] if len(obs) < len(tissues) else None
                chk.violation("crash:run:%s:%s" % (variant, json.dumps(bad)), "contact_model::run (%s) terminated with status %d on tissue %s" % (variant, rc, json.dumps(bad)), {"variant": variant, "tissue": bad})
                continue
            for c, o in zip(tissues, obs):
                nrun += 1
                if not o["equal"] or not o["net_zero"] or not o.get("equal_reused", True):
                    chk.violation("impl:run:%s:%s" % (variant, json.dumps({k: v for k, v in c.items() if k != "k"})),
                                  "contact model %s: the forces of a whole contact phase on tissue %s are not the sum of the pair rule over the node-triangle pairs of different cells (%s; net zero: %s)"
                                  % (variant, json.dumps(c), o["rel"], o["net_zero"]), {"variant": variant, "tissue": c})
        chk.cov["whole_phase_runs"] = nrun
    chk.cov["traces_validated_against_impl"] = total + nrun
    chk.cov["evaluations"] = total + nrun
    chk.cov["distinct_nontrivial"] = len(states)
    chk.cov["decisions_in_spec"] = decs
    chk.cov["rule"] = "one case per state of ContactRuleMC (node position in the lattice box, 4 triangles, 24 type pairs, 2 cut-offs), replayed per contact model at four units (8e-6 ... 6e-11: penetrations far below any absolute tolerance) and three offsets"
    chk.assumptions += ["pairs of two epithelial cells can end in a coupling (order dependent): their protocol is spec/Contact/Coupling, replayed with the gates on normals and curvature open (a closed gate is a no-op of the same step); same-cell exclusion and pair selection are part of the models' loops and are "
                        "covered by the whole-phase comparison (shared with C06)", "cut-offs are integer multiples of the lattice unit (squared cut-offs exact); the spring model's adhesion amplitude "
                        "involves sqrt(d2): only reciprocity, range and direction are checked for it"]
    shutil.rmtree(work, ignore_errors=True)
    return chk.finish()
