"""C02 -- internal cell forces conserve momentum and derive from the stated energies.
spec/Geom/LatticeForces states the pressure and tension forces on the integer lattice, where they are exact; TLC checks, for the seeds and
the unit cube at every lattice rotation and several translations, that the pressure force is the pressure times the gradient of the volume
(two different formulas), that pressure and tension forces have zero resultant and zero torque, and rigid covariance.  Real
apply_pressure_on_surface / apply_surface_tension_and_membrane_elasticity on lattice meshes (seeds, cube, boxes) are compared exactly, node by
node, by TLC (ForceTrace).  For every force term (also bending and angle regularisation, which involve acos / cot) and all together, on
generic jittered ellipsoids with random parameters, freshly built and with a history (unused slots inside the node / face lists, nodes
moved since): zero resultant, zero torque, covariance under a random rigid motion, and agreement of
pressure and tension / elasticity forces with finite differences of volume and effective-tension-weighted area -- evaluated by the driver
with independent formulas and required by TLC."""
import itertools, json, os, random, shutil
import vlib
from vlib import Check, ModelError
from c12 import rotations

SPEC = os.path.join(vlib.ROOT, "spec", "Geom")
P_INV = ["P_Lattice_NoError", "P_Lattice_Pressure", "P_Lattice_Tension", "P_NetForceZero", "P_NetTorqueZero", "P_RigidCovariance", "P_StorageOrder", "P_EnergyGradients"]


def cases(tier, seed):
    rnd = random.Random(seed)
    rots = rotations()
    out = []
    shapes = [("tetra", None), ("octa", None), ("bipyr", None), ("cube", None), ("box", [2, 1, 1]), ("box", [1, 2, 3])]
    if tier == "thorough":
        shapes += [("box", [a, b, c]) for a in (1, 2, 3) for b in (1, 2) for c in (1, 3)]
    for sh, dims in shapes:
        for g in (rots if tier == "thorough" else rnd.sample(rots, 5)):
            out.append({"kind": "lattice", "shape": sh, "dims": dims or [1, 1, 1], "perm": g[0], "sign": g[1], "t": rnd.choice([[0, 0, 0], [7, -3, 50], [-20, 11, 2], [200, 100, -300]]),
                        "unit": rnd.choice([2.0 ** -17, 2.0 ** -20, 1.0, 2.0 ** -30, 2.0 ** -37, 2.0 ** 20])})       # "any size": down to nanometres, up to 10^6
    for n in range(12 if tier == "quick" else 150):
        sc = rnd.choice([4e-6, 1.0, 2e-5, 3e-9, 7e-11, 2.5e5])
        on = lambda: rnd.random() < 0.7
        out.append({"kind": "generic", "level": rnd.choice([1, 2]), "jitter": rnd.choice([0.0, 0.03, 0.06]), "scale": sc, "pos": [rnd.uniform(-10, 10) * sc for _ in range(3)], "seed": seed + n,
                    "params": {"g0": 3e-4 if on() else 0.0, "ka": rnd.choice([0.0, 1e-15, 3e-13]), "kang": rnd.choice([0.0, 1e-16, 1e-14]), "K": rnd.choice([0.0, 2500.0, 1e4]),
                               "kb": rnd.choice([0.0, 2e-18, 5e-17]), "tv": rnd.choice([0.8, 1.0, 1.3])}})
    # the same on cells with a history: unused slots inside the node / face lists, nodes moved since the lists were built
    for c in [x for x in out if x["kind"] == "generic"][:: 2 if tier == "quick" else 1]:
        d = json.loads(json.dumps(c))
        d["frag"], d["fragn"] = rnd.choice([1, 2, 4, 7]), rnd.random() < 0.5
        out.append(d)
    for i, c in enumerate(out):
        c["k"] = i + 1
    return out


def run(tier, seed, replay=None):
    chk = Check("C02", tier, seed)
    bdir = vlib.build("m1d0", ["force_driver"])
    work = vlib.scratch("c02")
    if replay:
        with open(replay) as f:
            cs = [json.load(f)["case"]["case"]]
        cs[0]["k"] = 1
    else:
        res = vlib.tlc(SPEC, "LatticeForcesMC", "LatticeForces.cfg", timeout=1800)
        chk.add_tlc("Geom/LatticeForcesMC", res)
        if res.is_violation:
            chk.violation("design:" + ",".join(res.violated), "TLC: spec/Geom/LatticeForces violates " + ",".join(res.violated) + "\n" + res.out[-2000:])
            return chk.finish()
        vlib.tlc_expect_ok(res, "LatticeForces")
        cs = cases(tier, seed)
    cp, op = os.path.join(work, "cases.ndjson"), os.path.join(work, "out.ndjson")
    vlib.write_ndjson(cp, cs)
    rc, out = vlib.run([os.path.join(bdir, "force_driver"), cp, op], timeout=1800)
    rows = vlib.read_ndjson(op) if os.path.exists(op) else []
    if rc != 0 or len(rows) != len(cs):
        bad = cs[len(rows)] if len(rows) < len(cs) else None
        chk.violation("crash:%s" % json.dumps(bad), "force_driver terminated with status %d on %s" % (rc, json.dumps(bad)), {"case": bad})
        return chk.finish()
    n, bad = vlib.tlc_validate_records(SPEC, "ForceTrace", "ForceTrace.cfg", rows, chunk=60, par=4, workers=4)
    chk.cov["states"] += n
    chk.cov["transitions"] += n
    for inv, idxs in sorted(bad.items()):
        for i in idxs:
            r = rows[i]
            facts = {t: v["rel"] for t, v in r["terms"].items()} if r["kind"] == "generic" else {"exact": r["exact"], "press6": r["press6"][:2], "tens2": r["tens2"][:2]}
            if r["kind"] == "generic":
                facts["fd"] = r["fd_rel"]
            chk.violation("impl:%s:%s" % (inv, json.dumps({k: v for k, v in cs[i].items() if k != "k"})), "internal forces on case %s violate %s: %s" % (json.dumps(cs[i]), inv, json.dumps(facts)),
                          {"case": cs[i], "invariant": inv})
    chk.cov["traces_validated_against_impl"] = n
    chk.cov["evaluations"] = n
    chk.cov["distinct_nontrivial"] = len({json.dumps({k: v for k, v in c.items() if k != "k"}) for c in cs})
    chk.cov["rule"] = "lattice cases: (shape, lattice rotation, translation, unit) with exact per-node comparison; generic cases: jittered ellipsoids with random parameter sets, five force terms each"
    act = {}
    for r in rows:
        if r["kind"] == "generic":
            for t, v in r["terms"].items():
                act[t] = act.get(t, 0) + int(v["active"])
    chk.cov["generic_cases_with_term_active"] = act
    if not replay and any(v == 0 for v in act.values()):
        raise ModelError("vacuous: a force term was never active: %r" % act)
    for r, c in list(zip(rows, cs))[:: max(1, len(cs) // 3)][:3]:
        chk.sample({"case": c, "result": ({t: v["rel"] for t, v in r["terms"].items()} if r["kind"] == "generic" else {"press6": r["press6"][:3]})})
    if not replay:
        lat = [r for r in rows if r["kind"] == "lattice"]
        gen = [r for r in rows if r["kind"] == "generic"]
        c1 = json.loads(json.dumps(lat[0])); c1["press6"][0][0] += 1
        c2 = json.loads(json.dumps(gen[0])); c2["terms"]["bending"]["net_ok"] = False
        _, cbad = vlib.tlc_validate_records(SPEC, "ForceTrace", "ForceTrace.cfg", [c1, c2], chunk=5, par=1, workers=2)
        rej = int(0 in cbad.get("P_Lattice_Pressure", [])) + int(1 in cbad.get("P_NetForceZero", []))
        chk.cov["controls_run"], chk.cov["controls_rejected"] = 2, rej
        if rej != 2:
            raise ModelError("negative controls: %d of 2 rejected %r" % (rej, cbad))
    chk.assumptions += ["exact comparison only on lattice meshes (pressure everywhere; tension where every triangle has a lattice unit normal: cube and boxes)",
                        "bending and angle regularisation are not specified in TLA+ (acos / cot): their zero resultant / torque / covariance are verdicts of the C++ driver "
                        "(1e-9 relative to the sum of force magnitudes, 1e-7 for covariance) required by TLC; finite differences to 1e-5 of the largest force"]
    shutil.rmtree(work, ignore_errors=True)
    return chk.finish()
