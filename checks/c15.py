"""C15 -- results independent of thread count / schedule; parallel errors become exceptions.
Design: PlusCal specifications ParDivide (parallel division loop, with the in-loop append of the code before the fix of F5 as a
refuted control) and ExcHandler (parallel_exception_handler), checked by TLC over every interleaving of 2-3 threads, including
termination under fairness.  Implementation: (a) real cell_divider::run under seeded scheduling delays and 1..16 threads, observed
through hook H5 (every read of the shared list, every critical section with the list's size and buffer): TLC (ParTrace) requires
that no read of another thread lies inside a critical section that resized the list, and that the resulting population equals the
sequential one; (b) real parallel_exception_handler, refine_meshes and mesh_writer::write with failing items at every position;
(c) whole solver runs on non-interacting cells at 1, 2, 3, 8, 16 threads and repeated: bit-identical digests."""
import json, os, random, shutil, re
import vlib, tissue_common as tc
from vlib import Check, ModelError

SPEC = os.path.join(vlib.ROOT, "spec", "Parallel")


def validate(path, work, name):
    res = vlib.tlc(SPEC, "ParTrace", "ParTrace.cfg", workers=1, env={"OBS": path}, cont=True, timeout=600, xmx="2g", metadir=os.path.join(work, "md_" + name))
    if res.model_error:
        raise ModelError("ParTrace failed on %s rc=%d\n%s" % (name, res.rc, res.out[-2500:]))
    tags = set()
    for block in re.split(r"Error: Invariant ", res.out)[1:]:
        m = re.match(r"I_(\w+) is violated", block)
        ls = re.findall(r"/\\ l = (\d+)", block)
        if m and ls:
            tags.add((m.group(1), int(ls[-1])))
    return res, tags


def run(tier, seed, replay=None):
    chk = Check("C15", tier, seed)
    bdir = vlib.build("m1d0", ["par_driver", "tissue_driver"])
    work = vlib.scratch("c15")
    rnd = random.Random(seed)
    # ---- design level
    for mod, cfg in (("ParDivide", "ParDivide_fixed.cfg"), ("ExcHandler", "ExcHandler.cfg"), ("ExcHandler", "ExcHandler_none.cfg")):
        res = vlib.tlc(SPEC, mod, cfg, timeout=1500, workers=8)
        chk.add_tlc("%s/%s" % (mod, cfg), res)
        if res.is_violation:
            chk.violation("design:%s:%s" % (mod, ",".join(res.violated)), "TLC: %s violates %s\n%s" % (mod, res.violated, res.out[-2000:]))
            return chk.finish()
        vlib.tlc_expect_ok(res, mod)
    # ---- (a) parallel division
    jobs = []
    nsched = 6 if tier == "quick" else 60
    for k in range(nsched):
        n = rnd.randint(3, 8)
        ready = sorted(rnd.sample(range(n), rnd.randint(1, n)))
        jobs.append(("divide", {"seed": seed * 1000 + k, "geom_seed": seed + k % 3, "n": n, "ready": ready, "threads": rnd.choice([1, 2, 3, 4, 8, 16]),
                                "crit_sleep_us": rnd.choice([500, 2000, 4000]), "read_sleep_us": rnd.choice([0, 300, 1500])}))
    # adversarial schedules: every dividing cell on its own thread (or two threads with a static partition), the cells started in
    # REVERSE order of their list positions, so that cells complete in descending order -- anything that relies on the completion
    # order being the list order shows
    for n, ready, th in ((4, [0, 1, 3], 4), (6, [0, 1, 3], 2), (5, [0, 2, 4], 8), (3, [0, 1, 2], 3)) if tier == "quick" else \
            [(rnd.randint(3, 8), None, rnd.choice([2, 3, 4, 8, 16])) for _ in range(16)]:
        if ready is None:
            ready = sorted(rnd.sample(range(n), rnd.randint(2, n)))
        jobs.append(("divide", {"seed": seed * 1000 + 500 + len(jobs), "geom_seed": seed + len(jobs) % 3, "n": n, "ready": ready, "threads": th,
                                "crit_sleep_us": 500, "read_sleep_us": 0, "reverse_step_us": 40000}))
    # ---- (b) exceptions
    for k in range(4 if tier == "quick" else 30):
        n = rnd.randint(2, 9)
        jobs.append(("exc", {"seed": seed + k, "n": n, "throwers": sorted(rnd.sample(range(n), rnd.randint(0, min(3, n)))), "threads": rnd.choice([1, 2, 4, 8]), "target": "handler"}))
    for pos in (range(0, 5, 2) if tier == "quick" else range(5)):
        jobs.append(("exc", {"seed": seed, "n": 5, "throwers": [pos], "threads": rnd.choice([2, 4, 8]), "target": "refine"}))
    jobs.append(("exc", {"seed": seed, "n": 4, "throwers": [], "threads": 4, "target": "refine"}))
    jobs.append(("exc", {"seed": seed, "n": 2, "throwers": [0], "threads": 2, "target": "writer"}))
    if replay:
        with open(replay) as f:
            r = json.load(f)["case"]
        jobs = [(r["mode"], r["scenario"])]
    ntr = 0
    for j, (mode, scn) in enumerate(jobs):
        if mode == "write":
            continue          # stage (d)
        sp, ep = os.path.join(work, "s%d.json" % j), os.path.join(work, "e%d.ndjson" % j)
        with open(sp, "w") as f:
            json.dump(scn, f)
        rc, out = vlib.run([os.path.join(bdir, "par_driver"), mode, sp, ep], timeout=600)
        if rc != 0:
            chk.violation("crash:%s:%s" % (mode, json.dumps(scn)), "par_driver %s terminated with status %d on %s (crash or escaped exception in a parallel phase)\n%s" % (mode, rc, json.dumps(scn), out[-400:]),
                          {"mode": mode, "scenario": scn})
            continue
        ev = sorted(vlib.read_ndjson(ep), key=lambda e: e["ticket"])
        vlib.write_ndjson(ep, ev)
        res, tags = validate(ep, work, "j%d" % j)
        if res.depth != len(ev) + 1 and not tags:
            raise ModelError("ParTrace consumed %d of %d events" % (res.depth - 1, len(ev)))
        chk.cov["states"] += res.distinct
        chk.cov["transitions"] += res.generated
        ntr += 1
        for tag, line in sorted(tags):
            e = ev[line - 1] if 0 < line <= len(ev) else {}
            chk.violation("impl:%s:%s:%s" % (tag, mode, json.dumps(scn)), "%s scenario %s: event %d %s violates %s" % (mode, json.dumps(scn), line, json.dumps({k: e.get(k) for k in ("e", "t", "i", "size")}), tag),
                          {"mode": mode, "scenario": scn, "tag": tag})
        if j % 7 == 0:
            chk.sample({"mode": mode, "scenario": scn, "events": len(ev), "last": {k: v for k, v in ev[-1].items() if k not in ("cells", "ref")}})
    # ---- (b') the exception funnel under load: thousands of items throwing at once
    if not replay:
        sp, ep = os.path.join(work, "stress.json"), os.path.join(work, "stress.ndjson")
        with open(sp, "w") as f:
            json.dump({"seed": seed, "n": 4000, "rounds": 12 if tier == "quick" else 60, "threads": 8}, f)
        rc, out = vlib.run([os.path.join(bdir, "par_driver"), "excstress", sp, ep], timeout=900)
        rows = vlib.read_ndjson(ep) if os.path.exists(ep) else []
        if rc != 0 or not rows:
            chk.violation("crash:excstress", "parallel_exception_handler with 4000 items throwing at once on 8 threads terminated with status %d (heap corruption / terminate in the exception funnel)\n%s" % (rc, out[-300:]),
                          {"mode": "excstress", "scenario": {"n": 4000, "threads": 8}})
        elif rows[0]["ok"] != rows[0]["rounds"]:
            chk.violation("impl:C15_RethrownWasThrown:stress", "parallel_exception_handler with 4000 items throwing at once: only %d of %d rounds ended with one of the thrown exceptions reaching the caller intact" % (
                rows[0]["ok"], rows[0]["rounds"]), {"mode": "excstress", "scenario": {"n": 4000, "threads": 8}})
        else:
            ntr += 1
        chk.cov["exception_stress"] = rows[0] if rows else None
    # ---- (c) bit-identical results for non-interacting cells at any thread count, and on repetition
    ndet = 0
    if not replay:
        far = 4.0 * tc.R
        # a heterogeneous tissue: a large stiff cell first, then small ones with and without bending rigidity and with different moduli
        # (per-type decisions that are cached, counted or raced for show when the cells differ)
        base = tc.scenario("det", [dict(tc.cell(i, i * far, level=(2 if i % 2 == 0 else 1), growth=2e-11, K=(2.5e3 if i % 2 else 1e3)), kb=(2e-16 if i in (0, 3) else 0.0)) for i in range(5)],
                           [], T_ns=2500 if tier == "quick" else 6000)
        runs = []
        for th in ([1, 2, 8, 8] if tier == "quick" else [1, 1, 2, 3, 5, 8, 16, 16]):
            runs.append(dict(base, name="det_t%d_%d" % (th, len(runs)), threads=th))
        # the same non-interacting cells listed in the opposite order, one thread: which cell is served first (by which thread) must not
        # matter either -- a deterministic witness of what the thread-count comparison can only catch by winning a race
        runs.append(dict(base, name="det_reversed", threads=1, cells=list(reversed(base["cells"]))))
        results = tc.run_scenarios("m1d0", runs, work)
        rev = results.pop()
        digests = []
        for s, ev, rc, txt, ep in results:
            if rc != 0 or not ev or ev[-1].get("e") != "end":
                chk.violation("crash:det:%d" % s["threads"], "solver run with %d threads terminated abnormally" % s["threads"], {"mode": "det", "scenario": s})
                continue
            digests.append((s["threads"], ev[-1]["digest"], ev[-1]["iter"]))
        ref = digests[0] if digests else None
        for th, dg, it in digests[1:]:
            ndet += 1
            if dg != ref[1] or it != ref[2]:
                diff = [a for a, b in zip(dg, ref[1]) if a != b]
                chk.violation("impl:C15_BitIdentical:threads=%d" % th, "final state with %d threads differs from the single-threaded run (cells %s)" % (th, diff[:4]), {"mode": "det", "scenario": dict(base, threads=th)})
        s_r, ev_r, rc_r, _, _ = rev
        if rc_r != 0 or not ev_r or ev_r[-1].get("e") != "end":
            chk.violation("crash:det:reversed", "solver run with the cells listed in reverse order terminated abnormally", {"mode": "det", "scenario": s_r})
        elif ref:
            ndet += 1
            strip = lambda dg: sorted(x.split(":", 1)[1] for x in dg)
            if strip(ev_r[-1]["digest"]) != strip(ref[1]):
                chk.violation("impl:C15_OrderIndependent", "non-interacting cells end in a different state when they are listed in the opposite order (1 thread): %s vs %s" % (
                    strip(ev_r[-1]["digest"])[:3], strip(ref[1])[:3]), {"mode": "det", "scenario": s_r})
        chk.cov["determinism_runs"] = [{"threads": th, "iterations": it, "digest0": dg[0] if dg else None} for th, dg, it in digests]
    # ---- (d) the mesh output phase: spec/Parallel/WriteSections (compaction joined before the two concurrent sections: no cell is read
    # while it is compacted, both files describe compacted cells, under every schedule; the design that compacts inside the cell-data
    # section is refuted), and real mesh_writer::write calls on a tissue with free slots at 2, 3 and 8 threads, repeated: the two
    # files of every call must be those of the single-threaded call (WriteTrace)
    nwr = 0
    if not replay or (jobs and jobs[0][0] == "write"):
        if not replay:
            res = vlib.tlc(SPEC, "WriteSections", "WriteSections.cfg", timeout=600, workers=4)
            chk.add_tlc("WriteSections/WriteSections.cfg", res)
            if res.is_violation:
                chk.violation("design:WriteSections:%s" % ",".join(res.violated), "TLC: WriteSections violates %s\n%s" % (res.violated, res.out[-2000:]))
            else:
                vlib.tlc_expect_ok(res, "WriteSections")
            sd = vlib.tlc(SPEC, "WriteSections", "WriteSections_seeded.cfg", timeout=600, workers=4)
            if "NoReadDuringCompaction" not in sd.violated:
                raise ModelError("negative control: the design that compacts inside the cell-data section was not refuted (%r)" % sd.violated)
            wscn = {"seed": seed, "threads": 8, "n": 8, "level": 4, "trials": 5 if tier == "quick" else 40, "lmin": 0.6e-6, "lmax": 1e-5, "thread_list": [2, 3, 8] if tier == "quick" else [2, 3, 4, 5, 8, 16]}
        else:
            wscn = jobs[0][1]
        sp, ep = os.path.join(work, "wscn.json"), os.path.join(work, "wev.ndjson")
        with open(sp, "w") as f:
            json.dump(wscn, f)
        rc, out = vlib.run([os.path.join(bdir, "par_driver"), "write", sp, ep], timeout=1200)
        recs = vlib.read_ndjson(ep) if os.path.exists(ep) else []
        expected = 1 + (wscn["trials"] - 1) + wscn["trials"] * len(wscn["thread_list"])
        if rc != 0 or len(recs) != expected:
            chk.violation("crash:write", "par_driver write terminated with status %d after %d of %d mesh_writer::write calls (crash in the mesh output phase with several threads)\n%s" % (rc, len(recs), expected, out[-300:]),
                          {"mode": "write", "scenario": wscn})
        if recs:
            n, bad = vlib.tlc_validate_records(SPEC, "WriteTrace", "WriteTrace.cfg", recs, chunk=2000, par=1, workers=2)
            nwr = n
            chk.cov["states"] += n
            chk.cov["transitions"] += n
            for inv, idxs in sorted(bad.items()):
                r = recs[idxs[0]]
                chk.violation("impl:write:%s" % inv, "mesh_writer::write with %d threads (call %d, %d free node / %d free face slots before the call): %s -- files of %d / %d bytes, single-threaded call %d / %d bytes (%d calls differ)"
                              % (r["threads"], r["call"], r["free_nodes"], r["free_faces"], inv, r["cell_size"], r["face_size"], r["ref_cell_size"], r["ref_face_size"], len(idxs)), {"mode": "write", "scenario": wscn})
            if not replay:
                c1 = dict(recs[-1]); c1["face_digest"] = "0" * 16
                _, cb = vlib.tlc_validate_records(SPEC, "WriteTrace", "WriteTrace.cfg", [c1], chunk=5, par=1, workers=2)
                if 0 not in cb.get("P_FaceFile", []):
                    raise ModelError("negative control: a tampered face-file digest was accepted")
            chk.cov["mesh_output_calls"] = {"calls": len(recs), "threads": sorted({r["threads"] for r in recs}), "free_slots_before": recs[0]["free_nodes"] + recs[0]["free_faces"]}
    ndet += nwr
    chk.cov["traces_validated_against_impl"] = ntr + ndet
    chk.cov["evaluations"] = ntr + ndet
    chk.cov["distinct_nontrivial"] = len({json.dumps(s) for _, s in jobs})
    chk.cov["rule"] = "one trace per seeded schedule of the real division loop / per placement of failing items in a real parallel phase; plus whole-run digests per thread count"
    if not replay:
        # negative controls: a read inside a resizing critical section / a lost exception must be rejected; the pre-fix design must be refuted
        ctl = [{"e": "region_begin", "ticket": 1, "t": 0, "i": -1, "size": 3, "buf": 7}, {"e": "crit_begin", "ticket": 2, "t": 1, "i": 1, "size": 3, "buf": 7},
               {"e": "read", "ticket": 3, "t": 0, "i": 2, "size": 3, "buf": 7}, {"e": "crit_end", "ticket": 4, "t": 1, "i": 1, "size": 5, "buf": 9}]
        p1 = os.path.join(work, "ctl1.ndjson"); vlib.write_ndjson(p1, ctl)
        _, t1 = validate(p1, work, "ctl1")
        ctl2 = [{"e": "start", "ticket": 1, "t": 0, "i": 0}, {"e": "threw", "ticket": 2, "t": 0, "i": 0}, {"e": "returned", "ticket": 3, "t": 0, "i": -1}]
        p2 = os.path.join(work, "ctl2.ndjson"); vlib.write_ndjson(p2, ctl2)
        _, t2 = validate(p2, work, "ctl2")
        pre = vlib.tlc(SPEC, "ParDivide", "ParDivide_prefix_F5.cfg", timeout=600, workers=4)
        rej = int(any(t == "C15_NoReadDuringResize" for t, _ in t1)) + int(any(t == "C15_ExceptionNotLost" for t, _ in t2)) + int("NoReadDuringResize" in pre.violated)
        chk.cov["controls_run"], chk.cov["controls_rejected"] = 3, rej
        if rej != 3:
            raise ModelError("negative controls: %d of 3 rejected (%r %r %r)" % (rej, t1, t2, pre.violated))
    chk.assumptions += ["a data race cannot be executed on demand: what is shown is that a read event of one thread lies between the begin and the end of another thread's "
                        "critical section that changed the list's size or buffer (nothing orders them); scheduling delays are injected at the hook points",
                        "random generators are re-seeded per cell (hook H3) so that a cell divides the same way whichever thread handles it",
                        "bit-identical comparison over runs without division (division draws random samples)"]
    shutil.rmtree(work, ignore_errors=True)
    return chk.finish()
