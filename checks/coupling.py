"""Stage of C07: the coupling protocol of the node-node coupling contact model (spec/Contact/CouplingRule, Coupling, CouplingTrace).
TLC explores every order of the presentations (node, opposing triangle) of five lattice placements of two tetrahedra and checks
DistMatches, OtherCell, WithinCut, Uncoupled, StaleOnlyIfStolen, MutualNearestCoupled, HistExplains and DistMonotone; every state
(a placement and a sequence of presentations) is then replayed, presentation by presentation, through resolve_contact of the real
model on two real epithelial cells, and the partner / stored squared distance of all eight nodes must be what the specification
computes (CouplingTrace: P_Setup, P_Partner, P_Dist, P_Range)."""
import json, os
import vlib
from vlib import ModelError

SPEC = os.path.join(vlib.ROOT, "spec", "Contact")
INF = 1000000
APOS = [[0, 0, 0], [4, 0, 0], [0, 4, 0], [1, 1, -40]]
SHIFT = {1: [0, 0, 2], 2: [1, 0, 2], 3: [2, 0, 2], 4: [1, 0, 2], 5: [2, 2, 1]}
CUT2 = {1: 25, 2: 25, 3: 30, 4: 6, 5: 12}


def bpos(g):
    s = SHIFT[g]
    return [s, [4 + s[0], s[1], s[2]], [s[0], 4 + s[1], s[2]], [1 + s[0], 1 + s[1], s[2] + 40]]


def stage(chk, tier, seed, work, rnd, only=None):
    if only is None:
        dump = os.path.join(work, "cpl")
        res = vlib.tlc(SPEC, "CouplingMC", "Coupling.cfg", dump=dump, timeout=1200)
        chk.add_tlc("Contact/CouplingMC", res)
        if res.is_violation:
            chk.violation("design:coupling:" + ",".join(res.violated), "TLC: spec/Contact/Coupling violates " + ",".join(res.violated) + "\n" + res.out[-2000:])
            return 0
        vlib.tlc_expect_ok(res, "Coupling")
        states = list(vlib.parse_dump(dump + ".dump"))
        if len(states) < 60000:
            raise ModelError("Coupling: %d states only" % len(states))
        # vacuity: the enumeration must contain take-overs (a stale reference), ties and refused presentations
        stale = sum(1 for s in states if any(p and s["st"]["partner"][p - 1] != n + 1 for n, p in enumerate(s["st"]["partner"])))
        coupled = sum(1 for s in states if any(s["st"]["partner"]))
        if stale < 100 or coupled < 1000:
            raise ModelError("Coupling: vacuous enumeration (stale %d, coupled %d)" % (stale, coupled))
        if tier == "quick":
            short = [s for s in states if len(s["hist"]) <= 3]
            deep = [s for s in states if len(s["hist"]) > 3]
            states = short + rnd.sample(deep, 4500)
        cases = []
        for i, s in enumerate(states):
            g = s["geo"]
            cases.append({"k": i + 1, "geo": g, "unit": rnd.choice([2.0 ** -17, 2.0 ** -24, 1.0, 2.0 ** 10]), "posA": [x for p in APOS for x in p], "posB": [x for p in bpos(g) for x in p],
                          "cut2": CUT2[g], "hist": [list(c) for c in s["hist"]]})
        expect = [(list(s["st"]["partner"]), list(s["st"]["dist"])) for s in states]
    else:
        only = dict(only); only["k"] = 1
        cases, expect = [only], [("see spec/Contact/CouplingRule", "")]
    bdir = vlib.build("m1d0", ["contact_driver"])
    cp, op = os.path.join(work, "cpl_cases.ndjson"), os.path.join(work, "cpl_obs.ndjson")
    vlib.write_ndjson(cp, cases)
    rc, out = vlib.run([os.path.join(bdir, "contact_driver"), "coupling", cp, op], timeout=3000, env={"OMP_NUM_THREADS": "1"})
    obs = vlib.read_ndjson(op) if os.path.exists(op) else []
    if rc != 0 or len(obs) != len(cases):
        bad = cases[len(obs)] if len(obs) < len(cases) else None
        chk.violation("crash:coupling:%s" % json.dumps(bad), "contact_driver coupling terminated with status %d on %s" % (rc, json.dumps(bad)), {"variant": "m1d0", "coupling_case": bad})
        return 0
    recs = []
    for c, o in zip(cases, obs):
        exact = True
        dist = []
        for x in o["dist"]:
            if x < 0:
                dist.append(INF)
            else:
                if abs(x - round(x)) > 1e-9 * max(1.0, abs(x)):
                    exact = False
                dist.append(int(round(x)))
        recs.append({"geo": c["geo"], "hist": c["hist"], "partner": o["partner"], "dist": dist, "setup_ok": o["setup_ok"], "exact": exact})
    n, bad = vlib.tlc_validate_records(SPEC, "CouplingTrace", "CouplingTrace.cfg", recs, chunk=2500, par=4, workers=4)
    for inv, idxs in sorted(bad.items()):
        for i in idxs[:5]:
            c = cases[i]
            chk.violation("impl:coupling:%s:%s" % (inv, json.dumps({"geo": c["geo"], "hist": c["hist"]})),
                          "resolve_contact of the node-node coupling model, placement %d, presentations %s: %s -- partners %s stored squared distances %s; the specification computes %s / %s"
                          % (c["geo"], json.dumps(c["hist"]), inv, recs[i]["partner"], recs[i]["dist"], expect[i][0], expect[i][1]),
                          {"variant": "m1d0", "coupling_case": c, "invariant": inv})
    if only is not None:
        return n
    # negative controls: a tampered observation must be rejected
    base = next(r for r in recs if sum(1 for p in r["partner"] if p) >= 4)
    c1 = json.loads(json.dumps(base)); j = next(i for i, p in enumerate(c1["partner"]) if p); c1["partner"][j] = 0
    c2 = json.loads(json.dumps(base)); j = next(i for i, p in enumerate(c2["partner"]) if p); c2["dist"][j] += 1
    _, cbad = vlib.tlc_validate_records(SPEC, "CouplingTrace", "CouplingTrace.cfg", [c1, c2], chunk=5, par=1, workers=2)
    rej = int(0 in cbad.get("P_Partner", [])) + int(1 in cbad.get("P_Dist", []))
    if rej != 2:
        raise ModelError("coupling: negative controls: %d of 2 rejected %r" % (rej, cbad))
    # every phase starts from Fresh, whatever the history: two whole contact phases of the real model on the same cells
    pc = []
    for g in (1, 2, 3):
        for shrink, thr in ((4, 2.0), (8, 3.0), (1, 2.0), (2, 1e300)):
            pc.append({"k": len(pc) + 1, "geo": g, "unit": rnd.choice([2.0 ** -17, 1.0, 2.0 ** 10]), "posA": [x for p in APOS for x in p], "posB": [x for p in bpos(g) for x in p],
                       "cut2": CUT2[g], "shrink": shrink, "thr": thr, "away": rnd.choice([1000, -700, 64])})
    pcp, pop = os.path.join(work, "ph_cases.ndjson"), os.path.join(work, "ph_obs.ndjson")
    vlib.write_ndjson(pcp, pc)
    rc, out = vlib.run([os.path.join(vlib.build("m1d0", ["contact_driver"]), "contact_driver"), "phases", pcp, pop], timeout=600, env={"OMP_NUM_THREADS": "2"})
    pobs = vlib.read_ndjson(pop) if os.path.exists(pop) else []
    if rc != 0 or len(pobs) != len(pc):
        chk.violation("crash:phases", "contact_driver phases terminated with status %d after %d of %d cases" % (rc, len(pobs), len(pc)), {"variant": "m1d0", "phases_case": pc[min(len(pobs), len(pc) - 1)]})
    else:
        np_, pbad = vlib.tlc_validate_records(SPEC, "CouplingPhaseTrace", "CouplingPhaseTrace.cfg", pobs, chunk=100, par=1, workers=2)
        n += np_
        if "P_FirstPhaseCouples" in pbad:
            raise ModelError("phases: the first contact phase coupled nothing in cases %r" % pbad["P_FirstPhaseCouples"])
        for i in pbad.get("P_PhaseStartsFresh", [])[:3]:
            chk.violation("impl:phases:%s" % json.dumps({k: pc[i][k] for k in ("geo", "shrink", "thr")}),
                          "second contact phase of the node-node coupling model on case %s: %d nodes still coupled although the cells are %s lattice units apart (moved by the phase: %s, forces: %s)"
                          % (json.dumps({k: pc[i][k] for k in ("geo", "shrink", "thr", "away", "unit")}), pobs[i]["second_coupled"], pc[i]["away"], pobs[i]["moved"], not pobs[i]["force_free"]),
                          {"variant": "m1d0", "phases_case": pc[i]})
    # the same protocol at the grain of the parallel loop (decision / write / write, two threads): the per-node invariants survive
    # every interleaving; StaleOnlyIfStolen / MutualNearestCoupled must NOT (if they did, the finer-grained model would not be finer)
    rp = vlib.tlc(SPEC, "CouplingPar", "CouplingPar.cfg", timeout=1200)
    chk.add_tlc("Contact/CouplingPar", rp)
    if rp.is_violation:
        chk.violation("design:couplingpar:" + ",".join(rp.violated), "TLC: spec/Contact/CouplingPar violates " + ",".join(rp.violated) + "\n" + rp.out[-2000:])
    else:
        vlib.tlc_expect_ok(rp, "CouplingPar")
    rb = vlib.tlc(SPEC, "CouplingPar", "CouplingParBroken.cfg", timeout=1200)
    if not (rb.is_violation and set(rb.violated) & {"StaleOnlyIfStolen", "MutualNearestCoupled"}):
        raise ModelError("CouplingPar: the expected counterexample to StaleOnlyIfStolen / MutualNearestCoupled under interleaving was not found")
    chk.cov["coupling_protocol"] = {"states_model_checked": res.distinct, "sequences_replayed": len(cases), "with_stale_reference": stale, "controls_rejected": rej, "interleaved_states": rp.distinct}
    chk.cov["states"] += n
    chk.cov["transitions"] += n
    return n
