"""C18 -- every XML parameter reaches the simulation with its value and meaning intact.
spec/Io/Params is the schema of the parameter file (every tag with its section, kind, sign rule, documented INF) and Expected verdict
of a file that is valid except for one fault; TLC enumerates every (file shape, tag, fault) and checks the schema's sanity.  Each
enumerated case is rendered to XML (distinct value per tag instance, decimal and scientific notation, shuffled tag order inside a
section) and read by the real parameter_reader; TLC (ParamsTrace) compares verdict and every field of the returned structures with
the specification.  'Governs the run': density, damping and time step through a replay of spec/Integrate's behaviours into the real integrator (as in C03);
dt, T, S, l_min through C19 / C11 / C04, whose scenarios' observables depend on them."""
import json, os, random, re, shutil
import vlib
from vlib import Check, ModelError

SPEC = os.path.join(vlib.ROOT, "spec", "Io")
INF = -1000000
NUM = ["input_mesh_file_path", "output_mesh_folder_path", "damping_coefficient", "perform_initial_triangulation", "simulation_duration", "time_step",
       "sampling_period", "min_edge_length", "contact_cutoff_adhesion", "contact_cutoff_repulsion", "enable_edge_swap_operation"]
KIND_NUM = ["str", "str", "num", "bool", "num", "num", "num", "num", "num", "num", "bool"]
CELL = ["cell_type_name", "global_cell_id", "cell_mass_density", "cell_bulk_modulus", "max_inner_pressure", "area_elasticity_modulus", "avg_division_volume",
        "std_division_volume", "avg_growth_rate", "std_growth_rate", "target_isoperimetric_ratio", "angle_regularization_factor", "min_vol", "surface_coupling_max_curvature"]
KIND_CELL = ["str", "int"] + ["num"] * 12
FACE = ["face_type_name", "global_face_id", "surface_tension", "adherence_strength", "repulsion_strength", "bending_modulus"]
KIND_FACE = ["str", "int"] + ["num"] * 4


def token(sec, c, f, t):
    return (0 if sec == "num" else 100 * c if sec == "cell" else 100 * c + 20 * f) + t + (14 if sec == "face" else 0)


def render_value(kind, tok, fault_kind, rnd):
    """text of a tag; numeric token t stands for the number t/2"""
    if kind == "str":
        return "name_%d" % tok
    if kind == "bool":
        return str(tok % 2)
    if fault_kind == "inf":
        return rnd.choice(["INF", "inf", "Inf"])
    if fault_kind == "zero":
        return rnd.choice(["0", "0.0", "0e0"])
    if kind == "int":
        return str(-tok if fault_kind == "neg" else tok)
    v = tok / 2.0
    s = rnd.choice(["%g" % v, "%.1fe0" % v, "%.2fe+1" % (v / 10), "%.0fE-1" % (v * 10), "%.4f" % v])
    return ("-" + s) if fault_kind == "neg" else s


def render(shape, fault, rnd):
    def section(sec, names, kinds, c, f, indent):
        items = []
        for t, (n, kd) in enumerate(zip(names, kinds), start=1):
            hit = fault["sec"] == sec and fault["t"] == t and (sec == "num" or fault["c"] == c) and (sec != "face" or fault["f"] == f)
            if hit and fault["kind"] == "omit":
                continue
            tok = token("num", 0, 0, 6) if (hit and fault["kind"] == "eqstep") else token(sec, c, f, t)      # eqstep: the value of the time step
            items.append("%s<%s>%s</%s> <!-- %s <! -->" % (indent, n, render_value(kd, tok, fault["kind"] if hit else None, rnd), n, n))
        rnd.shuffle(items)
        return items
    lines = ['<?xml version="1.0"?>', "<numerical_parameters>"] + section("num", NUM, KIND_NUM, 0, 0, "    ") + ["</numerical_parameters>", "<cell_types>"]
    for c, nf in enumerate(shape, start=1):
        inner = section("cell", CELL, KIND_CELL, c, 0, "        ")
        faces = ["        <face_types>"]
        for f in range(1, nf + 1):
            faces += ["            <face_type>"] + section("face", FACE, KIND_FACE, c, f, "                ") + ["            </face_type>"]
        faces.append("        </face_types>")
        pos = rnd.randint(0, len(inner))
        lines += ["    <cell_type>"] + inner[:pos] + faces + inner[pos:] + ["    </cell_type>"]
    lines.append("</cell_types>")
    return "\n".join(lines) + "\n"


def to_token(name, kind, v):
    if kind == "str":
        try:
            return int(str(v).split("_")[-1])
        except ValueError:
            return -7
    if kind == "bool":
        return None          # compared by parity below
    if isinstance(v, str):
        return INF if v == "inf" else -8
    if kind == "int":
        return int(v)
    t = v * 2.0
    return int(round(t)) if abs(t - round(t)) < 1e-9 else -9


def tokens_of(obs, shape):
    """the reader's structures with every field mapped back to its token (bools become a token of the right parity)"""
    out = {"num": {}, "cells": []}
    for t, (n, kd) in enumerate(zip(NUM, KIND_NUM), start=1):
        if kd == "bool":
            want = token("num", 0, 0, t)
            out["num"][n] = want if bool(obs["num"][n]) == bool(want % 2) else -5
        else:
            out["num"][n] = to_token(n, kd, obs["num"][n])
    for c, cell in enumerate(obs["cells"], start=1):
        d = {n: to_token(n, kd, cell[n]) for n, kd in zip(CELL, KIND_CELL)}
        d["faces"] = [{n: to_token(n, kd, fc[n]) for n, kd in zip(FACE, KIND_FACE)} for fc in cell["faces"]]
        out["cells"].append(d)
    return out


def run(tier, seed, replay=None):
    chk = Check("C18", tier, seed)
    bdir = vlib.build("m1d0", ["param_driver"])
    work = vlib.scratch("c18")
    rnd = random.Random(seed)
    dump = os.path.join(work, "cases")
    res = vlib.tlc(SPEC, "ParamsMC", "Params.cfg", dump=dump, timeout=1200, workers=8)
    chk.add_tlc("Io/ParamsMC", res)
    if res.is_violation:
        chk.violation("design:" + ",".join(res.violated), "TLC: the parameter schema is inconsistent: " + ",".join(res.violated))
        return chk.finish()
    vlib.tlc_expect_ok(res, "Params")
    cases = [{"shape": list(st["shape"]), "fault": st["fault"]} for st in vlib.parse_dump(dump + ".dump")]
    reps = 1 if tier == "quick" else 6          # several renderings (number formats, tag orders) per case
    if replay:
        with open(replay) as f:
            r = json.load(f)["case"]
        cases, reps = [r["case"]], 1
    lst = []
    for rep in range(reps):
        for c in cases:
            k = len(lst) + 1
            p = os.path.join(work, "p%d.xml" % k)
            with open(p, "w") as f:
                f.write(render(c["shape"], c["fault"], rnd))
            lst.append({"k": k, "path": p, "case": c})
    lp, op = os.path.join(work, "list.ndjson"), os.path.join(work, "obs.ndjson")
    vlib.write_ndjson(lp, [{"k": x["k"], "path": x["path"]} for x in lst])
    rc, out = vlib.run([os.path.join(bdir, "param_driver"), lp, op], timeout=1200)
    obs = vlib.read_ndjson(op) if os.path.exists(op) else []
    if rc != 0 or len(obs) != len(lst):
        bad = lst[len(obs)] if len(obs) < len(lst) else None
        chk.violation("crash:%s" % json.dumps(bad["case"] if bad else None), "parameter_reader crashed / terminated (status %d) on case %s\n%s" % (rc, json.dumps(bad["case"] if bad else None), out[-300:]),
                      {"case": bad["case"] if bad else None, "xml": open(bad["path"]).read() if bad else None})
        return chk.finish()
    recs = []
    for x, o in zip(lst, obs):
        r = {"k": x["k"], "shape": x["case"]["shape"], "fault": x["case"]["fault"], "outcome": o["outcome"], "num": {}, "cells": []}
        if o["outcome"] == "ok":
            r.update(tokens_of(o, x["case"]["shape"]))
        recs.append(r)
    n, bad = vlib.tlc_validate_records(SPEC, "ParamsTrace", "ParamsTrace.cfg", recs, chunk=400, par=4, workers=4)
    chk.cov["states"] += n
    chk.cov["transitions"] += n
    for inv, idxs in sorted(bad.items()):
        for i in idxs:
            c = lst[i]["case"]
            chk.violation("impl:%s:%s" % (inv, json.dumps(c)), "parameter_reader on case %s violates %s: outcome %s %s" % (json.dumps(c), inv, obs[i]["outcome"], obs[i].get("what", "")[:200]),
                          {"case": c, "invariant": inv, "xml": open(lst[i]["path"]).read()})
    chk.cov["traces_validated_against_impl"] = n
    chk.cov["evaluations"] = n
    chk.cov["distinct_nontrivial"] = len(cases)
    chk.cov["exhaustive"] = True
    chk.cov["rule"] = "one case per (file shape with 1-3 cell types x 1-3 face types, tag, fault in {omitted, negative, zero, INF; sampling period equal to the time step}) enumerated by TLC, rendered %d time(s) with random number formats and tag orders" % reps
    oc = {}
    for o in obs:
        oc[o["outcome"]] = oc.get(o["outcome"], 0) + 1
    chk.cov["outcomes"] = oc
    for i in range(0, len(recs), max(1, len(recs) // 3)):
        chk.sample({"case": lst[i]["case"], "outcome": obs[i]["outcome"]})
    if not replay:
        good = [r for r in recs if r["outcome"] == "ok" and r["fault"]["sec"] == "none"]
        c1 = json.loads(json.dumps(good[0])); c1["num"]["time_step"], c1["num"]["sampling_period"] = c1["num"]["sampling_period"], c1["num"]["time_step"]
        c2 = json.loads(json.dumps(good[-1])); c2["cells"][0]["faces"][0]["surface_tension"] = c2["cells"][0]["faces"][0]["adherence_strength"]
        c3 = json.loads(json.dumps([r for r in recs if r["fault"]["kind"] == "omit" and r["fault"]["sec"] != "none"][0])); c3["outcome"] = "other_std_exception"
        _, cbad = vlib.tlc_validate_records(SPEC, "ParamsTrace", "ParamsTrace.cfg", [c1, c2, c3], chunk=5, par=1, workers=2)
        rej = int(0 in cbad.get("P_Numerical", [])) + int(1 in cbad.get("P_FaceTypes", [])) + int(2 in cbad.get("P_Verdict", []))
        chk.cov["controls_run"], chk.cov["controls_rejected"] = 3, rej
        if rej != 3:
            raise ModelError("negative controls: %d of 3 rejected %r" % (rej, cbad))
    # ---- "the values then govern the run": the mass density, the damping coefficient and the time step enter the motion only through
    # the integration law (per-node mass = density * volume / live nodes).  A sample of the behaviours of spec/Integrate is replayed
    # into the real integrator (fresh cells and cells with unused node slots), as in C03; dt / T / S / l_min are covered by C19 / C11.
    if not replay:
        import c03
        dump = os.path.join(work, "integ")
        res = vlib.tlc(os.path.join(vlib.ROOT, "spec", "Integrate"), "IntegrateMC", "Integrate_dyn_quick.cfg", dump=dump, timeout=1500, xmx="8g")
        chk.add_tlc("Integrate/Integrate_dyn_quick.cfg", res)
        vlib.tlc_expect_ok(res, "Integrate")
        gcases = c03.behaviours(dump + ".dump", 3000 if tier == "quick" else 12000, random.Random(seed))
        for i, c in enumerate(gcases):
            c["k"] = i + 1
            c["frag"] = i % 2 == 1
        gdir = vlib.build("m1d0", ["integ_driver"])
        cp, op = os.path.join(work, "gov_cases.ndjson"), os.path.join(work, "gov_obs.ndjson")
        vlib.write_ndjson(cp, gcases)
        rc, out = vlib.run([os.path.join(gdir, "integ_driver"), cp, op], timeout=1800)
        gobs = vlib.read_ndjson(op) if os.path.exists(op) else []
        if rc != 0 or len(gobs) != len(gcases):
            chk.violation("crash:governs", "the integrator crashed while replaying the law that density, damping and time step enter (status %d)" % rc)
        else:
            ngov = 0
            for c, o in zip(gcases, gobs):
                ngov += 1
                msg = c03.compare(c, o, "dyn", 1)
                if msg:
                    key = {k: c[k] for k in ("static", "mass", "dtinv", "damp", "coupled", "hi", "frag")}
                    chk.violation("impl:governs:%s" % json.dumps(key), "mass density / damping / time step do not govern the motion as the integration law says, on %s: %s" % (json.dumps(key), msg), {"governs_case": c})
            chk.cov["governs_replays"] = ngov
            chk.cov["traces_validated_against_impl"] += ngov
            chk.cov["evaluations"] += ngov
    # ---- "govern the run", moduli and tensions: the bulk modulus, the per-face-type tensions, the area-elasticity modulus and the
    # per-face-type bending moduli enter the run through the internal forces, which must be the gradients of the energies built from
    # exactly these values (generic cells with different values per face type; the oracle of C02: spec/Geom/ForceTrace)
    if not replay:
        import c02
        fcases = [c for c in c02.cases(tier, seed) if c["kind"] == "generic"][: 8 if tier == "quick" else 60]
        for i, c in enumerate(fcases):
            c["k"] = i + 1
        fdir = vlib.build("m1d0", ["force_driver"])
        cp, op = os.path.join(work, "gov_f_cases.ndjson"), os.path.join(work, "gov_f_obs.ndjson")
        vlib.write_ndjson(cp, fcases)
        rc, out = vlib.run([os.path.join(fdir, "force_driver"), cp, op], timeout=1800)
        frows = vlib.read_ndjson(op) if os.path.exists(op) else []
        if rc != 0 or len(frows) != len(fcases):
            chk.violation("crash:governs_forces", "force_driver crashed while evaluating how moduli and tensions enter the forces (status %d)" % rc)
        else:
            nf_, fbad = vlib.tlc_validate_records(os.path.join(vlib.ROOT, "spec", "Geom"), "ForceTrace", "ForceTrace.cfg", frows, chunk=60, par=2, workers=2)
            chk.cov["states"] += nf_
            chk.cov["transitions"] += nf_
            chk.cov["traces_validated_against_impl"] += nf_
            chk.cov["evaluations"] += nf_
            for i in fbad.get("P_EnergyGradients", []):
                chk.violation("impl:governs_forces:%s" % json.dumps(fcases[i]["params"]), "bulk modulus / tensions / bending moduli do not govern the internal forces as gradients of the energies built from them, on %s: %s %s" % (
                    json.dumps(fcases[i]), frows[i].get("fd_rel"), frows[i].get("fd_bending")), {"governs_force_case": fcases[i]})
    # ---- "govern the run", start-up: <perform_initial_triangulation> and <min_edge_length> are consumed before the first iteration, by
    # the XML constructor of simulation_initializer (the path of main()).  One file with an octahedron and a cube, started up with
    # flag 0 / 1 x coarse / fine edge length; spec/Io/StartupTrace states what each value has to mean for the cells handed over.
    if not replay:
        import c17, subprocess
        sdir = vlib.build("m1d0", ["startup_driver"])
        U = 1e-5 / c17.UNIT
        octa = [(1, 0, 0), (-1, 0, 0), (0, 1, 0), (0, -1, 0), (0, 0, 1), (0, 0, -1)]
        cube = [(x, y, z) for x in (4, 5.6) for y in (0, 1.6) for z in (0, 1.6)]
        otri = [[0, 2, 4], [2, 1, 4], [1, 3, 4], [3, 0, 4], [2, 0, 5], [1, 2, 5], [3, 1, 5], [0, 3, 5]]
        ctri = [[0, 1, 3], [0, 3, 2], [4, 6, 7], [4, 7, 5], [0, 4, 5], [0, 5, 1], [2, 3, 7], [2, 7, 6], [0, 2, 6], [0, 6, 4], [1, 5, 7], [1, 7, 3]]
        row = lambda tris, off: [1 + 4 * len(tris), len(tris)] + [x for t in tris for x in [3] + [v + off for v in t]]
        f = {"npoints": 14, "coords": [tuple(U * k for k in p) for p in octa + cube], "ncells": 2, "nints": 2 + 4 * 20 + 2 - 2,
             "rows": [row(otri, 0), row(ctri, 6)], "ntypes": 2, "ctypes": [42, 42], "cdn": 2, "typeids": [0, 1]}
        f["nints"] = sum(len(r) for r in f["rows"])
        mesh_path = os.path.join(work, "startup.vtk")
        with open(mesh_path, "w") as fh:
            fh.write(c17.render_vtk(f))
        shapes = {}
        for flag in (0, 1):
            for name, lmin in (("coarse", "2e-6"), ("fine", "1e-6")):
                xml = c17.base_xml(mesh_path, random.Random(seed), flag)
                xml = re.sub(r"<min_edge_length>[^<]*</min_edge_length>", "<min_edge_length>%s</min_edge_length>" % lmin, xml)
                xp = os.path.join(work, "startup_%d_%s.xml" % (flag, name))
                with open(xp, "w") as fh:
                    fh.write(xml)
                try:
                    p = subprocess.run([os.path.join(sdir, "startup_driver"), xp], capture_output=True, text=True, timeout=120)
                    last = ([l for l in p.stdout.splitlines() if l.startswith("OUTCOME")] or [""])[-1]
                except subprocess.TimeoutExpired:
                    last = "timeout"
                m = re.search(r"OUTCOME completed cells=2 shape=(\d+):(\d+),(\d+):(\d+)", last)
                if m:
                    shapes[(flag, name)] = [(int(m.group(1)), int(m.group(2))), (int(m.group(3)), int(m.group(4)))]
                elif flag == 0 or not last.startswith("OUTCOME std_exception"):
                    # with flag 0 a valid file must be accepted as it is; with flag 1 a clean refusal after ten attempts is C13's business
                    chk.violation("impl:governs_startup:outcome:%d:%s" % (flag, name), "start-up on a valid two-cell file with perform_initial_triangulation=%d, "
                                  "min_edge_length=%s ended with: %s" % (flag, lmin, last[:200]), {"xml": xml, "vtk": c17.render_vtk(f)})
        srows = []
        if len(shapes) == 4:
            for ci, (fn, ff) in enumerate(((6, 8), (8, 12))):
                r = {"kind": "startup", "cell": ci, "file_nodes": fn, "file_faces": ff}
                for flag, fl in ((0, "off"), (1, "on")):
                    for name in ("coarse", "fine"):
                        r["n_%s_%s" % (fl, name)], r["f_%s_%s" % (fl, name)] = shapes[(flag, name)][ci]
                srows.append(r)
            ns, sbad = vlib.tlc_validate_records(os.path.join(vlib.ROOT, "spec", "Io"), "StartupTrace", "StartupTrace.cfg", srows, chunk=10, par=1, workers=2)
            chk.cov["traces_validated_against_impl"] += ns
            chk.cov["evaluations"] += ns
            for inv, idxs in sorted(sbad.items()):
                for i in idxs:
                    chk.violation("impl:governs_startup:%s:cell%d" % (inv, i), "perform_initial_triangulation / min_edge_length do not govern the start-up as named "
                                  "(%s): %s" % (inv, json.dumps(srows[i])), {"record": srows[i]})
            # negative control: a record in which the flag was ignored
            ctl = dict(srows[0]); ctl["n_off_coarse"], ctl["f_off_coarse"] = ctl["n_on_coarse"], ctl["f_on_coarse"]
            _, cb = vlib.tlc_validate_records(os.path.join(vlib.ROOT, "spec", "Io"), "StartupTrace", "StartupTrace.cfg", [ctl], chunk=10, par=1, workers=2)
            if 0 not in cb.get("P_FlagOffKeepsTheMesh", []):
                raise ModelError("StartupTrace accepts a record in which the triangulation flag was ignored")
        chk.cov["governs_startup"] = {"runs": 4, "complete_records": len(srows), "shapes": {"%d/%s" % k: v for k, v in shapes.items()}}
        if not srows and not chk.violations:
            raise ModelError("vacuous: the start-up stage produced no complete record: %r" % shapes)
    # ---- "govern the run", edge length: in real solver runs (growing cells, so that edges become too long) no edge of a cell whose
    # refinement pass ended normally is longer than three minimum edge lengths right after the refinement phase, for several values
    # of <min_edge_length> (TissueTrace tag C18_EdgeLengthGoverns; the design-level counterpart is RefinePass.Complete)
    if not replay:
        import tissue_common as tc
        far = 3.0 * tc.R
        scns = []
        for name, lm in (("edge_a", 0.33 * tc.R), ("edge_b", 0.25 * tc.R), ("edge_c", 0.45 * tc.R)):
            scns.append(tc.scenario(name, [tc.cell(0, 0, growth=6e-10), tc.cell(1, far, growth=4e-10), tc.cell(2, 2 * far, growth=0.0)], [],
                                    T_ns=3000 if tier == "quick" else 9000, threads=2, level_lmin=lm, seed=seed))
        results = tc.run_scenarios("m1d0", scns, work)
        validated = tc.validate_all(results, work)
        tc.report(chk, "C18", validated)
        grown = complete = 0
        last_nodes = {}
        for sres in results:
            ev = sres[1]
            first = {c["id"]: c["nn"] for c in ev[0]["cells"]} if ev and "cells" in ev[0] else {}
            for e in ev:
                if e.get("e") == "phase" and e.get("k") == 4:
                    complete += sum(1 for c in e["cells"] if c["pass_complete"])
                    grown += sum(1 for c in e["cells"] if c["nn"] > first.get(c["id"], 10 ** 9))
                    last_nodes[sres[0]["name"]] = sum(c["nn"] for c in e["cells"])
        chk.cov["governs_edge_length"] = {"runs": len(scns), "cell_passes_ended_normally": complete, "of_which_after_the_mesh_had_grown": grown,
                                          "nodes_after_the_last_refinement": last_nodes}
        if not complete or not grown:
            raise ModelError("vacuous: edge-length stage saw %d normal passes, %d on refined meshes" % (complete, grown))
        drift = {k: v for k, v in chk.cov.get("other_property_tags", {}).items() if k.startswith("D_")}
        if drift:
            chk.cov["design_drift"] = drift
            vlib.log("NOTE design drift (the solver's choice of thresholds differs from the one spec/Refine and this stage assume; no listed statement names it): %s" % drift)
        if not all(n in last_nodes for n in ("edge_a", "edge_b", "edge_c")):
            raise ModelError("vacuous: an edge-length run did not reach a refinement phase: %r" % last_nodes)
        if all(r[2] == 0 for r in results):
            rrow = {"kind": "run", "lmin_over_R": [0.25, 0.33, 0.45], "nodes": [last_nodes["edge_b"], last_nodes["edge_a"], last_nodes["edge_c"]]}
            nr, rbad = vlib.tlc_validate_records(os.path.join(vlib.ROOT, "spec", "Io"), "StartupTrace", "StartupTrace.cfg", [rrow], chunk=10, par=1, workers=2)
            chk.cov["traces_validated_against_impl"] += nr
            if rbad.get("P_EdgeLengthGovernsTheRun"):
                chk.violation("impl:governs_run:edge_length", "min_edge_length does not govern the resolution of the meshes during the run: the same growing tissue "
                              "ends with %s nodes for min_edge_length = 0.25 R, 0.33 R, 0.45 R" % rrow["nodes"], {"record": rrow, "scenarios": scns})
    chk.assumptions += ["sign rules are the reader's own diagnostics (doc/parameter_file_doc.md states none): > 0 for duration, time step, sampling period (and >= time step), "
                        "minimum edge length, both cut-offs, isoperimetric ratio; >= 0 for damping, face ids, tensions, strengths, bending modulus; zero damping and INF in "
                        "undocumented places are 'either'", "empty / non-numeric elements belong to C17"]
    shutil.rmtree(work, ignore_errors=True)
    return chk.finish()
