"""C20 -- spatial grids index every in-range point and never miss a neighbour.
TLC explores spec/Grid (all boxes / voxel sizes / epsilon regimes / placements in the bound) and checks the
property on the design; every explored state is then replayed into the real uspg_3d/uspg_4d templates and
the implementation's answers are validated against the specification by TLC (spec/Grid/GridTrace)."""
import json, os, random
import vlib
from vlib import Check, ModelError

SPEC = os.path.join(vlib.ROOT, "spec", "Grid")
INV_P = ["P_InRange", "P_Retrievable", "P_Neighbourhood", "P_Neighbourhood3", "P_ContentOnce", "P_NbhdSound", "P_Reuse", "P_StructRetrievable"]


def phys_variants(reg):
    """physical embeddings (unit, offset) that realise an epsilon regime in IEEE doubles"""
    if reg == (1, 1):
        return [(2.0 ** -20, 0.0, "micro")]
    if reg == (0, 0):
        return [(1.0, 1024.0, "far+"), (1.0, -1024.0, "far-"), (0.5, 4096.0, "far+half")]
    if reg == (1, 0):
        return [(1.0, 0.0, "unit0")]
    raise ModelError("unknown regime %r" % (reg,))


INEXACT = [[(5e-7, 0.0, "micro-nd")], [(1e-6 / 3, 2.5e-5, "micro-nd-off")], [(0.1, 0.0, "deci")], [(0.3, -7.7, "deci-off")], [(1.5e-6, 0.0, "micro-1.5")],
           [(0.7, 1234.5, "far-nd")], [(1e-3, -0.0567, "milli")]]


def validate(rows):
    return vlib.tlc_validate_records(SPEC, "GridTrace", "GridTrace.cfg", rows, chunk=1200)


def polar_cases():
# 6. the caller's half of the contract: the box the automatic polarizer declares contains the nodes it stores, whichever node
# is listed first (elongated cells, the far tip first / last / in the middle, along every axis and direction, two scales)
    import itertools
    pcs = []
    for axis, sign, tip_at, scale in itertools.product(range(3), (1, -1), (0, 1, 3), (1.0, 2.0 ** -20)):
        base = [[0, 0, 0], [0, 1, 0], [0, 0, 1], [1, 0, 0]]
        base = [b for b in base if b[axis] == 0][:3]
        tip = [0.25, 0.25, 0.25]; tip[axis] = 3.0 * sign
        pts = base[:tip_at] + [tip] + base[tip_at:]
        pcs.append({"k": len(pcs) + 1, "pts": pts, "scale": scale, "shift": [[0, 0, 0], [40, -25, 10], [-7, 3, 1000]][len(pcs) % 3], "voxel": 0.1})
    return pcs


def polar_stage(chk, work, pcs):
    pb = vlib.build("m1d0", ["polar_grid_driver"])
    pcp, pop = os.path.join(work, "pg_cases.ndjson"), os.path.join(work, "pg_obs.ndjson")
    vlib.write_ndjson(pcp, pcs)
    rc, out = vlib.run([os.path.join(pb, "polar_grid_driver"), pcp, pop], timeout=600)
    pobs = vlib.read_ndjson(pop) if os.path.exists(pop) else []
    if rc != 0 or len(pobs) != len(pcs):
        chk.violation("crash:polar_grid", "polar_grid_driver terminated with status %d after %d of %d cases\n%s" % (rc, len(pobs), len(pcs), out[-300:]))
    else:
        npg, pbad = vlib.tlc_validate_records(SPEC, "PolarGridTrace", "PolarGridTrace.cfg", pobs, chunk=200, par=1, workers=2)
        chk.cov["traces_validated_against_impl"] += npg
        chk.cov["polarizer_grid_cases"] = npg
        if "P_GridNotTrivial" in pbad:
            raise ModelError("polarizer grid: trivial grid in cases %r" % pbad["P_GridNotTrivial"])
        for inv in ("P_DeclaredBoxContainsNodes", "P_NodesRetrievable"):
            for i in pbad.get(inv, [])[:2]:
                chk.violation("impl:polar_grid:%s:%s" % (inv, json.dumps(pcs[i]["pts"])), "automatic_polarizer::update_grid_dimensions on the cell %s (scale %g, shift %s, voxel 0.1): %s -- a node lies outside the box declared for the grid (%d voxels %s)"
                              % (json.dumps(pcs[i]["pts"]), pcs[i]["scale"], pcs[i]["shift"], inv, len(pbad[inv]), pobs[i]["nb"]), {"polar": pcs[i]})



def run(tier, seed, replay=None):
    chk = Check("C20", tier, seed)
    bdir = vlib.build("m1d0", ["grid_driver"])
    work = vlib.scratch("c20")
    cfgs = ["Grid_quick.cfg"] if tier == "quick" else ["Grid_thorough.cfg", "Grid_pairs.cfg"]

    # 1. the design satisfies the property: exhaustive TLC run, states dumped
    cases = []
    for cfg in cfgs:
        dump = os.path.join(work, "states_" + cfg)
        res = vlib.tlc(SPEC, "GridMC", cfg, dump=dump, timeout=3000)
        if res.is_violation:
            chk.add_tlc("Grid/" + cfg, res)
            chk.violation("design:" + ",".join(res.violated), "TLC: the grid design of spec/Grid violates " + ",".join(res.violated) + "\n" + res.out[-1500:])
            return chk.finish()
        vlib.tlc_expect_ok(res, "Grid")
        chk.add_tlc("Grid/" + cfg, res)

        # 2. replay every explored state into the implementation
        for st in vlib.parse_dump(dump + ".dump"):
            for unit, off, name in phys_variants(tuple(st["reg"])):
                cases.append({"k": len(cases) + 1, "lo": list(st["lo"]), "hi": list(st["hi"]), "s": st["s"],
                              "reg": list(st["reg"]), "objs": [list(p) for p in st["objs"]],
                              "unit": unit, "off": off, "phys": name, "exact": True})
            # embeddings with a unit that is NOT a power of two (every coordinate and the voxel size are rounded; the extent is a
            # rounded multiple of the voxel size): the design is not exact there, the property must hold all the same, with a
            # distance of exactly one voxel size left to rounding
            for unit, off, name in INEXACT[len(cases) % len(INEXACT)]:
                cases.append({"k": len(cases) + 1, "lo": list(st["lo"]), "hi": list(st["hi"]), "s": st["s"],
                              "reg": list(st["reg"]), "objs": [list(p) for p in st["objs"]],
                              "unit": unit, "off": off, "phys": name, "exact": False})
    if replay:
        with open(replay) as f:
            rc_ = json.load(f)["case"]
        if "polar" in rc_:
            pc = dict(rc_["polar"]); pc["k"] = 1
            polar_stage(chk, work, [pc])
            return chk.finish()
        cases = [rc_["case"]]
        cases[0]["k"] = 1
    if not cases:
        raise ModelError("no states dumped")
    cpath, opath = os.path.join(work, "cases.ndjson"), os.path.join(work, "obs.ndjson")
    vlib.write_ndjson(cpath, cases)
    rc, out = vlib.run([os.path.join(bdir, "grid_driver"), cpath, opath], timeout=1800)
    if rc != 0:
        # the driver guards every index, so a crash is a finding about the code only if reproducible
        chk.violation("driver-crash", "grid_driver terminated with status %d on the replayed cases\n%s" % (rc, out[-800:]), {"cases": cpath})
        return chk.finish()
    obs = vlib.read_ndjson(opath)
    if len(obs) != len(cases):
        raise ModelError("driver produced %d records for %d cases" % (len(obs), len(cases)))

    # 3. TLC validates the implementation's answers against the specification
    nacc, bad = validate(obs)
    chk.cov["traces_validated_against_impl"] = len(obs)
    chk.cov["evaluations"] = len(obs)
    nontrivial = set()
    for c in cases:
        if c["objs"]:
            nontrivial.add(json.dumps([c["lo"], c["hi"], c["s"], c["reg"], c["objs"], c["phys"]]))
    chk.cov["distinct_nontrivial"] = len(nontrivial)
    chk.cov["rule"] = ("one case per reachable state of spec/Grid (box, voxel size, epsilon regime, placed objects) and per "
                       "physical embedding of its regime; non-trivial = at least one object placed; every lattice point of the box is queried")
    chk.cov["exhaustive"] = True
    for c in cases[:: max(1, len(cases) // 4)][:4]:
        chk.sample({"case": c, "observed_nb": obs[c["k"] - 1]["nb"]})
    drift = {}
    for inv, ks in bad.items():
        for k in ks:
            c = cases[k]
            if inv in INV_P:
                chk.violation("impl:%s:%s" % (inv, json.dumps([c["lo"], c["hi"], c["s"], c["phys"]])),
                              "real uspg grid violates %s on case %s; observed %s" % (inv, json.dumps(c), json.dumps(obs[k])[:700]),
                              {"case": c, "observed": obs[k], "invariant": inv})
            else:
                drift.setdefault(inv, []).append(k)
    if drift:
        # the implementation no longer follows the modelled design although the property predicates hold on
        # every explored case: reported, not an alarm
        vlib.log("NOTE design drift (implementation differs from spec/Grid, property predicates hold): %s" % {k: len(v) for k, v in drift.items()})
    chk.cov["design_drift"] = {k: len(v) for k, v in drift.items()}

    # 4. negative control: a corrupted observation must be rejected
    rnd = random.Random(seed)
    cand = [o for o in obs if o["objs"]]
    ctl = json.loads(json.dumps(rnd.choice(cand)))
    ctl["k"] = 1
    j = rnd.randrange(len(ctl["pts"]))
    ctl["pts"][j]["v"][0] = ctl["nb"][0]          # an index outside the grid
    ctl["pts"][j]["in"] = False
    ctl2 = json.loads(json.dumps(rnd.choice(cand)))
    ctl2["k"] = 2
    oi = ctl2["objs"][0]
    for p in ctl2["pts"]:
        if p["p"] == oi:
            p["n4"] = [x for x in p["n4"] if x != 1]   # the object is missing from its own neighbourhood
    _, cbad = validate([ctl, ctl2])
    chk.cov["controls_run"] = 2
    chk.cov["controls_rejected"] = int(0 in cbad.get("P_InRange", [])) + int(1 in cbad.get("P_Neighbourhood", []))
    if chk.cov["controls_rejected"] != 2:
        raise ModelError("negative control not rejected: %r" % cbad)

    # 5. spec-level control: the design before the fix of F6 (index not clamped) must be refuted by TLC
    pres = vlib.tlc(SPEC, "GridMC", "Grid_prefix_F6.cfg", timeout=600)
    chk.cov["controls_run"] += 1
    if "InRange" in pres.violated:
        chk.cov["controls_rejected"] += 1
    else:
        raise ModelError("TLC did not refute the pre-fix grid design (vacuous model?)\n" + pres.out[-1500:])

    if not replay:
        polar_stage(chk, work, polar_cases())

    chk.assumptions += ["IEEE-754 doubles; the three epsilon regimes are realised by the embeddings unit=2^-20 (epsilon survives), "
                        "offset +-1024 / 4096 (epsilon absorbed) and a box starting at 0 with integer extent >= 2 (mixed)",
                        "bounded boxes/voxel sizes of the TLC configuration; y,z axes take fewer values than x (the index arithmetic is per axis)"]
    import shutil
    shutil.rmtree(work, ignore_errors=True)
    return chk.finish()
