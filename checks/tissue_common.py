"""Shared by C04 / C08 / C09 / C19: scenario generation for the real solver, execution through tissue_driver and trace
validation against spec/Tissue (TissueTrace)."""
import json, os, re, concurrent.futures
import vlib
from vlib import ModelError

SPEC = os.path.join(vlib.ROOT, "spec", "Tissue")
R = 4e-6
NS = 1e-9          # scenario times are integers in nanoseconds


def cell(i, x, level=1, ctype=0, growth=0.0, divvol="inf", minvol=1e-19, K=2.5e3, pmax="inf", p0=0.0, nft=3, y=0.0):
    return {"level": level, "R": R, "c": [x, y, 0.0], "type": ctype, "growth": growth, "divvol": divvol, "minvol": minvol,
            "K": K, "pmax": pmax, "p0": p0, "nfacetypes": nft}


def scenario(name, cells, script, dt_ns=100, S_ns=1000, T_ns=6000, threads=4, seed=1, in_string=False, level_lmin=None, max_iter=400):
    lvl = max(c["level"] for c in cells)
    lmin = level_lmin if level_lmin else (0.25 * R if lvl >= 2 else 0.45 * R)
    return {"name": name, "dt": dt_ns * NS, "T": T_ns * NS, "S": S_ns * NS, "lmin": lmin, "cut_adh": 5e-7, "cut_rep": 4e-7,
            "damping": 5e-10, "swap": False, "threads": threads, "seed": seed, "stats_in_string": in_string, "max_iter": max_iter,
            "ts1": T_ns // S_ns + 1, "ticks": {"P": dt_ns, "Q": S_ns, "T": T_ns}, "cells": cells, "script": script}


def run_scenarios(variant, scns, work, timeout=600):
    """runs every scenario through the real solver; returns [(scn, events, status)]"""
    bdir = vlib.build(variant, ["tissue_driver"])
    out = []

    def one(s):
        sp = os.path.join(work, s["name"] + ".json")
        ep = os.path.join(work, s["name"] + ".ndjson")
        s = dict(s)
        s["outdir"] = os.path.join(work, "out_" + s["name"])
        with open(sp, "w") as f:
            json.dump(s, f)
        rc, txt = vlib.run([os.path.join(bdir, "tissue_driver"), sp, ep], timeout=timeout, env={"OMP_NUM_THREADS": str(s["threads"])})
        ev = []
        if os.path.exists(ep):
            for line in open(ep):
                line = line.strip()
                if not line:
                    continue
                try:
                    ev.append(json.loads(line))
                except ValueError:
                    pass       # a line cut short by a crash
        return (s, ev, rc, txt[-400:], ep)

    with concurrent.futures.ThreadPoolExecutor(max_workers=4) as ex:
        for r in ex.map(one, scns):
            out.append(r)
    return out


def validate_trace(ev_path, events, work, name):
    """TLC validates one event log; returns (depth, set of (tag, line))"""
    res = vlib.tlc(SPEC, "TissueTrace", "TissueTrace.cfg", workers=1, env={"OBS": ev_path}, cont=True, timeout=900, xmx="3g",
                   metadir=os.path.join(work, "md_" + name))
    if res.model_error:
        raise ModelError("TissueTrace failed on %s: rc=%d\n%s" % (name, res.rc, res.out[-3000:]))
    tags = set()
    for block in re.split(r"Error: Invariant ", res.out)[1:]:
        m = re.match(r"I_(\w+) is violated", block)
        ls = re.findall(r"/\\ l = (\d+)", block.split("Error: ")[0] if False else block)
        if m and ls:
            # the trace printed after the message ends with the violating state
            body = block.split("\nError: Invariant")[0]
            ls = re.findall(r"/\\ l = (\d+)", body)
            tags.add((m.group(1), int(ls[-1])))
    # TLC names only the first violated invariant of a state: the complete tag sets are printed by ReportAll
    for m in re.finditer(r'<<"TAGS", (\d+), \{([^}]*)\}>>', res.out):
        for t in re.findall(r'"(\w+)"', m.group(2)):
            tags.add((t, int(m.group(1))))
    return res, tags


def validate_all(results, work):
    """[(scn, events, rc, txt, path)] -> [(scn, events, rc, depth, tags)] with TLC runs in parallel"""
    out = []

    def one(r):
        s, ev, rc, txt, ep = r
        if len(ev) < 2 or ev[0].get("e") not in ("init", "draws"):
            return (s, ev, rc, 0, set(), None)
        # a log cut by a crash is validated as far as it goes: rewrite it with complete lines only
        vlib.write_ndjson(ep, ev)
        res, tags = validate_trace(ep, ev, work, s["name"])
        return (s, ev, rc, res.depth, tags, res)

    with concurrent.futures.ThreadPoolExecutor(max_workers=6) as ex:
        for r in ex.map(one, results):
            out.append(r)
    return out


def report(chk, prop, validated, extra_prefixes=()):
    """turn the tags / crashes of validated runs into verdicts for property `prop`"""
    others = {}
    total_events = 0
    for s, ev, rc, depth, tags, res in validated:
        total_events += len(ev)
        if res is not None:
            chk.cov["states"] += res.distinct
            chk.cov["transitions"] += res.generated
        ended = bool(ev) and ev[-1].get("e") == "end"
        if rc != 0 or not ended:
            last = ev[-1] if ev else {}
            chk.violation("crash:%s" % s["name"], "scenario %s: the real solver run terminated abnormally (status %s) after event %s" %
                          (s["name"], rc, json.dumps({k: last.get(k) for k in ("e", "k", "iter")})), {"scenario": s})
        elif depth != len(ev) - (1 if ev[0].get("e") == "draws" else 0):
            raise ModelError("trace of %s not fully consumed: depth %d of %d events" % (s["name"], depth, len(ev)))
        for tag, line in sorted(tags):
            e = ev[line - 1] if 0 < line <= len(ev) else {}
            where = {k: e.get(k) for k in ("e", "k", "iter", "n")}
            if tag.startswith(prop + "_") or any(tag.startswith(p) for p in extra_prefixes):
                if tag == "C08_FaceTypeIndex" and any(c["type"] == 0 and c["nfacetypes"] < 2 for c in s["cells"]):
                    chk.violation("impl:C08_FaceTypeIndex:epithelial_type_with_one_face_type", "known finding F13", {"scenario": s})
                    continue
                chk.violation("impl:%s:%s:%s" % (tag, s["name"], json.dumps(where)),
                              "scenario %s, event %d %s: the real run violates %s" % (s["name"], line, json.dumps(where), tag),
                              {"scenario": s, "event": e, "tag": tag})
            else:
                others[tag] = others.get(tag, 0) + 1
    if others:
        vlib.log("NOTE tags of other properties seen in these runs (reported by their own checks): %s" % others)
    chk.cov["other_property_tags"] = others
    chk.cov["traces_validated_against_impl"] += len(validated)
    chk.cov["events_validated"] = chk.cov.get("events_validated", 0) + total_events
    return total_events
