"""C04 -- growth, pressure, division trigger and removal follow the cell-cycle law.
Design: TLC on spec/Tissue: Gone (a removed cell never reappears), RemovedAtEnd (nothing below its minimum volume survives an
iteration), TvolClamped, OnlyReadyDivide over every history in the bound.  Implementation: real solver runs over parameter sets
(positive / zero / negative growth with an active clamp, finite and infinite pressure cap, initial pressure, zero bulk modulus,
infinite and reached division volume, non-epithelial cells above their division volume, scripted and repeated removals);
TLC (TissueTrace) validates eligibility, removal timing, Gone, and requires the numeric laws that the driver evaluates with
independent one-line formulas (target-volume law bitwise, pressure law with the enclosed volume recomputed from the nodes,
initial target volume, 3-sigma bound over 10^4 seeded draws)."""
import json, os, random, shutil
import vlib, tissue_common as tc
from vlib import Check, ModelError

V1 = 1.9e-16     # about the volume of the level-1 test sphere (R = 4e-6)


def scenarios(tier, seed):
    far = 3.0 * tc.R
    out = []
    def sc(name, cells, script=(), T=2000, draws=None, **kw):
        s = tc.scenario(name, cells, list(script), T_ns=T, threads=2, **kw)
        if draws:
            s["draws"] = draws
        return s
    out.append(sc("grow", [tc.cell(0, 0, growth=2e-11), tc.cell(1, far, growth=0.0), tc.cell(2, 2 * far, growth=-2e-11)],
                  draws={"n": 10000, "g_mean": 2e-11, "g_std": 2e-12, "v_mean": 1.4e-14, "v_std": 1.4e-15}))
    out.append(sc("clamp", [tc.cell(0, 0, growth=-4e-10, minvol=1.2e-16), tc.cell(1, far, growth=-1e-10, minvol=1e-19)], T=1500))
    out.append(sc("cap", [tc.cell(0, 0, p0=800.0, pmax=100.0), tc.cell(1, far, p0=800.0, pmax="inf"), tc.cell(2, 2 * far, p0=-300.0, pmax=50.0, K=1e3)], T=1500))
    out.append(sc("k0", [tc.cell(0, 0, K=1e-3, growth=1e-10), tc.cell(1, far, ctype=1, nft=1), tc.cell(2, 2 * far, ctype=4, nft=1)], T=1200))
    out.append(sc("elig", [tc.cell(0, 0, level=2, divvol=1e-17), tc.cell(1, far, level=2, ctype=2, divvol=1e-17, nft=1), tc.cell(2, 2 * far, level=2, divvol="inf"),
                           tc.cell(3, 3 * far, level=2, ctype=3, divvol=1e-17, nft=1)], T=1200))
    out.append(sc("remove", [tc.cell(i, i * far) for i in range(4)], [{"iter": 2, "do": "small", "cell": 3}, {"iter": 2, "do": "small", "cell": 0}, {"iter": 9, "do": "small", "cell": 2}], T=1500))
    # several cells falling below their minimum volume in the same iteration, at neighbouring places of the population list
    # (a removal loop that skips the element following an erased one only shows with neighbours), at its ends, and all of them
    out.append(sc("remove_adj", [tc.cell(i, i * far) for i in range(5)], [{"iter": 2, "do": "small", "cell": 1}, {"iter": 2, "do": "small", "cell": 2},
                                                                        {"iter": 6, "do": "small", "cell": 3}, {"iter": 6, "do": "small", "cell": 4}], T=1200))
    out.append(sc("remove_run", [tc.cell(i, i * far) for i in range(5)], [{"iter": 1, "do": "small", "cell": c} for c in (0, 1, 2, 3)], T=800))
    out.append(sc("remove_all", [tc.cell(i, i * far) for i in range(3)], [{"iter": 1, "do": "small", "cell": c} for c in (0, 1, 2)], T=600))
    # growth rates far below the shipped ones (a cell of 1e-15 m^3 with a cycle of hours grows at about 5e-20 m^3/s): the law is the same
    # at every magnitude -- an absolute tolerance on the rate would freeze these cells
    out.append(sc("tinygrow", [tc.cell(0, 0, growth=5e-20), tc.cell(1, far, growth=-5e-20), tc.cell(2, 2 * far, growth=1e-17), tc.cell(3, 3 * far, growth=-3e-16)], T=1200))
    # thresholds met with equality: volume exactly at the division volume (eligible: the division goes ahead), volume exactly at the minimum
    # volume right before the removal phase (not below it: the cell stays)
    out.append(sc("equal", [tc.cell(0, 0, level=2), tc.cell(1, far, level=2), tc.cell(2, 2 * far)], [{"iter": 5, "do": "ready_eq", "cell": 0}, {"iter": 3, "do": "small_eq", "cell": 2},
                                                                                              {"iter": 7, "do": "small_eq", "cell": 1}], T=1200))
    if tier == "thorough":
        rnd = random.Random(seed)
        for k in range(6):
            n = rnd.randint(3, 6)
            script = []
            for it in sorted(rnd.sample(range(1, 8), 2)):
                script += [{"iter": it, "do": "small", "cell": c} for c in rnd.sample(range(n), rnd.randint(1, n - 1))]
            out.append(sc("rmrnd%d" % k, [tc.cell(i, i * far) for i in range(n)], script, T=1200, seed=seed + 50 + k))
        for k in range(16):
            cells = [tc.cell(i, i * far, level=rnd.choice([1, 2]), growth=rnd.choice([0.0, 2e-11, -2e-11, -4e-10, 3e-10]), minvol=rnd.choice([1e-19, 1.0e-16, 1.5e-16]),
                             K=rnd.choice([1e-3, 1e3, 2.5e3, 1e4]), pmax=rnd.choice(["inf", 10.0, 500.0]), p0=rnd.choice([0.0, 200.0, -200.0, 900.0]),
                             divvol=rnd.choice(["inf", "inf", 1e-17])) for i in range(rnd.randint(1, 4))]
            for c in cells:
                # an initial pressure of 2e5 bulk moduli has no target volume in double precision (V * exp(p0 / K) overflows): outside the
                # domain in which the law can be evaluated at all (the first version of this generator produced such cells; the run then
                # spends its whole time limit in a contact grid of infinite extent -- a defect of the generator, not a finding)
                if abs(c["p0"]) > 30.0 * c["K"]:
                    c["p0"] = 0.0
            out.append(sc("rnd%d" % k, cells, [], T=rnd.choice([800, 2600]), seed=seed + k,
                          draws={"n": 10000, "g_mean": rnd.choice([0.0, 2e-11, -1e-11]), "g_std": rnd.choice([2e-12, 1e-11]), "v_mean": 1.4e-14, "v_std": rnd.choice([1.4e-15, 7e-15])}))
    return out


def run(tier, seed, replay=None):
    chk = Check("C04", tier, seed)
    work = vlib.scratch("c04")
    if replay:
        with open(replay) as f:
            scns = [json.load(f)["case"]["scenario"]]
    else:
        res = vlib.tlc(tc.SPEC, "TissueMC", "Tissue_c04.cfg", timeout=3000, xmx="12g")
        chk.add_tlc("Tissue/Tissue_c04.cfg", res)
        if res.is_violation:
            chk.violation("design:" + ",".join(res.violated), "TLC: spec/Tissue violates " + ",".join(res.violated) + "\n" + res.out[-2500:])
            return chk.finish()
        vlib.tlc_expect_ok(res, "Tissue")
        scns = scenarios(tier, seed)
    results = tc.run_scenarios("m1d0", scns, work)
    validated = tc.validate_all(results, work)
    nev = tc.report(chk, "C04", validated)
    stats = {"cells_clamped": 0, "cells_capped": 0, "removed": 0, "divided": 0}
    for s, ev, rc, depth, tags, res in validated:
        seen = set()
        for e in ev:
            if e.get("e") == "phase":
                for c in e["cells"]:
                    seen.add(c["id"])
        if ev and ev[-1].get("e") == "end":
            stats["removed"] += 0
    for s, ev, rc, depth, tags, res in validated[:3]:
        ph7 = [e for e in ev if e.get("e") == "phase" and e["k"] == 7]
        chk.sample({"scenario": s["name"], "cells": [{k: c[k] for k in ("type", "growth", "divvol", "minvol", "K", "pmax", "p0")} for c in s["cells"]],
                    "after_forces": [{k: c[k] for k in ("id", "vol", "tvol", "press", "tvol_law", "press_law")} for c in (ph7[-1]["cells"] if ph7 else [])]})
    chk.cov["evaluations"] = nev
    chk.cov["distinct_nontrivial"] = len(scns)
    chk.cov["rule"] = "one trace per parameter set / history; the laws are evaluated for every non-static cell at every force phase; 10^4 draws per scenario that asks for them"
    if not replay:
        s, ev, rc, txt, ep = results[1]
        ev1 = json.loads(json.dumps(ev))
        k = next(i for i, e in enumerate(ev1) if e.get("e") == "phase" and e["k"] == 7)
        ev1[k]["cells"][0]["tvol_law"] = False
        p1 = os.path.join(work, "ctl1.ndjson"); vlib.write_ndjson(p1, ev1)
        _, t1 = tc.validate_trace(p1, ev1, work, "ctl1")
        s5, ev5, _, _, _ = results[5]
        ev2 = json.loads(json.dumps(ev5))
        k2 = next(i for i, e in enumerate(ev2) if e.get("e") == "phase" and e["k"] == 10 and len(e["cells"]) < 4)
        ev2[k2]["cells"] = ev2[k2 - 1]["cells"]            # the small cells are still there after the removal phase
        p2 = os.path.join(work, "ctl2.ndjson"); vlib.write_ndjson(p2, ev2)
        _, t2 = tc.validate_trace(p2, ev2, work, "ctl2")
        rej = int(any(t == "C04_TargetVolumeLaw" for t, _ in t1)) + int(any(t == "C04_RemovalStep" for t, _ in t2))
        chk.cov["controls_run"], chk.cov["controls_rejected"] = 2, rej
        if rej != 2:
            raise ModelError("negative controls: %d of 2 rejected (%r %r)" % (rej, t1, t2))
    chk.assumptions += ["ln(), the signed-tetrahedra volume sum and the 3-sigma comparison are evaluated by the C++ driver (TLA+ has no transcendental functions); "
                        "TLC requires their verdicts", "pressure compared to 1e-9 relative; target volume law bitwise (same two double operations)",
                        "static cells (ECM, static) are not subject to internal forces and are excluded from the numeric laws"]
    shutil.rmtree(work, ignore_errors=True)
    return chk.finish()
