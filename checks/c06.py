"""C06 -- contact detection finds every node-face pair within the interaction range.
spec/Contact/BroadPhase models the broad phase along one axis on the integer lattice (padded face boxes, the global box with its extra
padding, voxel size 3*l_min + 2*cut-off, registration interval of a face, single-voxel lookup of a node, the epsilon regimes of the grid);
TLC checks Complete (a node in the padded box of a face finds it in its voxel), RangeImpliesBox and NoOOB for every arrangement in the bound
(registration and lookup are per-axis products, so per-axis completeness gives completeness in space); the rule of the code before the fix
of the out-of-grid registration is refuted as a control.  Real contact_model::run on lattice tissues (2-3 cells at every relative offset
of a window, several scales and positions incl. straddling the origin and exact voxel alignment; fresh cells and cells with unused slots
inside their node / face lists, as edge collapses leave them) in each contact model build is compared
with the same public narrow phase applied to ALL node-triangle pairs of different cells: forces must be equal and add up to zero."""
import itertools, json, os, random, shutil
import vlib
from vlib import Check, ModelError

SPEC = os.path.join(vlib.ROOT, "spec", "Contact")


def cases(tier, seed):
    rnd = random.Random(seed)
    out = []
    def add(cells, unit, lmin, cut):
        out.append({"unit": unit, "lmin": lmin, "cut": cut, "cells": cells})
    types = [2, 4, 1, 3, 2]          # no two epithelial cells (couplings are order dependent); one epithelial cell allowed
    span = range(-3, 4) if tier == "thorough" else (-3, -1, 0, 2)
    # two shapes at every relative offset of a window
    for dx, dy, dz in itertools.product(span, repeat=3):
        if tier == "quick" and (dx + dy + dz) % 2:
            continue
        base = rnd.choice([[0, 0, 0], [-2, -1, -3], [1000, 1000, 1000], [-5000, 3, 7]])
        sh = rnd.choice([("box", [2, 2, 2]), ("box", [1, 2, 1]), ("octa", [1, 1, 1]), ("tetra", [1, 1, 1])])
        sh2 = rnd.choice([("box", [1, 1, 1]), ("tetra", [1, 1, 1]), ("octa", [1, 1, 1])])
        t = rnd.sample(types, 2)
        if rnd.random() < 0.3:
            t[0] = 0
        add([{"shape": sh[0], "dims": sh[1], "k": 1, "at": base, "type": t[0]},
             {"shape": sh2[0], "dims": sh2[1], "k": 1, "at": [base[0] + dx, base[1] + dy, base[2] + dz], "type": t[1]}],
            rnd.choice([1.0, 2.0 ** -17, 2.0 ** -20, 2.0 ** -27, 2.0 ** -34]), rnd.choice([1, 2]), rnd.choice([1, 2]))
    # exact alignment of the global box with the voxel size, epsilon absorbed
    for at in ([1000, 1000, 1000], [-1000, 1000, 8], [8, 8, 8]):
        add([{"shape": "box", "dims": [1, 1, 1], "k": 1, "at": at, "type": 2}, {"shape": "box", "dims": [1, 1, 1], "k": 1, "at": at, "type": 4}], 1.0, 1, 2)
        add([{"shape": "box", "dims": [1, 1, 1], "k": 1, "at": at, "type": 2}, {"shape": "box", "dims": [1, 1, 1], "k": 1, "at": [at[0] + 7, at[1], at[2]], "type": 4}], 1.0, 1, 2)
    # three and four cells
    for n in range(6 if tier == "quick" else 60):
        k = rnd.randint(3, 4)
        base = rnd.choice([[0, 0, 0], [300, -200, 100]])
        cells = [{"shape": rnd.choice(["box", "octa", "tetra"]), "dims": [rnd.randint(1, 2) for _ in range(3)], "k": 1,
                  "at": [base[a] + rnd.randint(-3, 3) for a in range(3)], "type": types[i]} for i in range(k)]
        add(cells, rnd.choice([1.0, 2.0 ** -17, 2.0 ** -27]), rnd.choice([1, 2]), rnd.choice([1, 2]))
    # coarse faces: a cell whose triangles are several voxels long (an input mesh that has not been refined yet, or a minimum edge
    # length that is small for the geometry), and a small cell dipping into the MIDDLE of one of its sides -- the voxels strictly
    # between the corners of a face's padded box have to know the face as well
    for at2, k1 in (([5, 5, 11.5], 12), ([6, 3, -1.5], 12), ([11.5, 5, 6], 12), ([7.5, 8, 15.5], 16), ([-1.5, 9, 4], 16)):
        base = rnd.choice([[0, 0, 0], [-40, 25, 10]])
        add([{"shape": "box", "dims": [1, 1, 1], "k": k1, "at": base, "type": 2},
             {"shape": rnd.choice(["box", "octa"]), "dims": [1, 1, 1], "k": 1, "at": [base[a] + at2[a] for a in range(3)], "type": 4}], rnd.choice([1.0, 2.0 ** -20]), 1, 1)
    # a tissue with more than 65536 faces in total (a finely meshed bystander far away, listed FIRST, then two small cells in contact):
    # global face numbers, offsets and counters beyond 16 bits
    add([{"shape": "sphere", "level": 7, "dims": [1, 1, 1], "k": 1, "at": [2000, 0, 0], "type": 2},
         {"shape": "box", "dims": [2, 2, 2], "k": 1, "at": [0, 0, 0], "type": 4}, {"shape": "box", "dims": [1, 1, 1], "k": 1, "at": [1, 1, 1], "type": 2}], 1.0, 1, 1)
    # histories: cells whose node / face lists contain unused slots before live elements (what edge collapses leave behind until
    # the next compaction; contact detection runs on such cells in every iteration that follows a collapse)
    for c in [x for x in out[:: 3 if tier == "quick" else 1] if not any(cc["shape"] == "sphere" for cc in x["cells"])]:
        d = json.loads(json.dumps(c))
        for cc in d["cells"]:
            cc["frag"] = rnd.choice([1, 2, 3, 5])
            cc["fragn"] = rnd.random() < 0.5
        out.append(d)
    # the contact phase right after a remeshing step (real edge splits, cached normals of untouched faces not refreshed)
    for c in [x for x in out[1:: 5 if tier == "quick" else 2] if not any(cc["shape"] == "sphere" for cc in x["cells"])]:
        d = json.loads(json.dumps(c))
        d["splits"] = rnd.choice([2, 4, 7])
        out.append(d)
    # different adhesion and repulsion cut-offs (the padding of the boxes and the voxel size must follow the larger one)
    for j, c in enumerate(out):
        if j % 3 == 0:
            c["cutr"] = c["cut"] + 1
        elif j % 3 == 1 and c["cut"] > 1:
            c["cutr"] = c["cut"] - 1
    # persistent identifiers that differ from list positions (what divisions and removals leave): rotated (the identifier of one
    # cell is the position of another) or unrelated
    for j, c in enumerate(out):
        n = len(c["cells"])
        if j % 3 == 1:
            for i, cc in enumerate(c["cells"]):
                cc["id"] = (i + 1) % n
        elif j % 3 == 2:
            for i, cc in enumerate(c["cells"]):
                cc["id"] = 10 + 3 * i
    for i, c in enumerate(out):
        c["k"] = i + 1
    return out


def run(tier, seed, replay=None):
    chk = Check("C06", tier, seed)
    work = vlib.scratch("c06")
    res = vlib.tlc(SPEC, "BroadPhaseMC", "BroadPhase_clamp.cfg", timeout=1800)
    chk.add_tlc("Contact/BroadPhase(clamp)", res)
    if res.is_violation:
        chk.violation("design:" + ",".join(res.violated), "TLC: spec/Contact/BroadPhase violates " + ",".join(res.violated) + "\n" + res.out[-2000:])
        return chk.finish()
    vlib.tlc_expect_ok(res, "BroadPhase")
    cs = cases(tier, seed)
    builds = ["m1d0", "m0d0", "m2d0"]        # every contact model in both tiers (each has its own run() and narrow phase)
    if replay:
        with open(replay) as f:
            r = json.load(f)["case"]
        cs, builds = [r["case"]], [r["variant"]]
        cs[0]["k"] = 1
    total = nontriv = 0
    for variant in builds:
        bdir = vlib.build(variant, ["contact_driver"])
        cp, op = os.path.join(work, "cases_%s.ndjson" % variant), os.path.join(work, "obs_%s.ndjson" % variant)
        vlib.write_ndjson(cp, cs)
        for threads in (("8",) if tier == "quick" else ("1", "8", "16")):
            rc, out = vlib.run([os.path.join(bdir, "contact_driver"), "tissue", cp, op], timeout=3000, env={"OMP_NUM_THREADS": threads})
            obs = vlib.read_ndjson(op) if os.path.exists(op) else []
            if rc != 0 or len(obs) != len(cs):
                bad = cs[len(obs)] if len(obs) < len(cs) else None
                chk.violation("crash:%s:%s" % (variant, json.dumps(bad)), "contact_model::run (%s, %s threads) terminated with status %d on tissue %s\n%s" % (variant, threads, rc, json.dumps(bad), out[-300:]),
                              {"variant": variant, "case": bad})
                continue
            for c, o in zip(cs, obs):
                total += 1
                nontriv += int(o["nonzero_nodes"] > 0)
                if not o["equal"]:
                    chk.violation("impl:%s:missed:%s" % (variant, json.dumps({k: v for k, v in c.items() if k != "k"})),
                                  "contact model %s (%s threads) on tissue %s: forces differ from the all-pairs reference (%s)" % (variant, threads, json.dumps(c), o["rel"]), {"variant": variant, "case": c})
                elif not o.get("equal_reused", True):
                    chk.violation("impl:%s:reused:%s" % (variant, json.dumps({k: v for k, v in c.items() if k != "k"})),
                                  "contact model %s (%s threads) on tissue %s: a model object re-used from the previous tissues (as the solver re-uses its contact model and grid at every iteration) gives forces that differ from the all-pairs reference" % (variant, threads, json.dumps(c)), {"variant": variant, "case": c})
                elif not o["net_zero"]:
                    chk.violation("impl:%s:net:%s" % (variant, json.dumps({k: v for k, v in c.items() if k != "k"})),
                                  "contact model %s (%s threads) on tissue %s: the contact forces do not add up to zero (%s)" % (variant, threads, json.dumps(c), o["rel"]), {"variant": variant, "case": c})
        chk.sample({"build": variant, "tissue": cs[0], "observed": obs[0] if obs else None})
    chk.cov["traces_validated_against_impl"] = total
    chk.cov["evaluations"] = total
    chk.cov["distinct_nontrivial"] = nontriv
    chk.cov["rule"] = "one tissue per relative offset / scale / position / alignment, run per contact model (and thread count); non-trivial = at least one node received a contact force"
    if not replay:
        pre = vlib.tlc(SPEC, "BroadPhaseMC", "BroadPhase.cfg", timeout=600)
        chk.cov["controls_run"], chk.cov["controls_rejected"] = 1, int("NoOOB" in pre.violated)
        if "NoOOB" not in pre.violated:
            raise ModelError("control: the pre-fix registration rule was not refuted")
        if nontriv < 10 and not chk.violations:
            raise ModelError("vacuous: only %d tissues with contact forces" % nontriv)
    chk.assumptions += ["lattice tissues (coordinates, l_min and cut-offs integer multiples of a power-of-two unit); two epithelial cells are never adjacent (their couplings are order dependent: C08 / C03)",
                        "the reference applies the model's own public narrow phase (and its gate on opposed normals) to every node-triangle pair of different cells; equality to 1e-9 of the largest force"]
    shutil.rmtree(work, ignore_errors=True)
    return chk.finish()
