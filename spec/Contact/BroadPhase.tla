------------------------------ MODULE BroadPhase ------------------------------
(***************************************************************************)
(* The broad phase of the contact models (contact_model_abstract::          *)
(* update_face_aabbs / store_face_in_uspg and the per-node voxel lookup of  *)
(* the three models) along one coordinate axis, on the integer lattice.     *)
(* Registration and lookup are products of per-axis intervals and the AABB  *)
(* test is a per-axis conjunction, so completeness on every axis gives      *)
(* completeness in space.  Property C06.                                    *)
(*                                                                          *)
(* Coordinates are stored doubled (see spec/Grid): +1 is an epsilon that    *)
(* survives a floating-point addition, +0 one that is absorbed.             *)
(***************************************************************************)
EXTENDS Integers, Sequences, FiniteSets, TLC
CONSTANTS Coords,        \* lattice coordinates a face end point / a node may take
          Pads, LMins,   \* candidate paddings (max cut-off) and minimum edge lengths
          NFaces,
          Regimes,       \* <<dmin, dmax>> epsilon regimes
          StopRule       \* "floor": last voxel of a face = floor((hi+pad-origin)/size)  (the code)
                         \* "clamp": the same, clamped to the last voxel of the grid
VARIABLES faces, nodes, pad, lmin, reg
vars == <<faces, nodes, pad, lmin, reg>>

D(v) == 2 * v
Size == D(3 * lmin + 2 * pad)                                     \* voxel size = 3*l_min + 2*cut-off
FLo(f) == D(faces[f][1] - pad)                                    \* padded box of a face
FHi(f) == D(faces[f][2] + pad)
MinOf(S) == CHOOSE x \in S : \A y \in S : x <= y
MaxOf(S) == CHOOSE x \in S : \A y \in S : x >= y
GMin == MinOf({FLo(f) : f \in 1..NFaces}) - D(pad)                \* the global minimum is shifted by the padding once more
GMax == MaxOf({FHi(f) : f \in 1..NFaces})
Origin == GMin - reg[1]
CeilDiv(a, b) == (a + b - 1) \div b
Nb == CeilDiv(GMax + reg[2] - GMin, Size)
Start(f) == (FLo(f) - Origin) \div Size
Stop(f)  == LET s == (FHi(f) - Origin) \div Size IN IF StopRule = "clamp" /\ s > Nb - 1 THEN Nb - 1 ELSE s
Idx(x)   == (D(x) - Origin) \div Size
Registered(f, v) == Start(f) <= v /\ v <= Stop(f)
InPaddedBox(x, f) == D(x) >= FLo(f) /\ D(x) <= FHi(f)             \* aabb_intersection_check

Init == /\ faces \in [1..NFaces -> {<<a, b>> \in Coords \X Coords : a <= b}]
        /\ nodes = UNION {{faces[f][1], faces[f][2]} : f \in 1..NFaces}      \* the nodes are the end points of the faces
        /\ pad \in Pads /\ lmin \in LMins /\ reg \in Regimes
Next == UNCHANGED vars
Spec == Init /\ [][Next]_vars

\* every node that lies in the padded box of a face finds that face in its own voxel
Complete == \A x \in nodes : \A f \in 1..NFaces : InPaddedBox(x, f) => Registered(f, Idx(x))
\* a face within the cut-off of a node has the node in its padded box (distance along this axis <= pad)
RangeImpliesBox == \A x \in nodes : \A f \in 1..NFaces : (x >= faces[f][1] - pad /\ x <= faces[f][2] + pad) => InPaddedBox(x, f)
\* no voxel index used for registration or lookup lies outside the grid
NoOOB == /\ \A f \in 1..NFaces : Start(f) >= 0 /\ Stop(f) < Nb
         /\ \A x \in nodes : Idx(x) >= 0 /\ Idx(x) < Nb
=============================================================================
