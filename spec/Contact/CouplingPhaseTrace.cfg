SPECIFICATION TSpec
INVARIANTS P_FirstPhaseCouples P_PhaseStartsFresh
CHECK_DEADLOCK FALSE
