------------------------------- MODULE Coupling -------------------------------
(* The coupling protocol of spec/Contact/CouplingRule as a state machine: one presentation per step, every order. *)
EXTENDS CouplingRule
VARIABLES geo, st, hist
vars == <<geo, st, hist>>
Done == {hist[i] : i \in 1..Len(hist)}
Init == geo \in Geos /\ st = Fresh /\ hist = <<>>
Present(c) == c \notin Done /\ st' = Resolve(geo, st, c) /\ hist' = Append(hist, c) /\ UNCHANGED geo
Next == \E c \in Calls : Present(c)
Spec == Init /\ [][Next]_vars

\* ---- what every schedule keeps
Coupled(s, n) == s.partner[n] # None
\* the stored distance is the distance to the stored partner (the integrator and the next presentation rely on it)
DistMatches == \A n \in Nodes : Coupled(st, n) => st.dist[n] = D(geo, n, st.partner[n])
\* C07: never within one cell, never beyond the adhesion cut-off
OtherCell == \A n \in Nodes : Coupled(st, n) => CellOf(st.partner[n]) # CellOf(n)
WithinCut == \A n \in Nodes : Coupled(st, n) => st.dist[n] < Cut2(geo)
Uncoupled == \A n \in Nodes : ~Coupled(st, n) => st.dist[n] = Inf
\* a reference is stale (not mutual) only because the partner was taken over by somebody at least as close to it
StaleOnlyIfStolen == \A n \in Nodes : (Coupled(st, n) /\ st.partner[st.partner[n]] # n) =>
                        (Coupled(st, st.partner[n]) /\ st.dist[st.partner[n]] <= st.dist[n])
\* stored distances only ever decrease during a phase
DistMonotone == [][\A n \in Nodes : st'.dist[n] <= st.dist[n]]_vars
\* the integrator treats a pair as coupled when the references are mutual: mutual references form a matching by construction;
\* and, whatever the order of the presentations, two nodes that are each other's strictly nearest node of the other cell, within
\* the cut-off, and that are presented to each other at all, end the phase mutually coupled
Presented(a, b) == \E c \in Calls : (c[1] = a /\ \E i \in 1..3 : Faces[c[2]][i] = b) \/ (c[1] = b /\ \E i \in 1..3 : Faces[c[2]][i] = a)
StrictNearest(a, b) == \A m \in Nodes : (CellOf(m) = CellOf(b) /\ m # b) => D(geo, a, b) < D(geo, a, m)
MutualNearestCoupled == (Done = Calls) =>
    \A a \in 1..4, b \in 5..8 : (D(geo, a, b) < Cut2(geo) /\ StrictNearest(a, b) /\ StrictNearest(b, a) /\ Presented(a, b)) =>
        (st.partner[a] = b /\ st.partner[b] = a)
\* the history variable carries no behaviour of its own: the state is the replay of the history
HistExplains == st = Replay(geo, Fresh, hist)
=============================================================================
