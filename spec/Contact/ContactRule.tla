------------------------------ MODULE ContactRule ------------------------------
(***************************************************************************)
(* The narrow phase shared by the three contact models for a node p of a   *)
(* cell of type t1 and a triangle (a, b, c) of another cell of type t2     *)
(* (resolve_contact of the coupling models, apply_contact_forces of the    *)
(* spring model), on the integer lattice.  Cell types: 0 epithelial, 1 ECM,*)
(* 2 lumen, 3 nucleus, 4 static.  Property C07.                            *)
(*                                                                         *)
(* q = closest point of the triangle (spec/ClosestPoint), d = p - q,       *)
(* n = (b-a) x (c-a) the outward normal of the triangle's cell.            *)
(* The node is on the forbidden side when d.n < 0 (inside an ordinary      *)
(* cell); the test is reversed for an epithelial node against an ECM face  *)
(* (the matrix encloses the tissue) and for a nucleus node against an      *)
(* epithelial face (the cell encloses its nucleus).                        *)
(* Repulsion: V = k * area * d is distributed on a, b, c with the          *)
(* barycentric weights of q and -V is applied on the node.                 *)
(***************************************************************************)
EXTENDS ClosestPoint

Reversed(t1, t2) == (t1 = 0 /\ t2 = 1) \/ (t1 = 3 /\ t2 = 0)
\* den * d and den^2 * d.n  (same sign as d.n)
DScaled(r, p, a, b, c) == Sub(Mul(r.den, p), Add(Add(Mul(r.u, a), Mul(r.v, b)), Mul(r.w, c)))
SideNum(r, p, a, b, c) == Dot(DScaled(r, p, a, b, c), Cross(Sub(b, a), Sub(c, a)))
Forbidden(t1, t2, r, p, a, b, c) == IF Reversed(t1, t2) THEN SideNum(r, p, a, b, c) > 0 ELSE SideNum(r, p, a, b, c) < 0
\* within the cut-off: d2 < cut^2   (d2 = d2n/d2d)
InRange(r, cut2) == r.d2n < cut2 * r.d2d

\* the decision for a pair that does not end in a coupling: "none" | "repulsion"
Decision(t1, t2, same, r, p, a, b, c, cut2) ==
    IF same THEN "none"
    ELSE IF ~InRange(r, cut2) THEN "none"
    ELSE IF Forbidden(t1, t2, r, p, a, b, c) THEN "repulsion" ELSE "none"

\* repulsion forces divided by (strength * area): on the node -d, on the corners u d, v d, w d (all scaled by den^2)
ForceNode(r, p, a, b, c) == Mul(-r.den, DScaled(r, p, a, b, c))
ForceA(r, p, a, b, c) == Mul(r.u, DScaled(r, p, a, b, c))
ForceB(r, p, a, b, c) == Mul(r.v, DScaled(r, p, a, b, c))
ForceC(r, p, a, b, c) == Mul(r.w, DScaled(r, p, a, b, c))
Reciprocal(r, p, a, b, c) == Add(Add(ForceNode(r, p, a, b, c), ForceA(r, p, a, b, c)), Add(ForceB(r, p, a, b, c), ForceC(r, p, a, b, c))) = <<0, 0, 0>>
\* the force on the node points from the node towards the closest point of the surface; the reaction pushes the surface towards the node
PushesBack(r, p, a, b, c) == Dot(ForceNode(r, p, a, b, c), DScaled(r, p, a, b, c)) < 0
                             /\ \A F \in {ForceA(r, p, a, b, c), ForceB(r, p, a, b, c), ForceC(r, p, a, b, c)} : Dot(F, DScaled(r, p, a, b, c)) >= 0
=============================================================================
