SPECIFICATION TSpec
INVARIANTS P_Setup P_Partner P_Dist P_Range
CHECK_DEADLOCK FALSE
