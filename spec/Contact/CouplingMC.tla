------------------------------ MODULE CouplingMC ------------------------------
EXTENDS Coupling
CONSTANT MaxLen
Bounded == Len(hist) <= MaxLen
=============================================================================
