------------------------------ MODULE ContactTrace ------------------------------
(* C07: one node against one triangle through the public narrow phase of a real contact model (harness/drivers/contact_driver.cpp,
   mode pair) against ContactRule.  Forces are logged in units of strength * area * lattice unit and mapped to integers scaled by den^2
   by checks/c07.py (exactness flag). *)
EXTENDS ContactRule, Json, IOUtils
Log == ndJsonDeserialize(IOEnv.OBS)
VARIABLE k
R == Log[k]
TInit == k \in 1..Len(Log)
TSpec == TInit /\ [][UNCHANGED k]_k
r == Closest(R.p, R.a, R.b, R.c)
Dec == Decision(R.t1, R.t2, FALSE, r, R.p, R.a, R.b, R.c, R.cut2)
Zero == <<0, 0, 0>>
\* margin rule: a node exactly in the tangent plane of the triangle (d.n = 0) is on neither side; in floating point the sign of an exact
\* zero is decided by rounding, so those cases are only required to be reciprocal and short-ranged
Decidable == SideNum(r, R.p, R.a, R.b, R.c) # 0
P_Setup == R.face_ok /\ R.exact /\ R.others_zero /\ R.apex_zero
\* equal and opposite: whatever was applied adds up to zero over the node and the three corners
P_Reciprocal == R.sum_zero
\* nothing beyond the cut-offs.  The run uses two DIFFERENT cut-offs: R.cut2 is the squared range of the repulsion rule of the
\* specification; the squared adhesion cut-off is R.adh2n / R.adh2d (4 cut2 or cut2 / 4 in the spring model, cut2 or cut2 / 4 in the
\* coupling models, whose repulsion range is the larger of their two cut-offs).
InAdh == r.d2n * R.adh2d < R.adh2n * r.d2d
InAny == InRange(r, R.cut2) \/ InAdh
NoForce == R.fn = Zero /\ R.fa = Zero /\ R.fb = Zero /\ R.fc = Zero
P_ShortRanged == /\ ~InAny => (NoForce /\ ~R.coupled)
                 \* on the allowed side the spring model only knows adhesion: nothing beyond the adhesion cut-off
                 /\ (R.model = 0 /\ Decidable /\ ~Forbidden(R.t1, R.t2, r, R.p, R.a, R.b, R.c) /\ ~InAdh) => NoForce
                 \* a coupling is only ever created within the adhesion cut-off
                 /\ R.coupled => InAdh
\* an overlapping pair is pushed apart with exactly the forces of the specification
P_Repulsion == (Decidable /\ Dec = "repulsion") => (R.fn = ForceNode(r, R.p, R.a, R.b, R.c) /\ R.fa = ForceA(r, R.p, R.a, R.b, R.c)
                                     /\ R.fb = ForceB(r, R.p, R.a, R.b, R.c) /\ R.fc = ForceC(r, R.p, R.a, R.b, R.c))
\* on the allowed side the coupling models apply nothing; the spring model may pull the two together (adhesion), never push
P_AllowedSide == (Decidable /\ Dec = "none" /\ InRange(r, R.cut2)) =>
                    IF R.model = 0 THEN Dot(R.fn, DScaled(r, R.p, R.a, R.b, R.c)) <= 0
                    ELSE R.fn = Zero /\ R.fa = Zero /\ R.fb = Zero /\ R.fc = Zero
=============================================================================
