---- MODULE CouplingPar_TTrace_1790505771 ----
EXTENDS Sequences, TLCExt, Toolbox, Naturals, TLC, CouplingPar

_expression ==
    LET CouplingPar_TEExpression == INSTANCE CouplingPar_TEExpression
    IN CouplingPar_TEExpression!expression
----

_trace ==
    LET CouplingPar_TETrace == INSTANCE CouplingPar_TETrace
    IN CouplingPar_TETrace!trace
----

_inv ==
    ~(
        TLCGet("level") = Len(_TETrace)
        /\
        geo = (3)
        /\
        st = ([dist |-> <<8, 8, 24, 1000000, 8, 8, 8, 1000000>>, partner |-> <<5, 6, 5, 0, 1, 2, 3, 0>>])
        /\
        pc = (<<"decide", "decide">>)
        /\
        done = ({<<1, 2>>, <<2, 2>>, <<3, 2>>, <<5, 1>>, <<5, 3>>, <<6, 1>>, <<7, 1>>})
        /\
        pend = (<<[n |-> 0, m |-> 0, e |-> 0], [n |-> 0, m |-> 0, e |-> 0]>>)
    )
----

_init ==
    /\ geo = _TETrace[1].geo
    /\ done = _TETrace[1].done
    /\ st = _TETrace[1].st
    /\ pend = _TETrace[1].pend
    /\ pc = _TETrace[1].pc
----

_next ==
    /\ \E i,j \in DOMAIN _TETrace:
        /\ \/ /\ j = i + 1
              /\ i = TLCGet("level")
        /\ geo  = _TETrace[i].geo
        /\ geo' = _TETrace[j].geo
        /\ done  = _TETrace[i].done
        /\ done' = _TETrace[j].done
        /\ st  = _TETrace[i].st
        /\ st' = _TETrace[j].st
        /\ pend  = _TETrace[i].pend
        /\ pend' = _TETrace[j].pend
        /\ pc  = _TETrace[i].pc
        /\ pc' = _TETrace[j].pc

\* Uncomment the ASSUME below to write the states of the error trace
\* to the given file in Json format. Note that you can pass any tuple
\* to `JsonSerialize`. For example, a sub-sequence of _TETrace.
    \* ASSUME
    \*     LET J == INSTANCE Json
    \*         IN J!JsonSerialize("CouplingPar_TTrace_1790505771.json", _TETrace)

=============================================================================

 Note that you can extract this module `CouplingPar_TEExpression`
  to a dedicated file to reuse `expression` (the module in the 
  dedicated `CouplingPar_TEExpression.tla` file takes precedence 
  over the module `CouplingPar_TEExpression` below).

---- MODULE CouplingPar_TEExpression ----
EXTENDS Sequences, TLCExt, Toolbox, Naturals, TLC, CouplingPar

expression == 
    [
        \* To hide variables of the `CouplingPar` spec from the error trace,
        \* remove the variables below.  The trace will be written in the order
        \* of the fields of this record.
        geo |-> geo
        ,done |-> done
        ,st |-> st
        ,pend |-> pend
        ,pc |-> pc
        
        \* Put additional constant-, state-, and action-level expressions here:
        \* ,_stateNumber |-> _TEPosition
        \* ,_geoUnchanged |-> geo = geo'
        
        \* Format the `geo` variable as Json value.
        \* ,_geoJson |->
        \*     LET J == INSTANCE Json
        \*     IN J!ToJson(geo)
        
        \* Lastly, you may build expressions over arbitrary sets of states by
        \* leveraging the _TETrace operator.  For example, this is how to
        \* count the number of times a spec variable changed up to the current
        \* state in the trace.
        \* ,_geoModCount |->
        \*     LET F[s \in DOMAIN _TETrace] ==
        \*         IF s = 1 THEN 0
        \*         ELSE IF _TETrace[s].geo # _TETrace[s-1].geo
        \*             THEN 1 + F[s-1] ELSE F[s-1]
        \*     IN F[_TEPosition - 1]
    ]

=============================================================================



Parsing and semantic processing can take forever if the trace below is long.
 In this case, it is advised to uncomment the module below to deserialize the
 trace from a generated binary file.

\*
\*---- MODULE CouplingPar_TETrace ----
\*EXTENDS IOUtils, TLC, CouplingPar
\*
\*trace == IODeserialize("CouplingPar_TTrace_1790505771.bin", TRUE)
\*
\*=============================================================================
\*

---- MODULE CouplingPar_TETrace ----
EXTENDS TLC, CouplingPar

trace == 
    <<
    ([geo |-> 3,st |-> [dist |-> <<1000000, 1000000, 1000000, 1000000, 1000000, 1000000, 1000000, 1000000>>, partner |-> <<0, 0, 0, 0, 0, 0, 0, 0>>],pc |-> <<"decide", "decide">>,done |-> {},pend |-> <<[n |-> 0, m |-> 0, e |-> 0], [n |-> 0, m |-> 0, e |-> 0]>>]),
    ([geo |-> 3,st |-> [dist |-> <<1000000, 1000000, 1000000, 1000000, 1000000, 1000000, 1000000, 1000000>>, partner |-> <<0, 0, 0, 0, 0, 0, 0, 0>>],pc |-> <<"w1", "decide">>,done |-> {<<1, 2>>},pend |-> <<[n |-> 1, m |-> 5, e |-> 8], [n |-> 0, m |-> 0, e |-> 0]>>]),
    ([geo |-> 3,st |-> [dist |-> <<8, 1000000, 1000000, 1000000, 1000000, 1000000, 1000000, 1000000>>, partner |-> <<5, 0, 0, 0, 0, 0, 0, 0>>],pc |-> <<"w2", "decide">>,done |-> {<<1, 2>>},pend |-> <<[n |-> 1, m |-> 5, e |-> 8], [n |-> 0, m |-> 0, e |-> 0]>>]),
    ([geo |-> 3,st |-> [dist |-> <<8, 1000000, 1000000, 1000000, 1000000, 1000000, 1000000, 1000000>>, partner |-> <<5, 0, 0, 0, 0, 0, 0, 0>>],pc |-> <<"w2", "w1">>,done |-> {<<1, 2>>, <<5, 1>>},pend |-> <<[n |-> 1, m |-> 5, e |-> 8], [n |-> 5, m |-> 3, e |-> 24]>>]),
    ([geo |-> 3,st |-> [dist |-> <<8, 1000000, 1000000, 1000000, 24, 1000000, 1000000, 1000000>>, partner |-> <<5, 0, 0, 0, 3, 0, 0, 0>>],pc |-> <<"w2", "w2">>,done |-> {<<1, 2>>, <<5, 1>>},pend |-> <<[n |-> 1, m |-> 5, e |-> 8], [n |-> 5, m |-> 3, e |-> 24]>>]),
    ([geo |-> 3,st |-> [dist |-> <<8, 1000000, 1000000, 1000000, 8, 1000000, 1000000, 1000000>>, partner |-> <<5, 0, 0, 0, 1, 0, 0, 0>>],pc |-> <<"decide", "w2">>,done |-> {<<1, 2>>, <<5, 1>>},pend |-> <<[n |-> 0, m |-> 0, e |-> 0], [n |-> 5, m |-> 3, e |-> 24]>>]),
    ([geo |-> 3,st |-> [dist |-> <<8, 1000000, 1000000, 1000000, 8, 1000000, 1000000, 1000000>>, partner |-> <<5, 0, 0, 0, 1, 0, 0, 0>>],pc |-> <<"w1", "w2">>,done |-> {<<1, 2>>, <<2, 2>>, <<5, 1>>},pend |-> <<[n |-> 2, m |-> 6, e |-> 8], [n |-> 5, m |-> 3, e |-> 24]>>]),
    ([geo |-> 3,st |-> [dist |-> <<8, 8, 1000000, 1000000, 8, 1000000, 1000000, 1000000>>, partner |-> <<5, 6, 0, 0, 1, 0, 0, 0>>],pc |-> <<"w2", "w2">>,done |-> {<<1, 2>>, <<2, 2>>, <<5, 1>>},pend |-> <<[n |-> 2, m |-> 6, e |-> 8], [n |-> 5, m |-> 3, e |-> 24]>>]),
    ([geo |-> 3,st |-> [dist |-> <<8, 8, 1000000, 1000000, 8, 8, 1000000, 1000000>>, partner |-> <<5, 6, 0, 0, 1, 2, 0, 0>>],pc |-> <<"decide", "w2">>,done |-> {<<1, 2>>, <<2, 2>>, <<5, 1>>},pend |-> <<[n |-> 0, m |-> 0, e |-> 0], [n |-> 5, m |-> 3, e |-> 24]>>]),
    ([geo |-> 3,st |-> [dist |-> <<8, 8, 1000000, 1000000, 8, 8, 1000000, 1000000>>, partner |-> <<5, 6, 0, 0, 1, 2, 0, 0>>],pc |-> <<"w1", "w2">>,done |-> {<<1, 2>>, <<2, 2>>, <<3, 2>>, <<5, 1>>},pend |-> <<[n |-> 3, m |-> 7, e |-> 8], [n |-> 5, m |-> 3, e |-> 24]>>]),
    ([geo |-> 3,st |-> [dist |-> <<8, 8, 8, 1000000, 8, 8, 1000000, 1000000>>, partner |-> <<5, 6, 7, 0, 1, 2, 0, 0>>],pc |-> <<"w2", "w2">>,done |-> {<<1, 2>>, <<2, 2>>, <<3, 2>>, <<5, 1>>},pend |-> <<[n |-> 3, m |-> 7, e |-> 8], [n |-> 5, m |-> 3, e |-> 24]>>]),
    ([geo |-> 3,st |-> [dist |-> <<8, 8, 8, 1000000, 8, 8, 8, 1000000>>, partner |-> <<5, 6, 7, 0, 1, 2, 3, 0>>],pc |-> <<"decide", "w2">>,done |-> {<<1, 2>>, <<2, 2>>, <<3, 2>>, <<5, 1>>},pend |-> <<[n |-> 0, m |-> 0, e |-> 0], [n |-> 5, m |-> 3, e |-> 24]>>]),
    ([geo |-> 3,st |-> [dist |-> <<8, 8, 24, 1000000, 8, 8, 8, 1000000>>, partner |-> <<5, 6, 5, 0, 1, 2, 3, 0>>],pc |-> <<"decide", "decide">>,done |-> {<<1, 2>>, <<2, 2>>, <<3, 2>>, <<5, 1>>},pend |-> <<[n |-> 0, m |-> 0, e |-> 0], [n |-> 0, m |-> 0, e |-> 0]>>]),
    ([geo |-> 3,st |-> [dist |-> <<8, 8, 24, 1000000, 8, 8, 8, 1000000>>, partner |-> <<5, 6, 5, 0, 1, 2, 3, 0>>],pc |-> <<"decide", "decide">>,done |-> {<<1, 2>>, <<2, 2>>, <<3, 2>>, <<5, 1>>, <<5, 3>>},pend |-> <<[n |-> 0, m |-> 0, e |-> 0], [n |-> 0, m |-> 0, e |-> 0]>>]),
    ([geo |-> 3,st |-> [dist |-> <<8, 8, 24, 1000000, 8, 8, 8, 1000000>>, partner |-> <<5, 6, 5, 0, 1, 2, 3, 0>>],pc |-> <<"decide", "decide">>,done |-> {<<1, 2>>, <<2, 2>>, <<3, 2>>, <<5, 1>>, <<5, 3>>, <<6, 1>>},pend |-> <<[n |-> 0, m |-> 0, e |-> 0], [n |-> 0, m |-> 0, e |-> 0]>>]),
    ([geo |-> 3,st |-> [dist |-> <<8, 8, 24, 1000000, 8, 8, 8, 1000000>>, partner |-> <<5, 6, 5, 0, 1, 2, 3, 0>>],pc |-> <<"decide", "decide">>,done |-> {<<1, 2>>, <<2, 2>>, <<3, 2>>, <<5, 1>>, <<5, 3>>, <<6, 1>>, <<7, 1>>},pend |-> <<[n |-> 0, m |-> 0, e |-> 0], [n |-> 0, m |-> 0, e |-> 0]>>])
    >>
----


=============================================================================

---- CONFIG CouplingPar_TTrace_1790505771 ----

INVARIANT
    _inv

CHECK_DEADLOCK
    \* CHECK_DEADLOCK off because of PROPERTY or INVARIANT above.
    FALSE

INIT
    _init

NEXT
    _next

CONSTANT
    _TETrace <- _trace

ALIAS
    _expression
=============================================================================
\* Generated on Sun Sep 27 10:42:55 UTC 2026