SPECIFICATION Spec
CONSTANTS
  Coords <- MCCoords
  Pads = {1, 2}
  LMins = {1, 2}
  NFaces = 2
  Regimes <- AllRegimes
  StopRule = "clamp"
INVARIANTS Complete RangeImpliesBox NoOOB
CHECK_DEADLOCK FALSE
