------------------------------ MODULE CouplingPar ------------------------------
(* The same protocol at the grain of the code's parallel loop (resolve_all_contacts: `#pragma omp parallel for` over the cells):
   one thread per cell presents the nodes of ITS cell; a presentation is no longer one step but three -- the decision (reads of
   the partner / distance of the three corners and of the node), the write of the node's end and the write of the corner's end;
   each write is atomic (set_coupled_node_and_min_distance holds the node's lock), the triple is not.  TLC explores every
   interleaving of the two threads and every order of each thread's presentations.

   What survives the finer grain: DistMatches, OtherCell, WithinCut, Uncoupled (each end is written as a pair under its lock).
   What does not (TLC counterexamples, the expected result of CouplingParBroken.cfg): StaleOnlyIfStolen and MutualNearestCoupled
   -- a thread that decided on a stale reading overwrites a closer partner written meanwhile by the other thread (placement 3:
   thread 2 decides <<5, base A>> -> corner 3 at 24 while nothing is coupled; thread 1 couples 3 <-> 7 at 8; thread 2's second
   write then sets 3 -> 5 at 24, and the mutually nearest pair 3 / 7 ends non-mutual).  With interacting cells the set of
   couplings therefore depends on the schedule.  Property C15 is stated for tissues whose cells do not interact and does not
   forbid this; it is recorded as a design observation (DESIGN.md section 3).                                                *)
EXTENDS CouplingRule
VARIABLES geo, st, done, pc, pend
vars == <<geo, st, done, pc, pend>>
Threads == {1, 2}
Mine(t) == {c \in Calls : CellOf(c[1]) = t}
Idle == [n |-> 0, m |-> 0, e |-> 0]
Init == geo \in Geos /\ st = Fresh /\ done = {} /\ pc = [t \in Threads |-> "decide"] /\ pend = [t \in Threads |-> Idle]
\* the decision of Resolve, without its effect
Decide(t, c) ==
    /\ pc[t] = "decide" /\ c \in Mine(t) \ done
    /\ done' = done \cup {c}
    /\ LET n == c[1]
           f == Faces[c[2]]
           e == <<Eff(geo, st, n, f[1]), Eff(geo, st, n, f[2]), Eff(geo, st, n, f[3])>>
           i == Pick(e[1], e[2], e[3])
       IN IF e[i] < Cut2(geo) /\ e[i] < st.dist[n]
          THEN pc' = [pc EXCEPT ![t] = "w1"] /\ pend' = [pend EXCEPT ![t] = [n |-> n, m |-> f[i], e |-> e[i]]]
          ELSE UNCHANGED <<pc, pend>>
    /\ UNCHANGED <<geo, st>>
Write1(t) == /\ pc[t] = "w1"
             /\ st' = [partner |-> [st.partner EXCEPT ![pend[t].n] = pend[t].m], dist |-> [st.dist EXCEPT ![pend[t].n] = pend[t].e]]
             /\ pc' = [pc EXCEPT ![t] = "w2"] /\ UNCHANGED <<geo, done, pend>>
Write2(t) == /\ pc[t] = "w2"
             /\ st' = [partner |-> [st.partner EXCEPT ![pend[t].m] = pend[t].n], dist |-> [st.dist EXCEPT ![pend[t].m] = pend[t].e]]
             /\ pc' = [pc EXCEPT ![t] = "decide"] /\ pend' = [pend EXCEPT ![t] = Idle] /\ UNCHANGED <<geo, done>>
Next == \E t \in Threads : Write1(t) \/ Write2(t) \/ \E c \in Calls : Decide(t, c)
Spec == Init /\ [][Next]_vars

Coupled(s, n) == s.partner[n] # None
DistMatches == \A n \in Nodes : Coupled(st, n) => st.dist[n] = D(geo, n, st.partner[n])
OtherCell == \A n \in Nodes : Coupled(st, n) => CellOf(st.partner[n]) # CellOf(n)
WithinCut == \A n \in Nodes : Coupled(st, n) => st.dist[n] < Cut2(geo)
Uncoupled == \A n \in Nodes : ~Coupled(st, n) => st.dist[n] = Inf
Quiet == \A t \in Threads : pc[t] = "decide"
StaleOnlyIfStolen == Quiet => \A n \in Nodes : (Coupled(st, n) /\ st.partner[st.partner[n]] # n) =>
                        (Coupled(st, st.partner[n]) /\ st.dist[st.partner[n]] <= st.dist[n])
Presented(a, b) == \E c \in Calls : (c[1] = a /\ \E i \in 1..3 : Faces[c[2]][i] = b) \/ (c[1] = b /\ \E i \in 1..3 : Faces[c[2]][i] = a)
StrictNearest(a, b) == \A m \in Nodes : (CellOf(m) = CellOf(b) /\ m # b) => D(geo, a, b) < D(geo, a, m)
MutualNearestCoupled == (Quiet /\ done = Calls) =>
    \A a \in 1..4, b \in 5..8 : (D(geo, a, b) < Cut2(geo) /\ StrictNearest(a, b) /\ StrictNearest(b, a) /\ Presented(a, b)) =>
        (st.partner[a] = b /\ st.partner[b] = a)
=============================================================================
