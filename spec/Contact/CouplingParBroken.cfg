SPECIFICATION Spec
INVARIANTS StaleOnlyIfStolen MutualNearestCoupled
CHECK_DEADLOCK FALSE
