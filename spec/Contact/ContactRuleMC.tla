----------------------------- MODULE ContactRuleMC -----------------------------
EXTENDS ContactRule
CONSTANTS PtLo, PtHi, Cut2s
VARIABLES p, a, b, c, t1, t2, same, cut2, out
vars == <<p, a, b, c, t1, t2, same, cut2, out>>
Cube(l, h) == (l..h) \X (l..h) \X (l..h)
\* a few triangles of different shapes / orientations, the node anywhere in the box, every pair of cell types
Tris == { << <<0,0,0>>, <<2,0,0>>, <<0,2,0>> >>, << <<0,0,0>>, <<0,2,0>>, <<2,0,0>> >>, << <<1,0,0>>, <<0,1,0>>, <<0,0,1>> >>, << <<0,0,0>>, <<2,1,0>>, <<0,1,2>> >> }
Init == /\ \E tr \in Tris : a = tr[1] /\ b = tr[2] /\ c = tr[3]
        /\ p \in Cube(PtLo, PtHi) /\ t1 \in 0..4 /\ t2 \in 0..4 /\ same \in BOOLEAN /\ cut2 \in Cut2s
        /\ (same => t1 = t2)
        /\ ~(t1 = 0 /\ t2 = 0)                       \* two epithelial cells may end in a coupling (order dependent): C08 / C03
        /\ out = [r |-> Closest(p, a, b, c), dec |-> Decision(t1, t2, same, Closest(p, a, b, c), p, a, b, c, cut2)]
Next == UNCHANGED vars
Spec == Init /\ [][Next]_vars
R == out.r
Inv_Reciprocal == Reciprocal(R, p, a, b, c)
Inv_NoForceOutOfRangeOrSameCell == (same \/ ~InRange(R, cut2)) => out.dec = "none"
Inv_PushesBack == out.dec = "repulsion" => PushesBack(R, p, a, b, c)
\* an overlapping pair (node on the forbidden side, within the cut-off, different cells) is always pushed apart
Inv_OverlapResolved == (~same /\ InRange(R, cut2) /\ Forbidden(t1, t2, R, p, a, b, c)) => out.dec = "repulsion"
MinusTwo == -2
=============================================================================
