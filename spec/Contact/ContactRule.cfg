SPECIFICATION Spec
CONSTANTS
  InteriorRule = "sum"
  PtLo <- MinusTwo
  PtHi = 3
  Cut2s = {1, 4}
INVARIANTS Inv_Reciprocal Inv_NoForceOutOfRangeOrSameCell Inv_PushesBack Inv_OverlapResolved
CHECK_DEADLOCK FALSE
