SPECIFICATION Spec
INVARIANTS DistMatches OtherCell WithinCut Uncoupled
CHECK_DEADLOCK FALSE
