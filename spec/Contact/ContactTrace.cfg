SPECIFICATION TSpec
CONSTANTS
  InteriorRule = "sum"
INVARIANTS P_Setup P_Reciprocal P_ShortRanged P_Repulsion P_AllowedSide
CHECK_DEADLOCK FALSE
