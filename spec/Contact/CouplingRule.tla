------------------------------- MODULE CouplingRule -------------------------------
(* The coupling protocol of the node-node coupling contact model (contact_node_node_via_coupling::run / resolve_contact):
   at the start of a contact phase every node forgets its partner; the broad phase then presents (node, opposing triangle)
   pairs one after the other, and each presentation may couple the node to ONE corner of the triangle:

     - a corner that is already coupled to somebody strictly closer than the presented node is not a candidate;
     - the candidate corner is chosen by the code's three-way comparison (first corner if strictly smaller than both others, else
       second if strictly smaller than both others, else the THIRD -- also on ties and when nothing is a candidate);
     - the coupling is made when the chosen distance is below the squared adhesion cut-off and strictly below the distance of the
       node's present partner; it overwrites both ends (the partners they had keep a stale, non-mutual reference).

   One presentation is one action (the single-threaded schedule of the code; every ORDER of the presentations is explored, which
   is what the order of the voxel lists amounts to).  Geometry: two tetrahedra whose base triangles face each other on the integer
   lattice, five relative placements (aligned, shifted, ties, tight cut-off, triple tie).  Nodes 1..4 = cell 1 (4 = apex),
   5..8 = cell 2 (8 = apex).  Couplings with the gates on normals / curvature closed are a no-op of the same action and are not
   modelled (the conformance driver opens them).                                                                            *)
EXTENDS Integers, Sequences, FiniteSets
None == 0
Inf == 1000000
Geos == 1..5
Nodes == 1..8
CellOf(n) == IF n <= 4 THEN 1 ELSE 2
Shift(g) == CASE g = 1 -> <<0, 0, 2>> [] g = 2 -> <<1, 0, 2>> [] g = 3 -> <<2, 0, 2>> [] g = 4 -> <<1, 0, 2>> [] OTHER -> <<2, 2, 1>>
APos == << <<0, 0, 0>>, <<4, 0, 0>>, <<0, 4, 0>>, <<1, 1, -40>> >>
BPos(g) == LET s == Shift(g) IN << s, <<4 + s[1], s[2], s[3]>>, <<s[1], 4 + s[2], s[3]>>, <<1 + s[1], 1 + s[2], s[3] + 40>> >>
Pos(g, n) == IF n <= 4 THEN APos[n] ELSE BPos(g)[n - 4]
Cut2(g) == CASE g = 1 -> 25 [] g = 2 -> 25 [] g = 3 -> 30 [] g = 4 -> 6 [] OTHER -> 12
Sq(x) == x * x
D(g, n, m) == LET p == Pos(g, n) q == Pos(g, m) IN Sq(p[1] - q[1]) + Sq(p[2] - q[2]) + Sq(p[3] - q[3])
\* the triangles that are presented, outward wound: base of cell 1, base of cell 2, one flank of cell 1 (corners 1, apex, 2)
Faces == << <<1, 2, 3>>, <<5, 7, 6>>, <<1, 4, 2>> >>
\* presentations <<node, face>>: every base node against the opposite base, and node 5 against the flank of cell 1
Calls == {<<n, 2>> : n \in 1..3} \cup {<<n, 1>> : n \in 5..7} \cup {<<5, 3>>}

\* the state of a phase: partner and stored squared distance of every node
Fresh == [partner |-> [n \in Nodes |-> None], dist |-> [n \in Nodes |-> Inf]]
Eff(g, s, n, m) == IF s.partner[m] # None /\ s.dist[m] < D(g, n, m) THEN Inf ELSE D(g, n, m)
Pick(e1, e2, e3) == IF e1 < e2 /\ e1 < e3 THEN 1 ELSE IF e2 < e1 /\ e2 < e3 THEN 2 ELSE 3
Resolve(g, s, c) ==
    LET n == c[1]
        f == Faces[c[2]]
        e == <<Eff(g, s, n, f[1]), Eff(g, s, n, f[2]), Eff(g, s, n, f[3])>>
        i == Pick(e[1], e[2], e[3])
        m == f[i]
    IN IF e[i] < Cut2(g) /\ e[i] < s.dist[n]
       THEN [partner |-> [s.partner EXCEPT ![n] = m, ![m] = n], dist |-> [s.dist EXCEPT ![n] = e[i], ![m] = e[i]]]
       ELSE s
RECURSIVE Replay(_, _, _)
Replay(g, s, h) == IF h = <<>> THEN s ELSE Replay(g, Resolve(g, s, Head(h)), Tail(h))

=============================================================================
