----------------------------- MODULE CouplingTrace -----------------------------
(* Conformance of the real narrow phase of contact_node_node_via_coupling with spec/Contact/CouplingRule: every state of the
   model-checked protocol (a placement and a sequence of presentations) is replayed, presentation by presentation, through
   resolve_contact of the real model on two real epithelial cells (harness/drivers/contact_driver.cpp, mode coupling); the partner
   and the stored squared distance of all eight nodes after the sequence are logged (node numbering of the specification, squared
   distances in lattice units, Inf for the numeric maximum) and must be exactly what the specification computes. *)
EXTENDS CouplingRule, Json, IOUtils, TLC
Log == ndJsonDeserialize(IOEnv.OBS)
VARIABLE k
R == Log[k]
TInit == k \in 1..Len(Log)
TSpec == TInit /\ [][UNCHANGED k]_k
H == [i \in 1..Len(R.hist) |-> <<R.hist[i][1], R.hist[i][2]>>]
S == Replay(R.geo, Fresh, H)
\* the cells were built as the specification lays them out (windings kept, positions exact, gates open)
P_Setup == R.setup_ok /\ R.exact
P_Partner == \A n \in Nodes : R.partner[n] = S.partner[n]
P_Dist == \A n \in Nodes : R.dist[n] = S.dist[n]
\* C07, directly on the observation: no coupling within a cell or beyond the adhesion cut-off
P_Range == \A n \in Nodes : R.partner[n] # None => (CellOf(R.partner[n]) # CellOf(n) /\ R.dist[n] < Cut2(R.geo))
=============================================================================
