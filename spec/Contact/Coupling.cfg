SPECIFICATION Spec
CONSTANTS
  MaxLen = 7
CONSTRAINT Bounded
INVARIANTS DistMatches OtherCell WithinCut Uncoupled StaleOnlyIfStolen MutualNearestCoupled HistExplains
PROPERTY DistMonotone
CHECK_DEADLOCK FALSE
