-------------------------- MODULE CouplingPhaseTrace --------------------------
(* spec/Contact/Coupling starts every contact phase from Fresh (nobody has a partner, every stored distance is Inf).  Two whole
   contact phases of the real node-node coupling model (contact_driver, mode phases) on the same two epithelial cells: the first
   couples nodes; then one cell shrinks (node curvature above / below the coupling threshold) and moves far beyond every cut-off;
   after the second phase nobody may be coupled, moved or loaded (C07: no coupling or force between elements farther apart than
   the cut-offs -- whatever the history). *)
EXTENDS Naturals, Sequences, Json, IOUtils, TLC
Log == ndJsonDeserialize(IOEnv.OBS)
VARIABLE k
R == Log[k]
TInit == k \in 1..Len(Log)
TSpec == TInit /\ [][UNCHANGED k]_k
P_FirstPhaseCouples == R.first_coupled > 0
P_PhaseStartsFresh == R.second_coupled = 0 /\ ~R.moved /\ R.force_free
=============================================================================
