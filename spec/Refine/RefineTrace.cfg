SPECIFICATION TSpec
CONSTANTS
  SwapRefreshesNormals = TRUE
  MergeKeepsFourNodes = TRUE
  PopRule = "cantor"
  FOrder = "both"
  MaxNodes = 100000
INVARIANTS Report T_TodoCoherent T_MeshGood T_Complete
CHECK_DEADLOCK FALSE
