----------------------------- MODULE RefineTrace -----------------------------
(***************************************************************************)
(* Whole passes of the real local_mesh_refiner::refine_mesh (swaps off) on *)
(* lattice cells, validated against RefinePass.  A record is one pass: the *)
(* cell it started from (the projection of the real cell -- fresh, or as   *)
(* earlier passes, displacements and compactions left it -- with integer   *)
(* positions and the band), the                                            *)
(* operations the hooks of refine_mesh reported, in order, with the edge   *)
(* (a, b, f1, f2) each of them was given, how the pass ended, and the      *)
(* projection of the cell afterwards.                                      *)
(*                                                                         *)
(* The work set is NOT logged: the specification carries it, and a logged  *)
(* operation is accepted only if its edge is the first entry of the        *)
(* specification's work set (Cantor order) that is out of band, with the   *)
(* face ids the specification's copy holds.  Edges inside the band are     *)
(* taken silently (the code says nothing about them).                      *)
(*   ACC  the pass is a behaviour of RefinePass, ends as RefinePass ends,  *)
(*        and leaves the mesh (slot for slot) and the positions RefinePass *)
(*        predicts                                                         *)
(***************************************************************************)
EXTENDS RefinePass, Json, IOUtils

Log == ndJsonDeserialize(IOEnv.OBS)
VARIABLES k, l
R == Log[k]
tvars == <<vars, k, l>>

ToSet(q) == {q[i] : i \in 1..Len(q)}
FromJson(j) == [ nslots |-> j.nslots, fslots |-> j.fslots, used |-> ToSet(j.used),
                 tri   |-> [f \in 0..(j.fslots - 1) |-> j.tri[f + 1]],
                 ftype |-> [f \in 0..(j.fslots - 1) |-> j.ftype[f + 1]],
                 nrm   |-> [f \in 0..(j.fslots - 1) |-> j.nrm[f + 1]],
                 freeN |-> j.freeN, freeF |-> j.freeF ]

TInit == /\ k \in 1..Len(Log)
         /\ m = Refresh(FromJson(Log[k].pre))      \* the normals are refreshed before every pass (a triangle of zero area has no side)
         /\ pos = [i \in 0..(Log[k].pre.nslots - 1) |-> Log[k].prepos[i + 1]]
         /\ band = Log[k].band
         /\ todo = {} /\ it = 0 /\ blk = {} /\ pc = "start" /\ lastOp = <<"init">> /\ l = 1

First == CHOOSE t \in todo : \A u \in todo : Cantor(t.a, t.b) <= Cantor(u.a, u.b)
InBand(t) == ~Long(pos, t) /\ ~Short(pos, t)

TBegin  == Begin /\ UNCHANGED <<k, l>>
TSilent == /\ Continue /\ Coherent(m, First) /\ InBand(First)
           /\ \E f1, f2 \in First.fs : f1 < f2 /\ Pop(First, f1, f2)
           /\ UNCHANGED <<k, l>>
TEvent  == /\ Continue /\ l <= Len(R.ops)
           /\ LET e == R.ops[l] IN
                /\ ~(Coherent(m, First) /\ InBand(First))
                /\ First.a = e.a /\ First.b = e.b /\ First.fs = {e.f1, e.f2}
                /\ Pop(First, e.f1, e.f2)
                /\ lastOp'[1] \in {e.op, "cut"}      \* "cut": the midpoint is not a lattice point, the pass is not followed further
           /\ l' = l + 1 /\ UNCHANGED k
TExit   == /\ l = Len(R.ops) + 1 /\ Exit /\ UNCHANGED <<k, l>>
TNext == TBegin \/ TSilent \/ TEvent \/ TExit
TSpec == TInit /\ [][TNext]_tvars

Ended == pc \in {"done", "unstable"} /\ l = Len(R.ops) + 1
SameEnd  == pc = R.outcome /\ it = R.it /\ NEdges(m) = R.nedges
SameMesh == m = Refresh(FromJson(R.post))
SamePos  == \A n \in m.used : pos[n] = R.postpos[n + 1]
\* reports (always TRUE): which passes were followed to their end, and how far the others got
Report == /\ (lastOp[1] \in {"split", "merge", "merge_blocked"} => PrintT(<<"AT", k, l>>))
          /\ (Ended => PrintT(<<"END", k, SameEnd, SameMesh, SamePos, pc>>))
          /\ (pc \in {"cut", "corrupt"} => PrintT(<<"STOP", k, pc, l>>))
\* design assurances evaluated along the real passes as well
T_TodoCoherent == TodoCoherent
T_MeshGood     == MeshGood
T_Complete     == Complete
=============================================================================
