SPECIFICATION FairSpec
CONSTANTS
  SwapRefreshesNormals = TRUE
  MergeKeepsFourNodes = TRUE
  PopRule = "cantor"
  FOrder = "lo"
  MaxNodes = 64
VIEW View
INVARIANTS SeedsOutward TodoCoherent NeverCorrupt MeshGood Complete PositionsTotal CounterBound Report
PROPERTY Terminates
CHECK_DEADLOCK FALSE
