---------------------------- MODULE RefinePassMC ----------------------------
(* Every pass, in every order in which the work set may be emptied (PopRule = "any") or in the order of the code             *)
(* (PopRule = "cantor"), from the lattice cells of the case file: {"nn", "tris", "pos", "band"} per line.                    *)
EXTENDS RefinePass, Json, IOUtils

Cases == ndJsonDeserialize(IOEnv.CASES)
VARIABLE k
mvars == <<vars, k>>

Det3(u, v, w) == u[1] * (v[2] * w[3] - v[3] * w[2]) - u[2] * (v[1] * w[3] - v[3] * w[1]) + u[3] * (v[1] * w[2] - v[2] * w[1])
RECURSIVE SumVol(_, _, _)
SumVol(mm, p, F) == IF F = {} THEN 0 ELSE LET f == CHOOSE x \in F : TRUE  t == mm.tri[f]
                                          IN Det3(p[t[1]], p[t[2]], p[t[3]]) + SumVol(mm, p, F \ {f})
Vol6(mm, p) == SumVol(mm, p, Live(mm))

Init == /\ k \in 1..Len(Cases)
        /\ m = Mk(Cases[k].nn, Cases[k].tris)
        /\ pos = [i \in 0..(Cases[k].nn - 1) |-> Cases[k].pos[i + 1]]
        /\ band = Cases[k].band
        /\ todo = {} /\ it = 0 /\ blk = {} /\ pc = "start" /\ lastOp = <<"init">>
MNext == Next /\ UNCHANGED k
Spec == Init /\ [][MNext]_mvars
FairSpec == Spec /\ WF_mvars(MNext)
View == <<m, pos, todo, it, blk, band, pc, k>>

SeedsOutward == pc = "start" => (Good(m) /\ Vol6(m, pos) > 0)
Terminates == <>Terminated
\* the counter never passes the number of edges by more than the one step that ends the loop
CounterBound == it <= NEdges(m) + 3
\* reports (always TRUE): how every behaviour ends
Report == Terminated => PrintT(<<"FIN", k, pc, it, NEdges(m), Cardinality(todo)>>)
=============================================================================
