SPECIFICATION FairSpec
CONSTANTS
  SwapRefreshesNormals = TRUE
  MergeKeepsFourNodes = TRUE
  PopRule = "any"
  FOrder = "lo"
  MaxNodes = 9
VIEW View
INVARIANTS SeedsOutward TodoCoherent NeverCorrupt MeshGood Complete PositionsTotal CounterBound Report
PROPERTY Terminates
CHECK_DEADLOCK FALSE
