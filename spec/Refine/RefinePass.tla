----------------------------- MODULE RefinePass -----------------------------
(***************************************************************************)
(* One whole pass of local_mesh_refiner::refine_mesh over one cell: the    *)
(* work set (edge_to_check_set), the loop and its bound, on top of the     *)
(* operations of module Mesh.  Geometry is exact: node positions are       *)
(* integer triples (the "lattice world"), lengths are compared squared,    *)
(* and a midpoint exists only if it is a lattice point (otherwise the      *)
(* exploration is cut: pc = "cut").                                        *)
(*                                                                         *)
(*   pc = "start" : update_centroid, optional swaps (remove_elongated_     *)
(*                  triangles), then Begin copies the edge index           *)
(*   pc = "loop"  : Pop takes one entry of the work set and splits /       *)
(*                  merges / leaves the edge                               *)
(*   pc = "done" / "unstable" : the loop has ended (the latter: the        *)
(*                  mesh_integrity_exception "refinement ... failed")      *)
(*   pc = "corrupt" : the pass used a stale entry (face ids that are not   *)
(*                  the two faces of the edge) - unreachable if the        *)
(*                  bookkeeping of the work set is right                   *)
(*                                                                         *)
(* The work set is a std::set<edge> ordered by the Cantor pairing of the   *)
(* two node ids, two edges being the same element iff they join the same   *)
(* nodes; an entry carries a COPY of the two face ids, which the pass has  *)
(* to keep in step with the mesh by hand (replace_face after a split,      *)
(* erase / insert after a merge).  PopRule = "cantor" is the code;         *)
(* "any" explores every order (what an unordered container would do, and   *)
(* what the commented-out typedef in cell.hpp used to be).                 *)
(***************************************************************************)
EXTENDS Mesh

CONSTANTS PopRule,      \* "cantor" | "any"
          FOrder,       \* "both": either face of the edge may be the one the edge object calls f1; "lo": f1 < f2 only
          MaxNodes      \* exploration bound: a split that would exceed it cuts the behaviour (pc = "cut")

VARIABLES m,       \* the mesh (record of module Mesh)
          pos,     \* node slot -> <<x, y, z>>
          todo,    \* the work set: records [a, b, fs] with a < b, fs = the copy of the two face ids (a set)
          it,      \* the loop's operation counter
          blk,     \* history: the edges {a, b} whose collapse was refused in this pass and whose end nodes still exist
          band,    \* <<2 * l_min squared, 2 * l_max squared>>, constant during a pass (odd numbers: an integer squared
                   \* length is never exactly on a threshold, so that the real comparison in doubles cannot tie)
          pc, lastOp
vars == <<m, pos, todo, it, blk, band, pc, lastOp>>

Cantor(a, b) == ((a + b) * (a + b + 1)) \div 2 + b
Sq(x) == x * x
Lsq(p, a, b) == Sq(p[a][1] - p[b][1]) + Sq(p[a][2] - p[b][2]) + Sq(p[a][3] - p[b][3])
Even(x) == x % 2 = 0
HasMid(p, a, b) == \A k \in 1..3 : Even(p[a][k] + p[b][k])
Mid(p, a, b) == [k \in 1..3 |-> (p[a][k] + p[b][k]) \div 2]

Lo(x, y) == IF x < y THEN x ELSE y
Hi(x, y) == IF x < y THEN y ELSE x
Entry(mm, x, y) == [a |-> Lo(x, y), b |-> Hi(x, y), fs |-> FacesOn(mm, x, y)]
AllEntries(mm)  == {Entry(mm, x, y) : <<x, y>> \in {<<x, y>> \in mm.used \X mm.used : x < y /\ {x, y} \in UEdges(mm)}}
NEdges(mm) == Cardinality(UEdges(mm))
Joins(t, x, y) == t.a = Lo(x, y) /\ t.b = Hi(x, y)
Incident(t, x) == t.a = x \/ t.b = x
\* std::set::insert: nothing happens if an element joining the same two nodes is there already
Insert(S, t) == IF \E u \in S : u.a = t.a /\ u.b = t.b THEN S ELSE S \cup {t}
RECURSIVE InsertAll(_, _)
InsertAll(S, T) == IF T = {} THEN S ELSE LET t == CHOOSE x \in T : TRUE IN InsertAll(Insert(S, t), T \ {t})

Coherent(mm, t) == t.a < t.b /\ Cardinality(t.fs) = 2 /\ FacesOn(mm, t.a, t.b) = t.fs
Long(p, t)  == 2 * Lsq(p, t.a, t.b) > band[2]
Short(p, t) == 2 * Lsq(p, t.a, t.b) < band[1]

---------------------------------------------------------------------------
Begin == /\ pc = "start"
         /\ todo' = AllEntries(m) /\ it' = 0 /\ blk' = {} /\ pc' = "loop" /\ lastOp' = <<"begin">>
         /\ UNCHANGED <<m, pos, band>>

Continue == pc = "loop" /\ todo # {} /\ it < NEdges(m)
MayPop(t) == t \in todo /\ (PopRule = "cantor" => \A u \in todo : Cantor(t.a, t.b) <= Cantor(u.a, u.b))

\* the work set after split_edge(e_ab): four insertions, four replace_face
AfterSplit(m2, rest, a, b, c, d, e, f1, f2) ==
    LET FaceWith(S) == CHOOSE f \in Live(m2) : NodesOf(m2.tri[f]) = S
        f3 == FaceWith({c, a, e})  f5 == FaceWith({c, e, b})
        f4 == FaceWith({d, a, e})  f6 == FaceWith({d, e, b})
        Repl(t) == IF Joins(t, a, c) THEN [t EXCEPT !.fs = (@ \ {f1}) \cup {f3}]
                   ELSE IF Joins(t, b, c) THEN [t EXCEPT !.fs = (@ \ {f1}) \cup {f5}]
                   ELSE IF Joins(t, a, d) THEN [t EXCEPT !.fs = (@ \ {f2}) \cup {f4}]
                   ELSE IF Joins(t, b, d) THEN [t EXCEPT !.fs = (@ \ {f2}) \cup {f6}]
                   ELSE t
        ins == InsertAll(rest, {Entry(m2, e, x) : x \in {a, b, c, d}})     \* the insertion comes first in the code
    IN {Repl(t) : t \in ins}

\* the work set after merge_edge(e_ab): erase what replace_node deleted, insert what it created (filtered)
AfterMerge(m2, rest, a, b, i) ==
    LET kept == {t \in rest : ~Incident(t, a) /\ ~Incident(t, b)}
    IN InsertAll(kept, {Entry(m2, i, x) : x \in Nbrs(m2, i)})

Pop(t, f1, f2) ==
    /\ Continue /\ MayPop(t) /\ t.fs = {f1, f2} /\ f1 # f2 /\ (FOrder = "lo" => f1 < f2) /\ UNCHANGED band
    /\ LET a == t.a  b == t.b  rest == todo \ {t} IN
       IF ~Coherent(m, t)
       THEN /\ pc' = "corrupt" /\ lastOp' = <<"stale", a, b, f1, f2>> /\ UNCHANGED <<m, pos, todo, it, blk>>
       ELSE IF Long(pos, t)
       THEN IF ~HasMid(pos, a, b) \/ Cardinality(m.used) >= MaxNodes
            THEN /\ pc' = "cut" /\ lastOp' = <<"cut", a, b>> /\ UNCHANGED <<m, pos, todo, it, blk>>
            ELSE LET e == AddNode(m).id
                     c == Opp(m.tri[f1], a, b)  d == Opp(m.tri[f2], a, b)
                     m2 == Split(m, a, b, f1, f2)
                 IN /\ m' = m2 /\ pos' = Ext(pos, e, Mid(pos, a, b))
                    /\ todo' = AfterSplit(m2, rest, a, b, c, d, e, f1, f2)
                    /\ it' = it + 1 /\ pc' = pc /\ lastOp' = <<"split", a, b, f1, f2>> /\ UNCHANGED blk
       ELSE IF Short(pos, t)
       THEN IF ~CanMerge(m, a, b)
            THEN /\ todo' = rest /\ blk' = blk \cup {{a, b}} /\ lastOp' = <<"merge_blocked", a, b, f1, f2>> /\ UNCHANGED <<m, pos, it, pc>>
            ELSE IF ~HasMid(pos, a, b)
            THEN /\ pc' = "cut" /\ lastOp' = <<"cut", a, b>> /\ UNCHANGED <<m, pos, todo, it, blk>>
            ELSE LET i  == AddNode(m).id
                     m2 == Merge(m, a, b, f1, f2)
                 IN /\ m' = m2 /\ pos' = Ext(pos, i, Mid(pos, a, b))
                    /\ todo' = AfterMerge(m2, rest, a, b, i)
                    /\ blk' = {e \in blk : a \notin e /\ b \notin e}
                    /\ it' = it + 1 /\ pc' = pc /\ lastOp' = <<"merge", a, b, f1, f2>>
       ELSE /\ todo' = rest /\ lastOp' = <<"ok", a, b>> /\ UNCHANGED <<m, pos, it, blk, pc>>

Exit == /\ pc = "loop" /\ ~(todo # {} /\ it < NEdges(m))
        /\ pc' = IF it = NEdges(m) THEN "unstable" ELSE "done"
        /\ lastOp' = <<"exit">> /\ UNCHANGED <<m, pos, todo, it, blk, band>>

Next == Begin \/ Exit \/ \E t \in todo : \E f1, f2 \in t.fs : Pop(t, f1, f2)

---------------------------------------------------------------------------
(* What the discipline of the work set is there for *)
\* every entry is a current edge of the mesh with its current two faces (else split_edge / merge_edge work on faces
\* that are free slots or belong to another edge)
TodoCoherent == pc = "loop" => \A t \in todo : Coherent(m, t)
NeverCorrupt == pc # "corrupt"
\* the surface stays what C01 demands at every step of the pass
MeshGood == Good(m)
\* completeness: when the pass ends with an empty work set, no edge of the mesh is outside the band, except the short
\* edges whose collapse the link condition forbids or forbade when the pass looked at them (a refused edge is not looked at
\* again in the same pass, even if a later collapse next to it lifts the obstacle)
InBandOrBlocked(mm, p) == \A t \in AllEntries(mm) : ~Long(p, t) /\ (Short(p, t) => (~CanMerge(mm, t.a, t.b) \/ {t.a, t.b} \in blk))
Complete == (pc = "done" /\ todo = {}) => InBandOrBlocked(m, pos)
\* the two ways the bound can end the loop
BoundHit == pc \in {"done", "unstable"} /\ todo # {}
\* the exception is raised although nothing is left to do (it = number of edges by coincidence)
SpuriousFailure == pc = "unstable" /\ todo = {}
\* the pass returns normally although edges are left unexamined (the counter overtook the number of edges in one step)
SilentlyIncomplete == pc = "done" /\ todo # {}
\* nodes that survive are not moved; new nodes are midpoints (by construction); positions exist for every used node
PositionsTotal == m.used \subseteq DOMAIN pos
Terminated == pc \in {"done", "unstable", "cut", "corrupt"}
=============================================================================
