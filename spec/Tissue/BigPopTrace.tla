----------------------------- MODULE BigPopTrace -----------------------------
(* C08 (coupling references designate live objects of the intended cell) on a population of 65538 cells whose only contact is between
   the last two: list positions beyond 16 bits.  The driver (contact_driver bigpop) runs the real contact phase and examines every
   stored coupling; this module requires its verdicts. *)
EXTENDS Integers, Sequences, Json, IOUtils
Obs == ndJsonDeserialize(IOEnv.OBS)
VARIABLE k
R == Obs[k]
TInit == k \in 1..Len(Obs)
TSpec == TInit /\ [][UNCHANGED k]_k
P_BigCouplingValid == R.bad = 0
P_BigNotVacuous    == R.skipped \/ (R.ncells > 65536 /\ R.ncoupl > 0)
=============================================================================
