SPECIFICATION Spec
CONSTANTS
  P = 1
  Q = 1
  TEnd = 4
  MaxVol = 6
  MaxCells = 5
  MaxIter = 5
  InitCells <- Pops
  RenumberAfterRemoval = TRUE
  FileRule = "sequential"
VIEW View
INVARIANTS Gone RemovedAtEnd TvolClamped IdsUnique
PROPERTIES OnlyReadyDivide DivisionReplaces
CHECK_DEADLOCK FALSE
