SPECIFICATION TSpec
CONSTANTS
  P = 1
  Q = 1
  TEnd = 1
  MaxVol = 2
  MaxCells = 100
  MaxIter = 100000
  InitCells = {}
  RenumberAfterRemoval = TRUE
  FileRule = "sequential"
INVARIANTS ReportAll I_C04_EligibleIffReached I_C04_BelowIffUnder I_C19_StopsWhenTReached I_D_UpperThresholdIsThreeLmin I_C08_LidIsIndex I_C08_IdsUnique I_C08_IdsBelowCounter I_C08_CouplingValid I_C08_FaceOwner I_C08_FaceTypeIndex I_C08_InitialIds I_C08_IdsNeverReused I_C08_PopulationOnlyChangesByDivisionAndRemoval I_C08_IdCounter I_C04_InitialTargetVolume I_C04_ThreeSigma I_C04_Gone I_C04_TargetVolumeLaw I_C04_PressureLaw I_C04_TargetVolumeClamped I_C04_OnlyEpithelialDivide I_C04_RemovalStep I_C09_DivisionStep I_C19_TimeAdvancesByDt I_C19_IterationCount I_C19_FileCounter I_C19_ConsecutiveNumbers I_C19_FileDescribesAliveCells I_C19_RunCompletes I_C19_FilesInPairs I_C19_NoGaps I_C19_KBound I_C19_RunsUntilT I_C19_FilesParse I_C19_FileContentIsAliveCells I_C19_OneHeader I_C19_FieldsMatchHeader I_C19_StatsRows
CHECK_DEADLOCK FALSE
