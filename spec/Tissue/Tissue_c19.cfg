SPECIFICATION Spec
CONSTANTS
  P = 2
  Q = 3
  TEnd = 11
  MaxVol = 5
  MaxCells = 4
  MaxIter = 8
  InitCells <- PopsC19
  RenumberAfterRemoval = TRUE
  FileRule = "sequential"
VIEW View
INVARIANTS NoGaps KBound TimeLaw StatsRows Gone IdsUnique
CHECK_DEADLOCK FALSE
