---------------------------- MODULE Polarisation ----------------------------
(***************************************************************************)
(* The contact-based polarisation of epithelial faces                      *)
(* (epithelial_cell::update_face_types, face_is_in_contact and             *)
(* special_polarization_update for the two coupling contact models), as    *)
(* the decision it is: a function from what the contact phase left on the  *)
(* three nodes of a face to the face's type index.                         *)
(*                                                                         *)
(*   0 apical (free surface / lumen side)   1 lateral   2 basal (ECM side) *)
(*                                                                         *)
(* One iteration:  Reset (every face apical)                               *)
(*              -> Contact (the narrow phase may call face_is_in_contact:  *)
(*                          basal against ECM, apical against a lumen,     *)
(*                          lateral otherwise; nucleus faces are ignored)  *)
(*              -> Special (this module's main decision).                  *)
(* Not tied to one of the listed properties beyond C08's demand that the   *)
(* index written is one the cell type defines (finding F13): it extends    *)
(* the specification of the solver loop (Tissue) by the one phase that had *)
(* no model.                                                               *)
(***************************************************************************)
EXTENDS Integers, FiniteSets, Sequences, TLC

CONSTANTS Model,          \* 1: node-node coupling (one partner per node); 2: face-face coupling (a partner per neighbouring cell)
          PartnerCells,   \* identifiers (list positions) of the neighbouring cells
          PartnerNodes,   \* node identifiers on a neighbouring cell
          PartnerTris     \* the triangles of every neighbouring cell: a set of 3-element sets of PartnerNodes (the same mesh for all)

Corner == 1..3
\* the edges of a neighbouring cell: the pairs that lie in one of its triangles
PartnerEdges == {e \in SUBSET PartnerNodes : Cardinality(e) = 2 /\ \E t \in PartnerTris : e \subseteq t}

(* What the contact phase left on one node of the face:
   model 1: cpl = {} (not coupled) or {<<cell, node>>}          (exactly one partner)
   model 2: cpl = a set of <<cell, node>> with at most one node per cell
   agree  = the node normal points to the same side as the face normal *)
NodeStates == [cpl : SUBSET (PartnerCells \X PartnerNodes), agree : BOOLEAN]
OkNode(n) == /\ \A a, b \in n.cpl : a[1] = b[1] => a = b
             /\ (Model = 1 => Cardinality(n.cpl) <= 1)
             /\ (Model = 2 => n.agree)                      \* the normals play no role in model 2: not enumerated
Coupled(n) == n.cpl # {}
CellsOf(n) == {a[1] : a \in n.cpl}
NodeOn(n, c) == (CHOOSE a \in n.cpl : a[1] = c)[2]

\* ---- the decision of special_polarization_update; `prev` is the type the face has when the phase starts
Special1(f, prev) ==
    IF ~(\A i \in Corner : Coupled(f[i])) THEN prev                                  \* left as the contact phase set it
    ELSE IF ~(\E i \in Corner : f[i].agree) THEN 0
    ELSE LET c(i) == (CHOOSE a \in f[i].cpl : TRUE)[1]
             n(i) == (CHOOSE a \in f[i].cpl : TRUE)[2]
         IN IF c(1) = c(2) /\ c(1) = c(3)
            THEN IF {n(1), n(2)} \in PartnerEdges /\ {n(2), n(3)} \in PartnerEdges /\ {n(3), n(1)} \in PartnerEdges THEN 1 ELSE 0
            ELSE 1                                                                     \* a junction between several neighbours is lateral
Special2(f, prev) ==
    IF ~(\A i \in Corner : Coupled(f[i])) THEN 0
    ELSE LET common == CellsOf(f[1]) \cap CellsOf(f[2]) \cap CellsOf(f[3])
         IN IF common = {} THEN 0
            ELSE LET c == CHOOSE x \in common : \A y \in common : x <= y               \* the smallest common neighbour (sorted ids)
                 IN IF {NodeOn(f[1], c), NodeOn(f[2], c), NodeOn(f[3], c)} \in PartnerTris THEN 1 ELSE 0
Special(f, prev) == IF Model = 1 THEN Special1(f, prev) ELSE Special2(f, prev)

\* ---- face_is_in_contact: global type of the other cell (1 ECM, 2 lumen, 3 nucleus) -> local type of this face
OnContact(otherCellType, prev) == IF otherCellType = 1 THEN 2 ELSE IF otherCellType = 2 THEN 0 ELSE 1

(* ---- model checking: every face state in the (small) universe *)
VARIABLES face, prev, out
vars == <<face, prev, out>>
Init == /\ face \in [Corner -> {n \in NodeStates : OkNode(n)}]
        /\ prev \in 0..2
        /\ out = Special(face, prev)
Next == UNCHANGED vars
Spec == Init /\ [][Next]_vars

\* the index written is one of the three the documentation names ...
InRange == out \in 0..2
\* ... special_polarization_update itself only ever writes apical or lateral (basal comes from the contact phase)
WritesApicalOrLateral == out # prev => out \in {0, 1}
\* a face whose three nodes are coupled to the three corners of ONE triangle of ONE neighbour is lateral (given a node normal agrees, model 1)
FaceToFaceIsLateral ==
    \A c \in PartnerCells : \A t \in PartnerTris :
        ((\A i \in Corner : \E x \in t : <<c, x>> \in face[i].cpl) /\ {NodeOn(face[i], c) : i \in Corner} = t
          /\ (Model = 1 => \E i \in Corner : face[i].agree)
          /\ (Model = 2 => \A d \in (CellsOf(face[1]) \cap CellsOf(face[2]) \cap CellsOf(face[3])) : d >= c))
        => out = 1
\* a face with an uncoupled node is never made lateral by this phase
FreeCornerNotLateralised == (\E i \in Corner : ~Coupled(face[i])) => (out = prev \/ out = 0)
=============================================================================
