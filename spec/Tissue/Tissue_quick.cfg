SPECIFICATION Spec
CONSTANTS
  P = 1
  Q = 1
  TEnd = 4
  MaxVol = 6
  MaxCells = 5
  MaxIter = 5
  InitCells <- Pops
  RenumberAfterRemoval = TRUE
  FileRule = "sequential"
VIEW View
INVARIANTS LidIsIndex IdsUnique IdsFresh CouplingValid Gone RemovedAtEnd NoGaps KBound TimeLaw StatsRows
PROPERTIES DivisionReplaces RefinesIdAlloc
CHECK_DEADLOCK FALSE
