------------------------------ MODULE TissueMC ------------------------------
EXTENDS Tissue
C(t, v, g, d, mv) == [type |-> t, vol |-> v, growth |-> g, divvol |-> d, minvol |-> mv]
\* populations that exercise: division at the first iteration, removal, both in one history, static bystanders
Pops == { << C(0, 4, 1, 4, 1), C(0, 2, 0, Inf, 2), C(1, 3, 0, Inf, 0) >>,
          << C(0, 2, 0, Inf, 2), C(0, 3, 1, 4, 1), C(0, 3, -1, Inf, 2) >>,
          << C(0, 5, 0, 4, 1) >>,
          << C(0, 1, -1, Inf, 1), C(0, 4, 0, 4, 0) >> }
PopsC19 == { << C(0, 4, 0, 4, 1), C(0, 2, -1, Inf, 2) >>, << C(0, 1, 0, Inf, 2) >> }
\* Tissue refines IdAlloc (the identifier discipline proved for populations of any size with the proof system):
\* alive <- the ids of the cells, retired <- the ids issued so far that no living cell carries, next <- the id counter
IA == INSTANCE IdAlloc WITH Counts <- 0..64, alive <- Ids(cells), retired <- everIds \ Ids(cells), next <- nextId
RefinesIdAlloc == IA!Init /\ [][IA!Next]_(IA!vars)
View == <<cells, nextId, iter, tick, phase, fileNo, files, graveyard, coupl>>
=============================================================================
