------------------------------- MODULE IdAlloc -------------------------------
(***************************************************************************)
(* The identifier discipline of the population (C08: persistent cell ids   *)
(* are unique and never re-used; C09: daughters carry fresh ids),          *)
(* abstracted from spec/Tissue to what the argument needs: the ids alive,  *)
(* the ids ever retired, and the counter.  Unlike the bounded TLC runs on  *)
(* Tissue, this is PROVED for populations and histories of any size with   *)
(* the TLA+ proof system (tlapm: all obligations proved, ~15 s):           *)
(*   InitInv, StepInv : IndInv is an inductive invariant                   *)
(*   Fresh            : under IndInv the ids handed out by a division have *)
(*                      never been carried by anybody                      *)
(*   Safety           : Spec => []IndInv                                   *)
(* TissueMC checks with TLC that Tissue refines this module (alive <- ids  *)
(* of the cells, retired <- graveyard and divided mothers, next <- nextId),*)
(* which ties the proof to the specification the traces of the real solver *)
(* are validated against.                                                  *)
(***************************************************************************)
EXTENDS Integers, TLAPS

CONSTANT Counts            \* the numbers of cells a population can start with / of ids a division can hand out (Nat; a finite set for TLC)
ASSUME CountsNat == Counts \subseteq Nat

VARIABLES alive, retired, next
vars == <<alive, retired, next>>

Init == /\ \E n \in Counts : alive = 0..(n - 1) /\ next = n
        /\ retired = {}

\* the mothers D are replaced by k fresh ids next .. next+k-1 (k = 2|D| in cell_divider::run)
Divide == \E D \in SUBSET alive : \E k \in Counts :
            /\ alive' = (alive \ D) \cup (next..(next + k - 1))
            /\ retired' = retired \cup D
            /\ next' = next + k
Remove == \E S \in SUBSET alive :
            /\ alive' = alive \ S
            /\ retired' = retired \cup S
            /\ next' = next
Next == Divide \/ Remove
Spec == Init /\ [][Next]_vars

IndInv == /\ next \in Nat
          /\ alive \subseteq 0..(next - 1)
          /\ retired \subseteq 0..(next - 1)
          /\ alive \cap retired = {}

NeverReused == alive \cap retired = {}
FreshOnDivision == \A D \in SUBSET alive : \A k \in Counts : (next..(next + k - 1)) \cap (alive \cup retired) = {}

THEOREM InitInv == Init => IndInv
  BY CountsNat DEF Init, IndInv

THEOREM StepInv == IndInv /\ [Next]_vars => IndInv'
  <1> SUFFICES ASSUME IndInv, [Next]_vars PROVE IndInv'
    OBVIOUS
  <1>1. CASE Divide
    BY <1>1, CountsNat DEF Divide, IndInv
  <1>2. CASE Remove
    BY <1>2 DEF Remove, IndInv
  <1>3. CASE UNCHANGED vars
    BY <1>3 DEF vars, IndInv
  <1> QED BY <1>1, <1>2, <1>3 DEF Next

THEOREM Fresh == IndInv => FreshOnDivision
  BY CountsNat DEF IndInv, FreshOnDivision

THEOREM Safety == Spec => []IndInv
  BY InitInv, StepInv, PTL DEF Spec
=============================================================================
