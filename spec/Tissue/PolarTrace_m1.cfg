SPECIFICATION TSpec
CONSTANTS
  Model = 1
  PartnerCells = {1, 2}
  PartnerNodes = {0, 1, 2, 3, 4}
  PartnerTris = {{0, 1, 3}, {1, 2, 3}, {2, 0, 3}, {1, 0, 4}, {2, 1, 4}, {0, 2, 4}}
INVARIANTS D_Decision D_Local P_IndexInRange
CHECK_DEADLOCK FALSE
