---------------------------- MODULE TissueTrace ----------------------------
(***************************************************************************)
(* Trace validation of a real solver::run against Tissue.                  *)
(* The log (harness/drivers/tissue_driver.cpp, hooks H4) has one event per *)
(* phase boundary of every iteration with the projection of the real       *)
(* population.  Every event is consumed by one step that adopts the logged  *)
(* population and records in `tags` the names of the predicates of         *)
(* Tissue that the step or the new state violates; one invariant per tag.  *)
(* The abstract cell is [id, lid, type, vol, tvol, growth, divvol, minvol] *)
(* with vol = 0 / 1 / 2 for below-minimum / ordinary / ready, divvol = 2,  *)
(* minvol = 1, so that Ready and BelowMin are the logged verdicts of       *)
(* is_ready_to_divide and is_below_min_vol.                                *)
(***************************************************************************)
EXTENDS Tissue, Json, IOUtils

Log == ndJsonDeserialize(IOEnv.OBS)
VARIABLES l, tags
tvars == <<vars, l, tags>>

Abs(c) == [id |-> c.id, lid |-> c.lid, type |-> c.type,
           vol |-> IF c.below THEN 0 ELSE IF c.ready THEN 2 ELSE 1,
           tvol |-> 1, growth |-> 0, divvol |-> IF c.type = 0 THEN 2 ELSE Inf, minvol |-> 1]
AbsCells(ev) == [i \in 1..Len(ev.cells) |-> Abs(ev.cells[i])]
Proj(cs) == [i \in 1..Len(cs) |-> <<cs[i].id, cs[i].lid, cs[i].type>>]
IdSeq(cs) == [i \in 1..Len(cs) |-> cs[i].id]
E == Log[l]
Tag(cond, name) == IF cond THEN {} ELSE {name}

\* ---- predicates of the state reached by an event
StateTags(ev, cs) ==
    LET use == ev.e = "phase" /\ ev.k \in {4, 5, 6, 7}          \* lid / couplings are about to be used
    IN Tag(use => \A i \in 1..Len(cs) : cs[i].lid = i - 1, "C08_LidIsIndex")
       \cup Tag(\A i, j \in 1..Len(cs) : i # j => cs[i].id # cs[j].id, "C08_IdsUnique")
       \cup Tag(\A i \in 1..Len(cs) : cs[i].id < ev.nextId, "C08_IdsBelowCounter")
       \cup Tag((ev.e = "phase" /\ ev.k \in {5, 6, 7}) => (ev.coupl.bad_range = 0 /\ ev.coupl.bad_lid = 0 /\ ev.coupl.bad_node = 0), "C08_CouplingValid")
       \cup Tag(\A i \in 1..Len(ev.cells) : ev.cells[i].bad_owner = 0, "C08_FaceOwner")
       \cup Tag(\A i \in 1..Len(ev.cells) : ev.cells[i].bad_ftype = 0, "C08_FaceTypeIndex")
       \cup Tag(Ids(cs) \cap graveyard = {}, "C04_Gone")
       \cup Tag(\A i \in 1..Len(ev.cells) : ev.cells[i].tvol_law, "C04_TargetVolumeLaw")
       \cup Tag(\A i \in 1..Len(ev.cells) : ev.cells[i].press_law, "C04_PressureLaw")
       \cup Tag(\A i \in 1..Len(ev.cells) : ev.cells[i].tvol_ge_min, "C04_TargetVolumeClamped")
       \cup Tag(\A i \in 1..Len(ev.cells) : ev.cells[i].ready => ev.cells[i].type = 0, "C04_OnlyEpithelialDivide")
       \cup Tag(ev.time_ok, "C19_TimeAdvancesByDt")
       \* eligibility and removal are decided by the two thresholds, equality included: "has reached" is >=, "falls below" is <
       \cup Tag(\A i \in 1..Len(ev.cells) : ev.cells[i].ready <=> (ev.cells[i].type = 0 /\ ev.cells[i].reached), "C04_EligibleIffReached")
       \cup Tag(\A i \in 1..Len(ev.cells) : ev.cells[i].below <=> ev.cells[i].under, "C04_BelowIffUnder")
       \* "... until T is reached": no iteration starts (event 0) once the simulated time has reached the duration
       \cup Tag(ev.before_T, "C19_StopsWhenTReached")
       \* design drift, not a verdict (the factor three between the two thresholds is the solver's choice, no documentation states
       \* it): right after the refinement phase (event 4) no edge of a cell whose pass ended normally is longer than three minimum
       \* edge lengths (RefinePass.Complete, carried over to the real solver loop)
       \cup Tag((ev.e = "phase" /\ ev.k = 4) => \A i \in 1..Len(ev.cells) : ev.cells[i].pass_complete => ev.cells[i].edges_ok, "D_UpperThresholdIsThreeLmin")

\* an optional first record: N draws of growth rate / division volume
First == IF Log[1].e = "draws" THEN 2 ELSE 1
TInit == /\ l = First /\ Log[First].e = "init"
         /\ cells = AbsCells(Log[First]) /\ nextId = Log[First].nextId /\ iter = 0 /\ tick = 0 /\ phase = "save"
         /\ fileNo = Log[First].fileNo /\ files = {} /\ stats = <<>> /\ graveyard = {} /\ everIds = Ids(AbsCells(Log[First]))
         /\ coupl = {} /\ lastDivided = {}
         /\ tags = Tag(Log[First].nextId = Len(Log[First].cells), "C08_InitialIds")
                   \cup Tag(\A i \in 1..Len(Log[First].cells) : Log[First].cells[i].id = i - 1 /\ Log[First].cells[i].lid = i - 1, "C08_InitialIds")
                   \cup Tag(\A i \in 1..Len(Log[First].cells) : Log[First].cells[i].tvol_law, "C04_InitialTargetVolume")
                   \cup Tag(Log[1].e = "draws" => (Log[1].out_growth = 0 /\ Log[1].out_divvol = 0), "C04_ThreeSigma")

\* ---- one step per event
Consume == l < Len(Log) /\ l' = l + 1
Nxt == Log[l + 1]

PhaseStep ==
    /\ Consume /\ Nxt.e = "phase"
    /\ LET ev == Nxt
           cs == AbsCells(ev)
           same == Proj(cs) = Proj(cells)
           k == ev.k
           \* cell_divider::run (event 2, every fifth iteration): the new population is the result of dividing some of the ready cells
           divs == {D \in SUBSET {i \in 1..Len(cells) : Ready(cells[i])} : Proj(DivideResult(cells, D, nextId)) = Proj(cs)}
           divOK == IF ev.iter % 5 = 0 THEN divs # {} /\ \E D \in divs : ev.nextId = nextId + 2 * Cardinality(D)
                    ELSE same /\ ev.nextId = nextId
           newIds == Ids(cs) \ Ids(cells)
           \* removal (event 10): exactly the cells below their minimum volume disappear, order kept, positions renumbered
           remOK == Proj(cs) = Proj(RemoveResult(cells))
           gone  == Ids(cells) \ Ids(cs)
       IN /\ cells' = cs
          /\ nextId' = ev.nextId
          /\ fileNo' = ev.fileNo
          /\ iter' = IF k = 10 THEN iter + 1 ELSE iter
          /\ tick' = IF k = 8 THEN tick + 1 ELSE tick
          /\ graveyard' = IF k = 10 THEN graveyard \cup gone ELSE IF k = 2 THEN graveyard \cup gone ELSE graveyard
          /\ everIds' = everIds \cup Ids(cs)
          /\ lastDivided' = IF k = 2 THEN gone ELSE lastDivided
          /\ tags' = StateTags(ev, cs)
                \cup Tag(ev.iter = iter, "C19_IterationCount")
                \cup Tag(k = 2 => divOK, "C09_DivisionStep")
                \cup Tag(k = 2 => newIds \cap everIds = {}, "C08_IdsNeverReused")
                \cup Tag(k = 10 => remOK, "C04_RemovalStep")
                \cup Tag(k \notin {2, 10} => same, "C08_PopulationOnlyChangesByDivisionAndRemoval")
                \cup Tag(k \notin {2} => ev.nextId = nextId, "C08_IdCounter")
                \cup Tag(k = 1 => (ev.fileNo = fileNo), "C19_FileCounter")        \* the mesh_written event already moved it
                \cup Tag(k # 1 => ev.fileNo = fileNo, "C19_FileCounter")
    /\ UNCHANGED <<phase, files, stats, coupl>>

MeshWritten ==
    /\ Consume /\ Nxt.e = "mesh_written"
    /\ files' = files \cup {Nxt.n}
    /\ fileNo' = Nxt.n
    /\ tags' = Tag(Nxt.n = fileNo + 1, "C19_ConsecutiveNumbers")
            \cup Tag(Nxt.ids = IdSeq(cells), "C19_FileDescribesAliveCells")
    /\ UNCHANGED <<cells, nextId, iter, tick, phase, stats, graveyard, everIds, coupl, lastDivided>>

End ==
    /\ Consume /\ Nxt.e = "end"
    /\ LET ev == Nxt
           K == Cardinality(files)
           ToSet(q) == {q[i] : i \in 1..Len(q)}
           st == ev.stats
       IN tags' = Tag(ev.outcome = "completed", "C19_RunCompletes")
               \cup Tag(ToSet(ev.files_cell) = files /\ ToSet(ev.files_face) = files, "C19_FilesInPairs")
               \cup Tag(files = 1..K, "C19_NoGaps")
               \cup Tag((ev.ncells > 0 /\ ev.outcome = "completed") => (K - ev.ts1 \in {-1, 0, 1}), "C19_KBound")
               \cup Tag((ev.ncells > 0 /\ ev.outcome = "completed") => ev.T_reached, "C19_RunsUntilT")
               \cup Tag(\A i \in 1..Len(ev.parsed) : ev.parsed[i].ok, "C19_FilesParse")
               \* what the files themselves say (cell_id array of the cell-data file, runs of face_cell_id in the face-data file)
               \* is the population that was alive when the pair was written
               \cup Tag(\A i \in 1..Len(ev.parsed) : ev.parsed[i].ok =>
                           \A j \in 1..Len(Log) : (Log[j].e = "mesh_written" /\ Log[j].n = ev.parsed[i].n) =>
                               (ev.parsed[i].cell_ids = Log[j].ids /\ ev.parsed[i].face_ids = Log[j].ids), "C19_FileContentIsAliveCells")
               \cup Tag(st.headers = 1, "C19_OneHeader")
               \cup Tag(st.cols_found /\ \A r \in 1..Len(st.rows) : st.rows[r].nfields = st.nfields, "C19_FieldsMatchHeader")
               \cup Tag(st.nrows = st.nexpected /\ \A r \in 1..Len(st.rows) : st.rows[r].match /\ st.rows[r].iter = st.rows[r].expected_iter, "C19_StatsRows")
    /\ UNCHANGED vars

TNext == PhaseStep \/ MeshWritten \/ End
TSpec == TInit /\ [][TNext]_tvars

\* one invariant per tag, so that TLC names what failed.  TLC reports only the FIRST violated invariant of a state, so every
\* non-empty tag set is also printed in full by ReportAll (always TRUE), which is what the harness reads.
ReportAll == tags = {} \/ PrintT(<<"TAGS", l, tags>>)
NoTag(t) == t \notin tags
I_C19_FileContentIsAliveCells == NoTag("C19_FileContentIsAliveCells")
I_C19_StopsWhenTReached == NoTag("C19_StopsWhenTReached")
I_C04_EligibleIffReached == NoTag("C04_EligibleIffReached")
I_C04_BelowIffUnder == NoTag("C04_BelowIffUnder")
I_D_UpperThresholdIsThreeLmin == NoTag("D_UpperThresholdIsThreeLmin")
I_C08_LidIsIndex == NoTag("C08_LidIsIndex")
I_C08_IdsUnique == NoTag("C08_IdsUnique")
I_C08_IdsBelowCounter == NoTag("C08_IdsBelowCounter")
I_C08_CouplingValid == NoTag("C08_CouplingValid")
I_C08_FaceOwner == NoTag("C08_FaceOwner")
I_C08_FaceTypeIndex == NoTag("C08_FaceTypeIndex")
I_C08_InitialIds == NoTag("C08_InitialIds")
I_C08_IdsNeverReused == NoTag("C08_IdsNeverReused")
I_C08_PopulationOnlyChangesByDivisionAndRemoval == NoTag("C08_PopulationOnlyChangesByDivisionAndRemoval")
I_C08_IdCounter == NoTag("C08_IdCounter")
I_C04_InitialTargetVolume == NoTag("C04_InitialTargetVolume")
I_C04_ThreeSigma == NoTag("C04_ThreeSigma")
I_C04_Gone == NoTag("C04_Gone")
I_C04_TargetVolumeLaw == NoTag("C04_TargetVolumeLaw")
I_C04_PressureLaw == NoTag("C04_PressureLaw")
I_C04_TargetVolumeClamped == NoTag("C04_TargetVolumeClamped")
I_C04_OnlyEpithelialDivide == NoTag("C04_OnlyEpithelialDivide")
I_C04_RemovalStep == NoTag("C04_RemovalStep")
I_C09_DivisionStep == NoTag("C09_DivisionStep")
I_C19_TimeAdvancesByDt == NoTag("C19_TimeAdvancesByDt")
I_C19_IterationCount == NoTag("C19_IterationCount")
I_C19_FileCounter == NoTag("C19_FileCounter")
I_C19_ConsecutiveNumbers == NoTag("C19_ConsecutiveNumbers")
I_C19_FileDescribesAliveCells == NoTag("C19_FileDescribesAliveCells")
I_C19_RunCompletes == NoTag("C19_RunCompletes")
I_C19_FilesInPairs == NoTag("C19_FilesInPairs")
I_C19_NoGaps == NoTag("C19_NoGaps")
I_C19_KBound == NoTag("C19_KBound")
I_C19_RunsUntilT == NoTag("C19_RunsUntilT")
I_C19_FilesParse == NoTag("C19_FilesParse")
I_C19_OneHeader == NoTag("C19_OneHeader")
I_C19_FieldsMatchHeader == NoTag("C19_FieldsMatchHeader")
I_C19_StatsRows == NoTag("C19_StatsRows")
=============================================================================
