------------------------------- MODULE TLAPS --------------------------------

(* Backend pragmas. *)


(***************************************************************************)
(* Each of these pragmas can be cited with a BY or a USE.  The pragma that *)
(* is added to the context of an obligation most recently is the one whose *)
(* effects are triggered.                                                  *)
(***************************************************************************)

(***************************************************************************)
(* The following pragmas should be used only as a last resource.  They are *)
(* dependent upon the particular backend provers, and are unlikely to have *)
(* any effect if the set of backend provers changes.  Moreover, they are   *)
(* meaningless to a reader of the proof.                                   *)
(***************************************************************************)


(**************************************************************************)
(* Backend pragma: use the SMT solver for arithmetic.                     *)
(*                                                                        *)
(* This method exists under this name for historical reasons.             *)
(**************************************************************************)

SimpleArithmetic == TRUE (*{ by (prover:"smt3") }*)


(**************************************************************************)
(* Backend pragma: SMT solver                                             *)
(*                                                                        *)
(* This method translates the proof obligation to SMTLIB2. The supported  *)
(* fragment includes first-order logic, set theory, functions and         *)
(* records.                                                               *)
(* SMT calls the smt-solver with the default timeout of 5 seconds         *)
(* while SMTT(n) calls the smt-solver with a timeout of n seconds.        *)
(*                                                                        *)
(* SMTT also accepts a string argument of the form "rN" to bound the      *)
(* underlying Z3 solver by a deterministic `rlimit` budget instead of a    *)
(* wall-clock timeout, e.g. SMTT("r5"). N is a multiple of a fixed base    *)
(* resource count, so a small readable budget like "r5" is meaningful.     *)
(* Unlike a wall-clock timeout, an `rlimit` budget does not depend on CPU  *)
(* speed or load, so the proof's pass/fail outcome reproduces on any       *)
(* machine and every rerun (for a fixed Z3 build); how long it takes to    *)
(* consume the budget still varies by machine. This is Z3-specific.        *)
(**************************************************************************)

SMT == TRUE (*{ by (prover:"smt3") }*)
SMTT(X) == TRUE (*{ by (prover:"smt3"; timeout:@) }*)


(**************************************************************************)
(* Backend pragma: CVC4 SMT solver                                        *)
(*                                                                        *)
(* These methods translate the proof obligation to SMTLIB2 and call CVC4. *)
(**************************************************************************)

(* The CVC3* methods are here for backward compatibility. They call CVC4. *)
CVC3 == TRUE (*{ by (prover: "cvc33") }*)
CVC3T(X) == TRUE (*{ by (prover:"cvc33"; timeout:@) }*)

CVC4 == TRUE (*{ by (prover: "cvc33") }*)
CVC4T(X) == TRUE (*{ by (prover:"cvc33"; timeout:@) }*)


(**************************************************************************)
(* Backend pragma: Yices SMT solver                                       *)
(*                                                                        *)
(* This method translates the proof obligation to Yices native language.  *)
(**************************************************************************)

Yices == TRUE (*{ by (prover: "yices3") }*)
YicesT(X) == TRUE (*{ by (prover:"yices3"; timeout:@) }*)

(**************************************************************************)
(* Backend pragma: veriT SMT solver                                       *)
(*                                                                        *)
(* This method translates the proof obligation to SMTLIB2 and calls veriT.*)
(**************************************************************************)

veriT == TRUE (*{ by (prover: "verit") }*)
veriTT(X) == TRUE (*{ by (prover:"verit"; timeout:@) }*)

(**************************************************************************)
(* Backend pragma: Zipperposition solver                                  *)
(*                                                                        *)
(* This method translates the proof obligation to TPTP and                *)
(* calls Zipperposition.                                                  *)
(**************************************************************************)

Zipper == TRUE (*{ by (prover: "zipper") }*)
ZipperT(X) == TRUE (*{ by (prover:"zipper"; timeout:@) }*)

(**************************************************************************)
(* Backend pragma: Z3 SMT solver                                          *)
(*                                                                        *)
(* This method translates the proof obligation to SMTLIB2 and calls Z3.   *)
(* Z3 is used by default but you can also explicitly call it.             *)
(* Z3T(n) bounds Z3 by a wall-clock timeout of n seconds, while Z3T("rN")  *)
(* bounds it by a deterministic `rlimit` budget of N base units, which      *)
(* reproduces the same outcome on any machine (see SMTT).                   *)
(**************************************************************************)

Z3 == TRUE (*{ by (prover: "z33") }*)
Z3T(X) == TRUE (*{ by (prover:"z33"; timeout:@) }*)

(**************************************************************************)
(* Backend pragma: SPASS superposition prover                             *)
(*                                                                        *)
(* This method translates the proof obligation to the DFG format language *)
(* supported by the ATP SPASS. The translation is based on the SMT one.   *)
(**************************************************************************)

Spass == TRUE (*{ by (prover: "spass") }*)
SpassT(X) == TRUE (*{ by (prover:"spass"; timeout:@) }*)

(**************************************************************************)
(* Backend pragma: The PTL propositional linear time temporal logic       *)
(* prover.  It currently is the LS4 backend.                              *)
(*                                                                        *)
(* This method translates the negetation of the proof obligation to       *)
(* Seperated Normal Form (TRP++ format) and checks for unsatisfiability   *)
(**************************************************************************)

LS4 == TRUE (*{ by (prover: "ls4") }*)
LS4T(X) == TRUE (*{ by (prover: "ls4"; timeout:@) }*)
PTL == TRUE (*{ by (prover: "ls4") }*)

(**************************************************************************)
(* Backend pragma: Zenon with different timeouts (default is 10 seconds)  *)
(*                                                                        *)
(**************************************************************************)

Zenon == TRUE (*{ by (prover:"zenon") }*)
ZenonT(X) == TRUE (*{ by (prover:"zenon"; timeout:@) }*)

(********************************************************************)
(* Backend pragma: Isabelle with different timeouts and tactics     *)
(*  (default is 30 seconds/auto)                                    *)
(********************************************************************)

Isa == TRUE (*{ by (prover:"isabelle") }*)
IsaT(X) ==  TRUE (*{ by (prover:"isabelle"; timeout:@) }*)
IsaM(X) ==  TRUE (*{ by (prover:"isabelle"; tactic:@) }*)
IsaMT(X,Y) ==  TRUE (*{ by (prover:"isabelle"; tactic:@; timeout:@) }*)

(***************************************************************************)
(* The following theorem expresses the (useful implication of the) law of  *)
(* set extensionality, which can be written as                             *)
(*                                                                         *)
(*    THEOREM  \A S, T : (S = T) <=> (\A x : (x \in S) <=> (x \in T))      *)
(*                                                                         *)
(* Theorem SetExtensionality is sometimes required by the SMT backend for  *)
(* reasoning about sets. It is usually counterproductive to include        *)
(* theorem SetExtensionality in a BY clause for the Zenon or Isabelle      *)
(* backends. Instead, use the pragma IsaWithSetExtensionality to instruct  *)
(* the Isabelle backend to use the rule of set extensionality.             *)
(***************************************************************************)
IsaWithSetExtensionality == TRUE
           (*{ by (prover:"isabelle"; tactic:"(auto intro: setEqualI)")}*)

THEOREM SetExtensionality == \A S,T : (\A x : x \in S <=> x \in T) => S = T
OBVIOUS

(***************************************************************************)
(* The following theorem is needed to deduce NotInSetS \notin SetS from    *)
(* the definition                                                          *)
(*                                                                         *)
(*   NotInSetS == CHOOSE v : v \notin SetS                                 *)
(***************************************************************************)
THEOREM NoSetContainsEverything == \A S : \E x : x \notin S
OBVIOUS (*{by (isabelle "(auto intro: inIrrefl)")}*)
-----------------------------------------------------------------------------



(********************************************************************)
(********************************************************************)
(********************************************************************)


(********************************************************************)
(* Old versions of Zenon and Isabelle pragmas below                 *)
(* (kept for compatibility)                                         *)
(********************************************************************)


(**************************************************************************)
(* Backend pragma: Zenon with different timeouts (default is 10 seconds)  *)
(*                                                                        *)
(**************************************************************************)

SlowZenon == TRUE (*{ by (prover:"zenon"; timeout:20) }*)
SlowerZenon == TRUE (*{ by (prover:"zenon"; timeout:40) }*)
VerySlowZenon == TRUE (*{ by (prover:"zenon"; timeout:80) }*)
SlowestZenon == TRUE (*{ by (prover:"zenon"; timeout:160) }*)



(********************************************************************)
(* Backend pragma: Isabelle's automatic search ("auto")             *)
(*                                                                  *)
(* This pragma bypasses Zenon. It is useful in situations involving *)
(* essentially simplification and equational reasoning.             *)
(* Default imeout for all isabelle tactics is 30 seconds.           *)
(********************************************************************)
Auto == TRUE (*{ by (prover:"isabelle"; tactic:"auto") }*)
SlowAuto == TRUE (*{ by (prover:"isabelle"; tactic:"auto"; timeout:120) }*)
SlowerAuto == TRUE (*{ by (prover:"isabelle"; tactic:"auto"; timeout:480) }*)
SlowestAuto == TRUE (*{ by (prover:"isabelle"; tactic:"auto"; timeout:960) }*)

(********************************************************************)
(* Backend pragma: Isabelle's "force" tactic                        *)
(*                                                                  *)
(* This pragma bypasses Zenon. It is useful in situations involving *)
(* quantifier reasoning.                                            *)
(********************************************************************)
Force == TRUE (*{ by (prover:"isabelle"; tactic:"force") }*)
SlowForce == TRUE (*{ by (prover:"isabelle"; tactic:"force"; timeout:120) }*)
SlowerForce == TRUE (*{ by (prover:"isabelle"; tactic:"force"; timeout:480) }*)
SlowestForce == TRUE (*{ by (prover:"isabelle"; tactic:"force"; timeout:960) }*)

(***********************************************************************)
(* Backend pragma: Isabelle's "simplification" tactics                 *)
(*                                                                     *)
(* These tactics simplify the goal before running one of the automated *)
(* tactics. They are often necessary for obligations involving record  *)
(* or tuple projections. Use the SimplfyAndSolve tactic unless you're  *)
(* sure you can get away with just Simplification                      *)
(***********************************************************************)
SimplifyAndSolve        == TRUE
    (*{ by (prover:"isabelle"; tactic:"clarsimp auto?") }*)
SlowSimplifyAndSolve    == TRUE
    (*{ by (prover:"isabelle"; tactic:"clarsimp auto?"; timeout:120) }*)
SlowerSimplifyAndSolve  == TRUE
    (*{ by (prover:"isabelle"; tactic:"clarsimp auto?"; timeout:480) }*)
SlowestSimplifyAndSolve == TRUE
    (*{ by (prover:"isabelle"; tactic:"clarsimp auto?"; timeout:960) }*)

Simplification == TRUE (*{ by (prover:"isabelle"; tactic:"clarsimp") }*)
SlowSimplification == TRUE
    (*{ by (prover:"isabelle"; tactic:"clarsimp"; timeout:120) }*)
SlowerSimplification  == TRUE
    (*{ by (prover:"isabelle"; tactic:"clarsimp"; timeout:480) }*)
SlowestSimplification == TRUE
    (*{ by (prover:"isabelle"; tactic:"clarsimp"; timeout:960) }*)

(**************************************************************************)
(* Backend pragma: Isabelle's tableau prover ("blast")                    *)
(*                                                                        *)
(* This pragma bypasses Zenon and uses Isabelle's built-in theorem        *)
(* prover, Blast. It is almost never better than Zenon by itself, but     *)
(* becomes very useful in combination with the Auto pragma above. The     *)
(* AutoBlast pragma first attempts Auto and then uses Blast to prove what *)
(* Auto could not prove. (There is currently no way to use Zenon on the   *)
(* results left over from Auto.)                                          *)
(**************************************************************************)
Blast == TRUE (*{ by (prover:"isabelle"; tactic:"blast") }*)
SlowBlast == TRUE (*{ by (prover:"isabelle"; tactic:"blast"; timeout:120) }*)
SlowerBlast == TRUE (*{ by (prover:"isabelle"; tactic:"blast"; timeout:480) }*)
SlowestBlast == TRUE (*{ by (prover:"isabelle"; tactic:"blast"; timeout:960) }*)

AutoBlast == TRUE (*{ by (prover:"isabelle"; tactic:"auto, blast") }*)


(**************************************************************************)
(* Backend pragmas: multi-back-ends                                       *)
(*                                                                        *)
(* These pragmas just run a bunch of back-ends one after the other in the *)
(* hope that one will succeed. This saves time and effort for the user at *)
(* the expense of computation time.                                       *)
(**************************************************************************)

(* CVC3 goes first because it's bundled with TLAPS, then the other SMT
   solvers are unlikely to succeed if CVC3 fails, so we run zenon and
   Isabelle before them. *)
AllProvers == TRUE (*{
    by (prover:"cvc33")
    by (prover:"zenon")
    by (prover:"isabelle"; tactic:"auto")
    by (prover:"spass")
    by (prover:"smt3")
    by (prover:"yices3")
    by (prover:"verit")
    by (prover:"z33")
    by (prover:"isabelle"; tactic:"force")
    by (prover:"isabelle"; tactic:"(auto intro: setEqualI)")
    by (prover:"isabelle"; tactic:"clarsimp auto?")
    by (prover:"isabelle"; tactic:"clarsimp")
    by (prover:"isabelle"; tactic:"auto, blast")
  }*)
AllProversT(X) == TRUE (*{
    by (prover:"cvc33"; timeout:@)
    by (prover:"zenon"; timeout:@)
    by (prover:"isabelle"; tactic:"auto"; timeout:@)
    by (prover:"spass"; timeout:@)
    by (prover:"smt3"; timeout:@)
    by (prover:"yices3"; timeout:@)
    by (prover:"verit"; timeout:@)
    by (prover:"z33"; timeout:@)
    by (prover:"isabelle"; tactic:"force"; timeout:@)
    by (prover:"isabelle"; tactic:"(auto intro: setEqualI)"; timeout:@)
    by (prover:"isabelle"; tactic:"clarsimp auto?"; timeout:@)
    by (prover:"isabelle"; tactic:"clarsimp"; timeout:@)
    by (prover:"isabelle"; tactic:"auto, blast"; timeout:@)
  }*)

AllSMT == TRUE (*{
    by (prover:"cvc33")
    by (prover:"smt3")
    by (prover:"yices3")
    by (prover:"verit")
    by (prover:"z33")
  }*)
AllSMTT(X) == TRUE (*{
    by (prover:"cvc33"; timeout:@)
    by (prover:"smt3"; timeout:@)
    by (prover:"yices3"; timeout:@)
    by (prover:"verit"; timeout:@)
    by (prover:"z33"; timeout:@)
  }*)

AllIsa == TRUE (*{
    by (prover:"isabelle"; tactic:"auto")
    by (prover:"isabelle"; tactic:"force")
    by (prover:"isabelle"; tactic:"(auto intro: setEqualI)")
    by (prover:"isabelle"; tactic:"clarsimp auto?")
    by (prover:"isabelle"; tactic:"clarsimp")
    by (prover:"isabelle"; tactic:"auto, blast")
  }*)
AllIsaT(X) == TRUE (*{
    by (prover:"isabelle"; tactic:"auto"; timeout:@)
    by (prover:"isabelle"; tactic:"force"; timeout:@)
    by (prover:"isabelle"; tactic:"(auto intro: setEqualI)"; timeout:@)
    by (prover:"isabelle"; tactic:"clarsimp auto?"; timeout:@)
    by (prover:"isabelle"; tactic:"clarsimp"; timeout:@)
    by (prover:"isabelle"; tactic:"auto, blast"; timeout:@)
  }*)


(**************************************************************************)
(* The pragma ExpandEnabled invokes expansion of the operator ENABLED.    *)
(*                                                                        *)
(* The pragma ExpandCdot invokes expansion of the operator \cdot.         *)
(*                                                                        *)
(* The pragma AutoUSE invokes automated expansion of definitions,         *)
(* for both of ExpandEnabled and ExpandCdot, when each is present.        *)
(*                                                                        *)
(* The pragma Lambdify invokes expansion of the operators                 *)
(* ENABLED and \cdot to an intermediate form with bound VARIABLES,        *)
(* which is a form before introducing rigid quantifiers.                  *)
(* The pragma Lambdify is sound for occurrences of ENABLED and \cdot      *)
(* that are not nested.                                                   *)
(**************************************************************************)
ExpandENABLED == TRUE  (*{ by (prover:"expandenabled") }*)
ExpandCdot == TRUE  (*{ by (prover:"expandcdot") }*)
AutoUSE == TRUE  (*{ by (prover:"autouse") }*)
Lambdify == TRUE  (*{ by (prover:"lambdify") }*)
ENABLEDaxioms == TRUE  (*{ by (prover:"enabledaxioms") }*)
LevelComparison == TRUE  (*{ by (prover:"levelcomparison") }*)

(* The operators EnabledWrapper and CdotWrapper occur in an intermediate  *)
(* representation within TLAPM.                                           *)
EnabledWrapper(Op(_)) == FALSE
CdotWrapper(Op(_)) == FALSE

(***************************************************************************)
(* The following may be used in a `BY ONLY ThmName` for unit testing the   *)
(* triviality checks in TLAPM.                                             *)
(***************************************************************************)
Trivial == TRUE  (*{ by (prover:"trivial") }*)


=============================================================================

The material below is obsolete: the TLA proof rules below are superseded by
the PTL decision procedure, and their formulation is unsound for the semantics
of temporal reasoning that TLAPS adopts.

----------------------------------------------------------------------------
(***************************************************************************)
(*                           TEMPORAL LOGIC                                *)
(*                                                                         *)
(* The following rules are intended to be used when TLAPS handles temporal *)
(* logic.  They will not work now.  Moreover when temporal reasoning is    *)
(* implemented, these rules may be changed or omitted, and additional      *)
(* rules will probably be added.  However, they are included mainly so     *)
(* their names will be defined, preventing the use of identifiers that are *)
(* likely to produce name clashes with future versions of this module.     *)
(***************************************************************************)


(***************************************************************************)
(* The following proof rules (and their names) are from the paper "The     *)
(* Temporal Logic of Actions".                                             *)
(***************************************************************************)
THEOREM RuleTLA1 == ASSUME STATE P, STATE f,
                           P /\ (f' = f) => P'
                    PROVE  []P <=> P /\ [][P => P']_f

THEOREM RuleTLA2 == ASSUME STATE P, STATE Q, STATE f, STATE g,
                           ACTION A, ACTION B,
                           P /\ [A]_f => Q /\ [B]_g
                    PROVE  []P /\ [][A]_f => []Q /\ [][B]_g

THEOREM RuleINV1 == ASSUME STATE I, STATE F,  ACTION N,
                           I /\ [N]_F => I'
                    PROVE  I /\ [][N]_F => []I

THEOREM RuleINV2 == ASSUME STATE I, STATE f, ACTION N
                    PROVE  []I => ([][N]_f <=> [][N /\ I /\ I']_f)

THEOREM RuleWF1 == ASSUME STATE P, STATE Q, STATE f, ACTION N, ACTION A,
                          P /\ [N]_f => (P' \/ Q'),
                          P /\ <<N /\ A>>_f => Q',
                          P => ENABLED <<A>>_f
                   PROVE  [][N]_f /\ WF_f(A) => (P ~> Q)

THEOREM RuleSF1 == ASSUME STATE P, STATE Q, STATE f,
                          ACTION N, ACTION A, TEMPORAL F,
                          P /\ [N]_f => (P' \/ Q'),
                          P /\ <<N /\ A>>_f => Q',
                          []P /\ [][N]_f /\ []F => <> ENABLED <<A>>_f
                   PROVE  [][N]_f /\ SF_f(A) /\ []F => (P ~> Q)

(***************************************************************************)
(* The rules WF2 and SF2 in "The Temporal Logic of Actions" are obtained   *)
(* from the following two rules by the following substitutions: `.         *)
(*                                                                         *)
(*          ___        ___         _______________                         *)
(*      M <- M ,   g <- g ,  EM <- ENABLED <<M>>_g       .'                *)
(***************************************************************************)
THEOREM RuleWF2 == ASSUME STATE P, STATE f, STATE g, STATE EM,
                          ACTION A, ACTION B, ACTION N, ACTION M,
                          TEMPORAL F,
                          <<N /\ B>>_f => <<M>>_g,
                          P /\ P' /\ <<N /\ A>>_f /\ EM => B,
                          P /\ EM => ENABLED A,
                          [][N /\ ~B]_f /\ WF_f(A) /\ []F /\ <>[]EM => <>[]P
                   PROVE  [][N]_f /\ WF_f(A) /\ []F => []<><<M>>_g \/ []<>(~EM)

THEOREM RuleSF2 == ASSUME STATE P, STATE f, STATE g, STATE EM,
                          ACTION A, ACTION B, ACTION N, ACTION M,
                          TEMPORAL F,
                          <<N /\ B>>_f => <<M>>_g,
                          P /\ P' /\ <<N /\ A>>_f /\ EM => B,
                          P /\ EM => ENABLED A,
                          [][N /\ ~B]_f /\ SF_f(A) /\ []F /\ []<>EM => <>[]P
                   PROVE  [][N]_f /\ SF_f(A) /\ []F => []<><<M>>_g \/ <>[](~EM)


(***************************************************************************)
(* The following rule is a special case of the general temporal logic      *)
(* proof rule STL4 from the paper "The Temporal Logic of Actions".  The    *)
(* general rule is for arbitrary temporal formulas F and G, but it cannot  *)
(* yet be handled by TLAPS.                                                *)
(***************************************************************************)
THEOREM RuleInvImplication ==
  ASSUME STATE F, STATE G,
         F => G
  PROVE  []F => []G
PROOF OMITTED

(***************************************************************************)
(* The following rule is a special case of rule TLA2 from the paper "The   *)
(* Temporal Logic of Actions".                                             *)
(***************************************************************************)
THEOREM RuleStepSimulation ==
  ASSUME STATE I, STATE f, STATE g,
         ACTION M, ACTION N,
         I /\ I' /\ [M]_f => [N]_g
  PROVE  []I /\ [][M]_f => [][N]_g
PROOF OMITTED

(***************************************************************************)
(* The following may be used to invoke a decision procedure for            *)
(* propositional temporal logic.                                           *)
(***************************************************************************)
PropositionalTemporalLogic == TRUE
=============================================================================
