------------------------------- MODULE Tissue -------------------------------
(***************************************************************************)
(* The SimuCell3D solver as a state machine over the cell population       *)
(* (src/solver.cpp, src/triangulation_modules/cell_divider.cpp).  One      *)
(* action per statement of solver::run_iteration, in the code's order.     *)
(* Properties C04 (cell cycle), C08 (identities and cross references),     *)
(* C09 (population part of division), C19 (output cadence and statistics). *)
(*                                                                         *)
(* Abstractions: a cell is [id, lid, type, vol, tvol, growth, divvol,      *)
(* minvol] with volumes as small integers; the mechanics only appear as a  *)
(* nondeterministic drift of vol towards tvol.  Time is counted in ticks   *)
(* of dt = P units, the sampling period is Q units (Q >= P).               *)
(* A coupling created by the contact phase stores the partner's list       *)
(* position (local id), exactly as the code does.                          *)
(***************************************************************************)
EXTENDS Integers, Sequences, FiniteSets, TLC

CONSTANTS
    P, Q, TEnd,            \* time step, sampling period, duration (integer units)
    MaxVol, MaxCells, MaxIter,
    InitCells,             \* set of initial populations (sequences of cells without ids)
    RenumberAfterRemoval,  \* TRUE: list positions are renumbered after the removal of small cells (after the fix of F4)
    FileRule               \* "floor":      n = floor(t/S)+1, file written when n # file_number (before the fix of F10)
                           \* "sequential": file written when t >= file_number*S, numbers consecutive (after the fix)

VARIABLES cells, nextId, iter, tick, phase, fileNo, files, stats, graveyard, everIds, coupl, lastDivided

vars == <<cells, nextId, iter, tick, phase, fileNo, files, stats, graveyard, everIds, coupl, lastDivided>>

Inf == 99                                   \* "INF" division volume: larger than every volume
Idx == 1..Len(cells)
Ids(cs) == {cs[i].id : i \in 1..Len(cs)}
SeqFilter(s, keep(_)) == LET RECURSIVE F(_)
                             F(i) == IF i > Len(s) THEN <<>> ELSE (IF keep(s[i]) THEN <<s[i]>> ELSE <<>>) \o F(i + 1)
                         IN F(1)
Renumber(cs) == [i \in 1..Len(cs) |-> [cs[i] EXCEPT !.lid = i - 1]]
Max(a, b) == IF a > b THEN a ELSE b

\* population effect of cell_divider::run when the cells at the positions D divide (mothers removed, two daughters per mother
\* appended in the order of D, list renumbered only if D is not empty)
DivideResult(cs, D, nid) ==
    LET n == Cardinality(D)
        order == CHOOSE s \in [1..n -> D] : \A x, y \in 1..n : x < y => s[x] < s[y]
        Daughters(j, m) == << [m EXCEPT !.id = nid + 2*(j-1),     !.vol = m.vol \div 2, !.tvol = m.tvol \div 2],
                              [m EXCEPT !.id = nid + 2*(j-1) + 1, !.vol = m.vol - (m.vol \div 2), !.tvol = m.tvol \div 2] >>
        RECURSIVE App(_)
        App(j) == IF j > n THEN <<>> ELSE Daughters(j, cs[order[j]]) \o App(j + 1)
        kept == SeqFilter([i \in 1..Len(cs) |-> [c |-> cs[i], i |-> i]], LAMBDA r : r.i \notin D)
        survivors == [i \in 1..Len(kept) |-> kept[i].c]
    IN IF D = {} THEN cs ELSE Renumber(survivors \o App(1))

Ready(c)    == c.type = 0 /\ c.vol >= c.divvol         \* epithelial_cell::is_ready_to_divide
BelowMin(c) == c.vol < c.minvol                        \* cell::is_below_min_vol

RemoveResult(cs) == LET kept == SeqFilter(cs, LAMBDA c : ~BelowMin(c))
                    IN IF RenumberAfterRemoval THEN Renumber(kept) ELSE kept

Init == /\ \E pop \in InitCells :
              cells = [i \in 1..Len(pop) |-> [id |-> i - 1, lid |-> i - 1, type |-> pop[i].type, vol |-> pop[i].vol,
                                              tvol |-> pop[i].vol, growth |-> pop[i].growth, divvol |-> pop[i].divvol,
                                              minvol |-> pop[i].minvol]]
        /\ nextId = Len(cells) /\ iter = 0 /\ tick = 0 /\ phase = "save" /\ fileNo = 0 /\ files = {}
        /\ stats = <<>> /\ graveyard = {} /\ everIds = Ids(cells) /\ coupl = {} /\ lastDivided = {}

Running == tick * P < TEnd /\ Len(cells) > 0 /\ iter < MaxIter

---------------------------------------------------------------------------
(* solver::save_mesh.
   "floor" rule: n = floor(t/S)+1 is compared with the last number written.  t is accumulated in floating point, so at an
   exact multiple of the sampling period it may sit one ulp below the boundary and the computed n may be one lower there.
   "sequential" rule: the next number is written as soon as t + tolerance >= file_number*S; the tolerance (a small fraction
   of the time step) absorbs the accumulated rounding, so the decision is the exact one. *)
AtBoundary == (tick * P) % Q = 0 /\ tick > 0
Exact == (tick * P) \div Q
SaveMesh ==
    /\ phase = "save" /\ Running
    /\ IF FileRule = "floor"
       THEN \E k \in (IF AtBoundary THEN {Exact, Exact - 1} ELSE {Exact}) :
               LET n == k + 1 IN
               IF n # fileNo THEN fileNo' = n /\ files' = files \cup {n} ELSE UNCHANGED <<fileNo, files>>
       ELSE IF Exact >= fileNo THEN fileNo' = fileNo + 1 /\ files' = files \cup {fileNo + 1} ELSE UNCHANGED <<fileNo, files>>
    /\ phase' = "divide"
    /\ UNCHANGED <<cells, nextId, iter, tick, stats, graveyard, everIds, coupl, lastDivided>>

(* cell_divider::run, every 5th iteration: every ready cell either divides or fails; mothers are removed and the list
   is renumbered only if at least one cell divided *)
Divide ==
    /\ phase = "divide"
    /\ IF iter % 5 # 0 THEN UNCHANGED <<cells, nextId, everIds, lastDivided>> ELSE
       \E D \in SUBSET {i \in Idx : Ready(cells[i])} :
          /\ Len(cells) + Cardinality(D) <= MaxCells
          /\ LET dummy == 0
             IN /\ cells' = DivideResult(cells, D, nextId)
                /\ nextId' = nextId + 2 * Cardinality(D)
                /\ everIds' = everIds \cup {nextId + j : j \in 0..(2 * Cardinality(D) - 1)}
                /\ lastDivided' = {cells[i].id : i \in D}
    /\ phase' = "contact"
    /\ UNCHANGED <<iter, tick, fileNo, files, stats, graveyard, coupl>>

(* contact model: couplings are cleared and re-created between epithelial cells; each stores the partner's local id *)
Contact ==
    /\ phase = "contact"
    /\ \E pairs \in SUBSET {<<i, j>> \in Idx \X Idx : i < j /\ cells[i].type = 0 /\ cells[j].type = 0} :
          coupl' = UNION {{[owner |-> cells[pr[1]].id, stored |-> cells[pr[2]].lid, partner |-> cells[pr[2]].id],
                           [owner |-> cells[pr[2]].id, stored |-> cells[pr[1]].lid, partner |-> cells[pr[1]].id]} : pr \in pairs}
    /\ phase' = "forces"
    /\ UNCHANGED <<cells, nextId, iter, tick, fileNo, files, stats, graveyard, everIds, lastDivided>>

(* polarisation + internal forces + integration: couplings are dereferenced through the list; target volumes grow and
   are clamped; volumes drift; time advances by one step *)
Forces ==
    /\ phase = "forces"
    /\ \E drift \in [Idx -> {-1, 0, 1}] :
          cells' = [i \in Idx |-> [cells[i] EXCEPT
                       !.tvol = Max(cells[i].tvol + cells[i].growth, cells[i].minvol),
                       !.vol  = IF cells[i].vol + drift[i] \in 0..MaxVol THEN cells[i].vol + drift[i] ELSE cells[i].vol]]
    /\ tick' = tick + 1
    /\ phase' = "stats"
    /\ UNCHANGED <<nextId, iter, fileNo, files, stats, graveyard, everIds, coupl, lastDivided>>

Stats ==
    /\ phase = "stats"
    /\ stats' = IF iter % 50 = 0 THEN stats \o [i \in Idx |-> <<iter, cells[i].id>>] ELSE stats
    /\ phase' = "remove"
    /\ UNCHANGED <<cells, nextId, iter, tick, fileNo, files, graveyard, everIds, coupl, lastDivided>>

(* erase-remove of the cells below their minimum volume *)
Remove ==
    /\ phase = "remove"
    /\ LET kept == SeqFilter(cells, LAMBDA c : ~BelowMin(c))
       IN /\ cells' = RemoveResult(cells)
          /\ graveyard' = graveyard \cup {cells[i].id : i \in {j \in Idx : BelowMin(cells[j])}}
    /\ iter' = iter + 1
    /\ phase' = "save"
    /\ UNCHANGED <<nextId, tick, fileNo, files, stats, everIds, coupl, lastDivided>>

(* solver::run: when the loop ends the statistics are written once more *)
Finish ==
    /\ phase = "save" /\ ~Running
    /\ stats' = stats \o [i \in Idx |-> <<iter, cells[i].id>>]
    /\ phase' = "done"
    /\ UNCHANGED <<cells, nextId, iter, tick, fileNo, files, graveyard, everIds, coupl, lastDivided>>

Next == SaveMesh \/ Divide \/ Contact \/ Forces \/ Stats \/ Remove \/ Finish
Spec == Init /\ [][Next]_vars

---------------------------------------------------------------------------
(* C08 *)
UsePhases == {"contact", "forces", "stats"}      \* the phases whose actions read lid / couplings / ids
LidIsIndex   == phase \in UsePhases => \A i \in Idx : cells[i].lid = i - 1
IdsUnique    == \A i, j \in Idx : i # j => cells[i].id # cells[j].id
IdsFresh     == Ids(cells) \subseteq everIds /\ \A i \in Idx : cells[i].id < nextId
CouplingValid == phase = "forces" => \A k \in coupl :
                    /\ k.stored + 1 \in Idx
                    /\ cells[k.stored + 1].id = k.partner          \* the cell found through the list is the intended one
(* C04 *)
Gone         == Ids(cells) \cap graveyard = {}
RemovedAtEnd == phase = "save" => \A i \in Idx : ~BelowMin(cells[i])   \* nothing below its minimum survives an iteration
TvolClamped  == (phase \in {"stats", "remove"}) => \A i \in Idx : cells[i].tvol >= cells[i].minvol
OnlyReadyDivide == [][(phase = "divide" /\ iter % 5 = 0) => \A x \in lastDivided' : \E i \in Idx : cells[i].id = x /\ Ready(cells[i])]_vars
(* C09, population part *)
DivisionReplaces == [][phase = "divide" /\ iter % 5 = 0 =>
                        /\ Len(cells') = Len(cells) + Cardinality(lastDivided')
                        /\ Ids(cells') = (Ids(cells) \ lastDivided') \cup {nextId + j : j \in 0..(2 * Cardinality(lastDivided') - 1)}]_vars
(* C19 *)
NoGaps   == files = 1..Cardinality(files)
KBound   == phase = "done" /\ Len(cells) > 0 => LET K == Cardinality(files) IN K - (TEnd \div Q + 1) \in {-1, 0, 1}
TimeLaw  == tick = iter + (IF phase \in {"stats", "remove"} THEN 1 ELSE 0)
StatsRows == \A r \in 1..Len(stats) : stats[r][2] \in everIds /\ (stats[r][1] % 50 = 0 \/ phase = "done")
=============================================================================
