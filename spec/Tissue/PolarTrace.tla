----------------------------- MODULE PolarTrace -----------------------------
(* Conformance of the real epithelial_cell::special_polarization_update with Polarisation: every record written by
   harness/drivers/polar_driver.cpp (one face, prescribed couplings on its three nodes) is one initial state. *)
EXTENDS Polarisation, Json, IOUtils
Obs == ndJsonDeserialize(IOEnv.OBS)
VARIABLE k
R == Obs[k]
ToNode(n) == [cpl |-> {<<n.cpl[i][1], n.cpl[i][2]>> : i \in 1..Len(n.cpl)}, agree |-> n.agree]
F == [i \in Corner |-> ToNode(R.nodes[i])]
TInit == /\ k \in 1..Len(Obs)
         /\ face = F /\ prev = R.prev /\ out = Special(F, R.prev)
TSpec == TInit /\ [][UNCHANGED <<vars, k>>]_<<vars, k>>
\* D_*: the real function decides as the specification does and touches no other face.  This is conformance with the design of
\* the phase, not one of the listed properties: a disagreement is reported as design drift, never as a violation.
D_Decision == R.model = Model => R.out = out
D_Local    == ~R.others_touched
\* C08: the index written is one that a three-face-type epithelial cell defines
P_IndexInRange == R.out \in 0..2
=============================================================================
