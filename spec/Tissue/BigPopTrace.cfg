SPECIFICATION TSpec
INVARIANTS P_BigCouplingValid P_BigNotVacuous
CHECK_DEADLOCK FALSE
