----------------------------- MODULE LatticeGeomMC -----------------------------
(* Design check of C12 on the lattice: for every mix of input windings the orientation repair is unique and outward; volume and area
   are invariant under the 24 rotations and under translations and scale with k^3 / k^2. *)
EXTENDS LatticeGeom
VARIABLES seed, flipped
TetraPos == << <<1,1,1>>, <<1,-1,-1>>, <<-1,1,-1>>, <<-1,-1,1>> >>
OctaPos  == << <<2,0,0>>, <<-2,0,0>>, <<0,2,0>>, <<0,-2,0>>, <<0,0,2>>, <<0,0,-2>> >>
BipyrPos == << <<4,0,0>>, <<-2,3,0>>, <<-2,-3,0>>, <<0,0,5>>, <<0,0,-5>> >>
TetraO == Mk(4, << <<0,1,2>>, <<0,3,1>>, <<1,3,2>>, <<0,2,3>> >>)         \* outward for TetraPos
MeshOf(s) == CASE s = "tetra" -> TetraO [] s = "octa" -> Octa [] s = "bipyr" -> Bipyr
PosOf(s)  == CASE s = "tetra" -> TetraPos [] s = "octa" -> OctaPos [] s = "bipyr" -> BipyrPos
Init == seed \in {"tetra", "octa", "bipyr"} /\ flipped \in SUBSET Live(MeshOf(seed))
Next == UNCHANGED <<seed, flipped>>
Spec == Init /\ [][Next]_<<seed, flipped>>
M == Rewind(MeshOf(seed), flipped)
Pos == PosOf(seed)
SeedsOutward == Oriented(MeshOf(seed), Pos)
RepairUnique == Repairs(M, Pos) = {flipped}                  \* exactly one re-winding is consistent and outward: undo the flips
VolumeWindingFree == Vol6(M, Pos) = Vol6(MeshOf(seed), Pos)     \* only meaningful when flipped is {} or everything; see RigidInvariance
\* squared doubled area of each triangle summed: a rotation / scaling invariant that needs no square root
Area2Sq(m, pos) == SetSum(Live(m), LAMBDA f : Dot(AVec(m, pos, f), AVec(m, pos, f)))
RigidInvariance == flipped = {} =>
    \A g \in Rotations : \A t \in {<<0,0,0>>, <<7,-3,50>>, <<-100,1,2>>} : \A k \in {1, 2, 3} :
        /\ Vol6(M, Move(Pos, g, t, k)) = k * k * k * Vol6(M, Pos)
        /\ Oriented(M, Move(Pos, g, t, k))
        /\ (seed = "octa" => Area2Sq(M, Move(Pos, g, t, k)) = k * k * k * k * Area2Sq(M, Pos))
=============================================================================
