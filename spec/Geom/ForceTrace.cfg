SPECIFICATION TSpec
CONSTANTS
  SwapRefreshesNormals = TRUE
  MergeKeepsFourNodes = TRUE
INVARIANTS P_Lattice_NoError P_Lattice_Pressure P_Lattice_Tension P_NetForceZero P_NetTorqueZero P_RigidCovariance P_StorageOrder P_EnergyGradients
CHECK_DEADLOCK FALSE
