SPECIFICATION TSpec
CONSTANTS
  SwapRefreshesNormals = TRUE
  MergeKeepsFourNodes = TRUE
INVARIANTS P_NoError P_Volume P_BBox P_Area P_Centroid P_Orientation P_LongestAxis P_History
CHECK_DEADLOCK FALSE
