------------------------------ MODULE LatticeGeom ------------------------------
(***************************************************************************)
(* Geometry of a closed triangulated cell on the integer lattice, where    *)
(* volume, bounding box and (for meshes whose triangles have integer area  *)
(* vectors of integer length) area and centroid are exact.  Property C12.  *)
(*   Vol6    = | sum over triangles of det(a, b, c) |      = 6 * volume    *)
(*   Area2   = sum of |(b-a) x (c-a)|                      = 2 * area      *)
(*   Cen6A   = sum of (a+b+c) * |(b-a) x (c-a)|            = 6 * area * centroid *)
(* and the orientation repair of cell::check_face_normal_orientation: the  *)
(* unique re-winding of the triangles that is consistent and encloses a    *)
(* positive volume.                                                        *)
(***************************************************************************)
EXTENDS Mesh

Sub(x, y) == <<x[1]-y[1], x[2]-y[2], x[3]-y[3]>>
Add3(x, y, z) == <<x[1]+y[1]+z[1], x[2]+y[2]+z[2], x[3]+y[3]+z[3]>>
Cross(x, y) == <<x[2]*y[3]-x[3]*y[2], x[3]*y[1]-x[1]*y[3], x[1]*y[2]-x[2]*y[1]>>
Dot(x, y) == x[1]*y[1] + x[2]*y[2] + x[3]*y[3]
Det(a, b, c) == Dot(a, Cross(b, c))
AbsI(x) == IF x < 0 THEN -x ELSE x
RECURSIVE ISqrtFrom(_, _)
ISqrtFrom(n, k) == IF k * k >= n THEN k ELSE ISqrtFrom(n, k + 1)
ISqrt(n) == ISqrtFrom(n, 0)                               \* exact root of a perfect square
IsSquare(n) == ISqrt(n) * ISqrt(n) = n

P(pos, n) == pos[n + 1]                                   \* position of node slot n (0-based slots, 1-based sequence)
SetSum(S, f(_)) == LET RECURSIVE G(_)
                       G(T) == IF T = {} THEN 0 ELSE LET x == CHOOSE y \in T : TRUE IN f(x) + G(T \ {x})
                   IN G(S)
SignedVol6(m, pos) == SetSum(Live(m), LAMBDA f : Det(P(pos, m.tri[f][1]), P(pos, m.tri[f][2]), P(pos, m.tri[f][3])))
Vol6(m, pos) == AbsI(SignedVol6(m, pos))
AVec(m, pos, f) == Cross(Sub(P(pos, m.tri[f][2]), P(pos, m.tri[f][1])), Sub(P(pos, m.tri[f][3]), P(pos, m.tri[f][1])))
IntegerNormals(m, pos) == \A f \in Live(m) : IsSquare(Dot(AVec(m, pos, f), AVec(m, pos, f)))
Area2(m, pos) == SetSum(Live(m), LAMBDA f : ISqrt(Dot(AVec(m, pos, f), AVec(m, pos, f))))
Cen6A(m, pos, ax) == SetSum(Live(m), LAMBDA f : Add3(P(pos, m.tri[f][1]), P(pos, m.tri[f][2]), P(pos, m.tri[f][3]))[ax]
                                                    * ISqrt(Dot(AVec(m, pos, f), AVec(m, pos, f))))
BBox(m, pos) == LET xs(ax) == {P(pos, n)[ax] : n \in m.used}
                    mn(S) == CHOOSE x \in S : \A y \in S : x <= y
                    mx(S) == CHOOSE x \in S : \A y \in S : x >= y
                IN <<mn(xs(1)), mn(xs(2)), mn(xs(3)), mx(xs(1)), mx(xs(2)), mx(xs(3))>>

\* re-winding of a set of triangles (swap_nodes: n2 <-> n3)
Rewind(m, S) == [m EXCEPT !.tri = [f \in DOMAIN @ |-> IF f \in S THEN <<@[f][1], @[f][3], @[f][2]>> ELSE @[f]]]
Oriented(m, pos) == Closed(m) /\ SignedVol6(m, pos) > 0
\* the sets of triangles whose re-winding makes the surface consistently outward oriented
Repairs(m, pos) == {S \in SUBSET Live(m) : Oriented(Rewind(m, S), pos)}
SameCyc(t, u) == u \in {t, <<t[2], t[3], t[1]>>, <<t[3], t[1], t[2]>>}

\* the 24 rotations of the cube
Perms == {<<1,2,3>>, <<2,3,1>>, <<3,1,2>>, <<1,3,2>>, <<3,2,1>>, <<2,1,3>>}
Even(pi) == pi \in {<<1,2,3>>, <<2,3,1>>, <<3,1,2>>}
Signs == {<<e1, e2, e3>> : e1 \in {-1, 1}, e2 \in {-1, 1}, e3 \in {-1, 1}}
Rotations == {<<pi, sg>> \in Perms \X Signs : (sg[1]*sg[2]*sg[3] = 1) <=> Even(pi)}
Rot(g, x) == <<g[2][1]*x[g[1][1]], g[2][2]*x[g[1][2]], g[2][3]*x[g[1][3]]>>
Move(pos, g, t, k) == [i \in DOMAIN pos |-> LET r == Rot(g, pos[i]) IN <<k*r[1] + t[1], k*r[2] + t[2], k*r[3] + t[3]>>]
=============================================================================
