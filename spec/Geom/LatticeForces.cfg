SPECIFICATION Spec
CONSTANTS
  SwapRefreshesNormals = TRUE
  MergeKeepsFourNodes = TRUE
INVARIANTS Outward PressureIsVolumeGradient PressureBalanced TensionBalanced PressureCovariant CubeHasExactNormals
CHECK_DEADLOCK FALSE
