----------------------------- MODULE BigGeomTrace -----------------------------
(* C12 on a mesh of 65538 nodes / 131072 triangles given with mixed windings, naturally numbered and renumbered, where index
   arithmetic on node ids has room to wrap.  Too large for TLC to recompute the quantities of spec/Geom/LatticeGeom: the driver
   (geom_driver big) compares with its own long-double evaluation and logs verdicts, which this module requires. *)
EXTENDS Integers, Sequences, Json, IOUtils
Obs == ndJsonDeserialize(IOEnv.OBS)
VARIABLE k
R == Obs[k]
TInit == k \in 1..Len(Obs)
TSpec == TInit /\ [][UNCHANGED k]_k
P_BigNoError     == R.error = ""
P_BigVolumeArea  == R.vol_ok /\ R.area_ok
P_BigOrientation == R.normals_ok
P_BigIsBig       == R.nn > 65536
=============================================================================
