SPECIFICATION TSpec
INVARIANTS P_BigNoError P_BigVolumeArea P_BigOrientation P_BigIsBig
CHECK_DEADLOCK FALSE
