---------------------------- MODULE LatticeForcesMC ----------------------------
(* Design check of C02 on the lattice: the pressure force is the pressure times the gradient of the volume, and pressure and tension
   forces have zero resultant and zero torque, for the seeds at every lattice rotation and several translations. *)
EXTENDS LatticeForces
VARIABLES seed, g, t
OctaPos  == << <<2,0,0>>, <<-2,0,0>>, <<0,2,0>>, <<0,-2,0>>, <<0,0,2>>, <<0,0,-2>> >>
BipyrPos == << <<4,0,0>>, <<-2,3,0>>, <<-2,-3,0>>, <<0,0,5>>, <<0,0,-5>> >>
TetraPos == << <<1,1,1>>, <<1,-1,-1>>, <<-1,1,-1>>, <<-1,-1,1>> >>
TetraO == Mk(4, << <<0,1,2>>, <<0,3,1>>, <<1,3,2>>, <<0,2,3>> >>)
\* the unit cube, two triangles per side: every area vector is an axis vector of length 1 (exact unit normals)
CubePos == << <<0,0,0>>, <<1,0,0>>, <<1,1,0>>, <<0,1,0>>, <<0,0,1>>, <<1,0,1>>, <<1,1,1>>, <<0,1,1>> >>
Cube == Mk(8, << <<0,3,2>>, <<0,2,1>>, <<4,5,6>>, <<4,6,7>>, <<0,1,5>>, <<0,5,4>>, <<3,7,6>>, <<3,6,2>>, <<0,4,7>>, <<0,7,3>>, <<1,2,6>>, <<1,6,5>> >>)
MeshOf(s) == CASE s = "tetra" -> TetraO [] s = "octa" -> Octa [] s = "bipyr" -> Bipyr [] s = "cube" -> Cube
PosOf(s)  == CASE s = "tetra" -> TetraPos [] s = "octa" -> OctaPos [] s = "bipyr" -> BipyrPos [] s = "cube" -> CubePos
Init == seed \in {"tetra", "octa", "bipyr", "cube"} /\ g \in Rotations /\ t \in {<<0,0,0>>, <<7,-3,50>>, <<-20,11,2>>}
Next == UNCHANGED <<seed, g, t>>
Spec == Init /\ [][Next]_<<seed, g, t>>
M == MeshOf(seed)
Pos == Move(PosOf(seed), g, t, 1)
Gamma == <<1, 2, 5>>                    \* one tension per face type
Outward == Oriented(M, Pos)
PressureIsVolumeGradient == \A n \in M.used : PressF6(M, Pos, n) = DVol6(M, Pos, n)
PressureBalanced == NetZero(M, LAMBDA n : PressF6(M, Pos, n)) /\ TorqueZero(M, Pos, LAMBDA n : PressF6(M, Pos, n))
TensionBalanced  == ExactUnitNormals(M, Pos) => (NetZero(M, LAMBDA n : TensF2(M, Pos, Gamma, n)) /\ TorqueZero(M, Pos, LAMBDA n : TensF2(M, Pos, Gamma, n)))
\* the force field moves rigidly with the cell: rotating the positions rotates the forces
PressureCovariant == \A n \in M.used : PressF6(M, Pos, n) = Rot(g, PressF6(M, Move(PosOf(seed), <<<<1,2,3>>, <<1,1,1>>>>, <<0,0,0>>, 1), n))
CubeHasExactNormals == seed = "cube" => ExactUnitNormals(M, Pos)
=============================================================================
