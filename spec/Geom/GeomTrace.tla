------------------------------- MODULE GeomTrace -------------------------------
(* C12: what the real cell reports (harness/drivers/geom_driver.cpp) against LatticeGeom.  One record per case: the canonical outward
   mesh, the lattice positions after the rigid motion / scaling, the set of triangles given with the wrong winding, and the real
   volume / area / centroid / bounding box scaled back to lattice integers, plus the windings the cell ended up with. *)
EXTENDS LatticeGeom, Json, IOUtils
Log == ndJsonDeserialize(IOEnv.OBS)
VARIABLES k, m
R == Log[k]
ToSet(q) == {q[i] : i \in 1..Len(q)}
TInit == /\ k \in 1..Len(Log)
         /\ m = Mk(Log[k].nn, Log[k].tris)
TSpec == TInit /\ [][UNCHANGED <<k, m>>]_<<k, m>>
Pos == R.pos
P_NoError     == R.error = "" /\ R.exact
P_Volume      == R.vol6 = Vol6(m, Pos) /\ R.vol6_fn = R.vol6 /\ R.target_vol_same
P_BBox        == R.bbox = BBox(m, Pos)
P_Area        == IntegerNormals(m, Pos) => (R.exact_area /\ R.area2 = Area2(m, Pos))
P_Centroid    == IntegerNormals(m, Pos) => R.cen6a = <<Cen6A(m, Pos, 1), Cen6A(m, Pos, 2), Cen6A(m, Pos, 3)>>
\* whatever the input windings were, every triangle ends up wound outward (= as in the canonical mesh), normals follow
P_Orientation == /\ Oriented(m, Pos)                                       \* the canonical mesh is outward: sanity of the case
                 /\ \A f \in 1..Len(R.repaired) : SameCyc(m.tri[f - 1], R.repaired[f])
                 /\ R.normals_ok
P_LongestAxis == R.axis_ok
\* the quantities do not depend on how the surface is stored (unused slots inside the lists, compaction)
P_History     == R.hist_ok
=============================================================================
