SPECIFICATION Spec
CONSTANTS
  SwapRefreshesNormals = TRUE
  MergeKeepsFourNodes = TRUE
INVARIANTS SeedsOutward RepairUnique RigidInvariance
CHECK_DEADLOCK FALSE
