------------------------------- MODULE ForceTrace -------------------------------
(* C02: forces computed by the real cell (harness/drivers/force_driver.cpp) against LatticeForces.
   lattice records: integer force vectors per node, compared with the exact ones;
   generic records: verdicts evaluated by the driver with independent formulas (resultant, torque, rigid covariance, finite differences). *)
EXTENDS LatticeForces, Json, IOUtils
Log == ndJsonDeserialize(IOEnv.OBS)
VARIABLES k, m
R == Log[k]
TInit == /\ k \in 1..Len(Log)
         /\ m = IF Log[k].kind = "lattice" THEN Mk(Log[k].nn, Log[k].tris) ELSE Mk(4, << <<0,1,2>>, <<0,3,1>>, <<1,3,2>>, <<0,2,3>> >>)
TSpec == TInit /\ [][UNCHANGED <<k, m>>]_<<k, m>>
Lat == R.kind = "lattice"
Gamma == <<1, 2, 5>>
P_Lattice_NoError  == Lat => (R.error = "" /\ R.exact /\ Oriented(m, R.pos))
P_Lattice_Pressure == Lat => \A n \in m.used : R.press6[n + 1] = PressF6(m, R.pos, n) /\ R.press6[n + 1] = DVol6(m, R.pos, n)
P_Lattice_Tension  == (Lat /\ ExactUnitNormals(m, R.pos)) => (R.exact_tension /\ \A n \in m.used : R.tens2[n + 1] = TensF2(m, R.pos, Gamma, n))
Terms == {"pressure", "tension", "bending", "angle", "all"}
P_NetForceZero  == ~Lat => \A t \in Terms : R.terms[t].net_ok
P_NetTorqueZero == ~Lat => \A t \in Terms : R.terms[t].torque_ok
P_RigidCovariance == ~Lat => \A t \in Terms : R.terms[t].cov_ok
\* the forces are functions of the surface and its labels, not of the order in which the triangles are stored
P_StorageOrder == ~Lat => \A t \in Terms : R.terms[t].renum_ok
P_EnergyGradients == ~Lat => (R.fd_pressure_ok /\ R.fd_tension_ok /\ R.fd_bending_ok)
P_TermsActive == ~Lat => \A t \in Terms : R.terms[t].active \/ R.zero_ok[t]
=============================================================================
