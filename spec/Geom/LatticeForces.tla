----------------------------- MODULE LatticeForces -----------------------------
(***************************************************************************)
(* Internal forces of a cell on the integer lattice, where they are exact. *)
(* Property C02 (pressure and surface tension / area elasticity; bending   *)
(* and angle regularisation involve acos / cot and are only observed).     *)
(*   pressure:  F_i = P/6 * sum over triangles f containing i of A_f        *)
(*              A_f = (b-a) x (c-a)  (integer area vector)                  *)
(*   volume:    d(6V)/dx_i = sum over triangles (i,j,k) of x_j x x_k        *)
(*   tension:   F_i = sum_f gamma_f/2 * n_f x (x_j - x_k), (i,j,k) = f      *)
(*              n_f = A_f/|A_f|: integer on meshes with integer-length A_f  *)
(***************************************************************************)
EXTENDS LatticeGeom

VAdd(x, y) == <<x[1]+y[1], x[2]+y[2], x[3]+y[3]>>
VScale(k, x) == <<k*x[1], k*x[2], k*x[3]>>
Zero3 == <<0, 0, 0>>
VSum(S, f(_)) == LET RECURSIVE G(_)
                     G(T) == IF T = {} THEN Zero3 ELSE LET x == CHOOSE y \in T : TRUE IN VAdd(f(x), G(T \ {x}))
                 IN G(S)
FacesAt(m, n) == {f \in Live(m) : n \in NodesOf(m.tri[f])}
\* the triangle f rotated so that node n comes first: <<n, j, k>>
From(t, n) == IF t[1] = n THEN t ELSE IF t[2] = n THEN <<t[2], t[3], t[1]>> ELSE <<t[3], t[1], t[2]>>

PressF6(m, pos, n) == VSum(FacesAt(m, n), LAMBDA f : AVec(m, pos, f))                         \* = 6 F_n / P
DVol6(m, pos, n)   == VSum(FacesAt(m, n), LAMBDA f : LET t == From(m.tri[f], n) IN Cross(P(pos, t[2]), P(pos, t[3])))   \* d(6V)/dx_n
UnitNormal(m, pos, f) == LET a == AVec(m, pos, f)  l == ISqrt(Dot(a, a)) IN <<a[1] \div l, a[2] \div l, a[3] \div l>>
ExactUnitNormals(m, pos) == IntegerNormals(m, pos) /\ \A f \in Live(m) : LET a == AVec(m, pos, f)  l == ISqrt(Dot(a, a)) IN a[1] % l = 0 /\ a[2] % l = 0 /\ a[3] % l = 0
TensF2(m, pos, gamma, n) == VSum(FacesAt(m, n), LAMBDA f : LET t == From(m.tri[f], n)
                                                         IN VScale(gamma[m.ftype[f] + 1], Cross(UnitNormal(m, pos, f), Sub(P(pos, t[2]), P(pos, t[3])))))   \* = 2 F_n

NetZero(m, F(_)) == VSum(m.used, F) = Zero3
TorqueZero(m, pos, F(_)) == VSum(m.used, LAMBDA n : Cross(P(pos, n), F(n))) = Zero3
=============================================================================
