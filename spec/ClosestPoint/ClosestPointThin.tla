------------------------- MODULE ClosestPointThin -------------------------
(***************************************************************************)
(* Thin (needle / flat) triangles for the point-to-triangle kernel (C05).  *)
(* The lattice box of ClosestPointMC contains acute, right and obtuse      *)
(* triangles but no slivers: the kernel's intermediate quantities grow     *)
(* like L^4 and leave TLC's 32-bit integers long before a triangle gets    *)
(* thin.  For a query point whose projection falls INSIDE a triangle lying *)
(* in the plane z = 0 the answer needs no such quantities:                 *)
(*     closest point = (x, y, 0),  d^2 = h^2,                              *)
(*     barycentrics = the 2-D area coordinates of (x, y),                  *)
(* all of size L*K.  This module enumerates such cases for aspect ratios   *)
(* L/K up to 2^15 (sin^2 of the sharp angle down to 1e-9), states the      *)
(* contract on them, and proves on the small members of the family that    *)
(* the formula agrees with the transcribed kernel of ClosestPoint.         *)
(***************************************************************************)
EXTENDS ClosestPoint
CONSTANTS Ls,        \* lengths of the long side
          K          \* length of the short side
VARIABLES L, shape, p, a, b, c, out
tvars == <<L, shape, p, a, b, c, out>>

Shapes == {"needleA", "needleB", "needleC", "flatA", "flatB"}
\* the triangle (in the plane z = 0) as <<A, B, C>>; the sharp / flat corner is named by the shape
Tri(s, l) ==
  CASE s = "needleA" -> << <<0, 0, 0>>, <<l, 0, 0>>, <<l, K, 0>> >>          \* sharp angle at a
    [] s = "needleB" -> << <<l, K, 0>>, <<0, 0, 0>>, <<l, 0, 0>> >>          \* sharp angle at b
    [] s = "needleC" -> << <<l, 0, 0>>, <<l, K, 0>>, <<0, 0, 0>> >>          \* sharp angle at c
    [] s = "flatA"   -> << <<0, 0, 0>>, <<l, K, 0>>, <<-l, K, 0>> >>         \* angle at a close to 180 degrees
    [] s = "flatB"   -> << <<l, K, 0>>, <<0, 0, 0>>, <<-l, K, 0>> >>         \* two sharp angles (at a and c), flat one at b

Cross2(u, v) == u[1] * v[2] - u[2] * v[1]
\* twice the signed areas of (P, Y, Z): the 2-D area coordinates of P in (X, Y, Z), over Cross2(Y - X, Z - X)
Area2D(q, t) == [ u |-> Cross2(Sub(t[2], q), Sub(t[3], q)), v |-> Cross2(Sub(t[3], q), Sub(t[1], q)),
                  w |-> Cross2(Sub(t[1], q), Sub(t[2], q)), den |-> Cross2(Sub(t[2], t[1]), Sub(t[3], t[1])) ]
Positive(r) == IF r.den < 0 THEN [u |-> -r.u, v |-> -r.v, w |-> -r.w, den |-> -r.den] ELSE r
Inside(q, t) == LET r == Positive(Area2D(q, t)) IN r.u > 0 /\ r.v > 0 /\ r.w > 0

\* query points: a few abscissae on every horizontal line y = 1 .. K-1 strictly inside, at several heights
Heights(l) == {0, 1, -3, l \div 7}
Xs(s, l, y) == LET lo == IF s \in {"flatA", "flatB"} THEN -((l * y) \div K) ELSE (l * y) \div K
                   hi == IF s \in {"flatA", "flatB"} THEN (l * y) \div K ELSE l
               IN {x \in {lo + 1, lo + 2, (lo + hi) \div 2, hi - 2, hi - 1} : TRUE}

Expected(q, h, t) == LET r == Positive(Area2D(q, t)) IN
    [reg |-> "IN", u |-> r.u, v |-> r.v, w |-> r.w, den |-> r.den, d2n |-> h * h, d2d |-> 1]

Init == /\ L \in Ls /\ shape \in Shapes
        /\ \E y \in 1..(K - 1) : \E x \in Xs(shape, L, y) : \E h \in Heights(L) :
              /\ Inside(<<x, y, 0>>, Tri(shape, L))
              /\ p = <<x, y, h>>
              /\ a = Tri(shape, L)[1] /\ b = Tri(shape, L)[2] /\ c = Tri(shape, L)[3]
              /\ out = Expected(<<x, y, 0>>, h, Tri(shape, L))
Next == UNCHANGED tvars
Spec == Init /\ [][Next]_tvars

\* ---- what TLC checks
\* the expected answer is a point of the triangle ...
ThinBary == out.den > 0 /\ out.u > 0 /\ out.v > 0 /\ out.w > 0 /\ out.u + out.v + out.w = out.den
\* ... it is the foot of the perpendicular from p (the triangle lies in z = 0 and (x, y) is inside it): nothing is closer
ThinFoot == a[3] = 0 /\ b[3] = 0 /\ c[3] = 0 /\ out.d2n = p[3] * p[3] /\ out.d2d = 1
\* ... and on the members of the family that fit into 32-bit arithmetic the formula is the answer of the transcribed kernel
\* (area coordinates reproduce the point: u*A + v*B + w*C = den*P, checked through the kernel's own reconstruction)
ThinAgreesWithKernel == L <= 8 => SameAnswer(out, Closest(p, a, b, c))
=============================================================================
