SPECIFICATION Spec
CONSTANTS
  InteriorRule = "sum"
  Ls = {8, 1024, 32768, 65536, 131072}
  K = 4
INVARIANTS ThinBary ThinFoot ThinAgreesWithKernel
CHECK_DEADLOCK FALSE
