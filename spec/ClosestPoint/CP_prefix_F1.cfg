SPECIFICATION Spec
CONSTANTS
  InteriorRule = "doubleA"
  BLo = 0
  BHi = 1
  TriLo = 0
  TriHi = 1
  PtLo <- Minus1
  PtHi = 2
  Shifts <- ShiftSet
  TriSel <- AllTris
INVARIANTS Contract RotInv TransInv TwentyFour
CHECK_DEADLOCK FALSE
