SPECIFICATION Spec
CONSTANTS
  InteriorRule = "doubleA"
  TriLo = 0
  TriHi = 1
  PtLo <- Minus1
  PtHi = 2
  Shifts <- ShiftSet
INVARIANTS Contract RotInv TransInv TwentyFour
CHECK_DEADLOCK FALSE
