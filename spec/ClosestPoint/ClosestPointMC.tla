-------------------------- MODULE ClosestPointMC --------------------------
(* Exhaustive enumeration of lattice cases; each case is one (initial) state carrying the answer
   of the transcribed kernel, so that TLC's state dump is the table of expected results that the
   conformance driver replays into the real function. *)
EXTENDS ClosestPoint
CONSTANTS BLo, BHi, TriLo, TriHi,   \* corner b ranges over BLo..BHi cubed, corner c over TriLo..TriHi cubed; a is the origin
          PtLo, PtHi,        \* query point ranges over PtLo..PtHi cubed
          Shifts,            \* lattice translations applied to the whole configuration
          TriSel(_, _)       \* further selection of the triangles (b, c) of the enumeration
VARIABLES p, a, b, c, out, kills
vars == <<p, a, b, c, out, kills>>

Cube(l, h) == (l..h) \X (l..h) \X (l..h)
\* canonical representatives: a = 0, and (b, c) ordered to halve the enumeration is NOT done on purpose:
\* the kernel treats the three corners asymmetrically
Init == /\ a = <<0, 0, 0>>
        /\ b \in Cube(BLo, BHi) /\ c \in Cube(TriLo, TriHi)
        /\ NonDegenerate(a, b, c) /\ TriSel(b, c)
        /\ p \in Cube(PtLo, PtHi)
        /\ out = Closest(p, a, b, c)
        /\ kills = Kills(p, a, b, c)     \* the guard conjuncts this case is decisive for
Next == UNCHANGED vars
Spec == Init /\ [][Next]_vars

Contract  == BaryOK(out) /\ Optimal(out, p, a, b, c) /\ DistOK(out, p, a, b, c)
RotInv    == \A g \in Rotations : SameAnswer(out, Closest(Rot(g, p), Rot(g, a), Rot(g, b), Rot(g, c)))
TransInv  == \A t \in Shifts : LET tt == <<t, 2*t, -t>> IN
                 SameAnswer(out, Closest(Add(p, tt), Add(a, tt), Add(b, tt), Add(c, tt)))
TwentyFour == Cardinality(Rotations) = 24
\* selections: the whole box, or (quick tier) a thin slice of it that still contains, for every guard conjunct of the
\* kernel that can matter, a case where it does (acute, right, and the three kinds of obtuse triangles)
AllTris(bb, cc) == TRUE
QuickTris(bb, cc) == \/ bb \in Cube(0, 1)
                     \/ (cc \in Cube(0, 1) /\ Dot(cc, cc) < Dot(bb, cc))       \* obtuse at C
Minus1 == -1
Minus2 == -2
ShiftSet == {-50, -7, 1, 3, 50}
=============================================================================
