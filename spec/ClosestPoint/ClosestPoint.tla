--------------------------- MODULE ClosestPoint ---------------------------
(***************************************************************************)
(* The point-to-triangle kernel of SimuCell3D                              *)
(* (contact_model_abstract::compute_node_triangle_distance, Ericson's      *)
(* closest-point-on-triangle), transcribed branch by branch over the       *)
(* integer lattice, where every predicate it evaluates is exact.           *)
(* Results are rationals: barycentrics <<u, v, w>> / den and d2 = n / m.   *)
(* Property C05.                                                           *)
(***************************************************************************)
EXTENDS Integers, Sequences, FiniteSets, TLC

CONSTANTS InteriorRule     \* "sum":     q = a + ab*v + ac*w        (the code after the fix of F1)
                           \* "doubleA": q = a + ab*v + a + ac*w    (the code before the fix)

V3 == Int \X Int \X Int
Sub(x, y) == <<x[1]-y[1], x[2]-y[2], x[3]-y[3]>>
Add(x, y) == <<x[1]+y[1], x[2]+y[2], x[3]+y[3]>>
Mul(k, x) == <<k*x[1], k*x[2], k*x[3]>>
Dot(x, y) == x[1]*y[1] + x[2]*y[2] + x[3]*y[3]
Cross(x, y) == <<x[2]*y[3]-x[3]*y[2], x[3]*y[1]-x[1]*y[3], x[1]*y[2]-x[2]*y[1]>>
Norm2(x) == Dot(x, x)
Abs(x) == IF x < 0 THEN -x ELSE x
RECURSIVE Gcd(_, _)
Gcd(x, y) == IF y = 0 THEN Abs(x) ELSE Gcd(y, x % y)

NonDegenerate(a, b, c) == Cross(Sub(b, a), Sub(c, a)) # <<0, 0, 0>>

(* The seven branches, in the order of the code.  Returns the region taken and the barycentric
   numerators over a common positive denominator. *)
RegionM(p, a, b, c, m) ==
  LET ab == Sub(b, a)  ac == Sub(c, a)  ap == Sub(p, a)
      d1 == Dot(ab, ap)  d2 == Dot(ac, ap)
      bp == Sub(p, b)
      d3 == Dot(ab, bp)  d4 == Dot(ac, bp)
      vc == d1*d4 - d3*d2
      cp == Sub(p, c)
      d5 == Dot(ab, cp)  d6 == Dot(ac, cp)
      vb == d5*d2 - d1*d6
      va == d3*d6 - d5*d4
      G(name, cond) == (m = name) \/ cond       \* the weakened kernel `m` drops exactly this conjunct
  IN  IF G("A.d1", d1 <= 0) /\ G("A.d2", d2 <= 0) THEN [reg |-> "A",  u |-> 1, v |-> 0, w |-> 0, den |-> 1]
      ELSE IF G("B.d3", d3 >= 0) /\ G("B.d4", d4 <= d3) THEN [reg |-> "B",  u |-> 0, v |-> 1, w |-> 0, den |-> 1]
      ELSE IF G("AB.vc", vc <= 0) /\ G("AB.d1", d1 >= 0) /\ G("AB.d3", d3 <= 0)
           THEN [reg |-> "AB", u |-> -d3, v |-> d1, w |-> 0, den |-> d1 - d3]
      ELSE IF G("C.d6", d6 >= 0) /\ G("C.d5", d5 <= d6) THEN [reg |-> "C",  u |-> 0, v |-> 0, w |-> 1, den |-> 1]
      ELSE IF G("AC.vb", vb <= 0) /\ G("AC.d2", d2 >= 0) /\ G("AC.d6", d6 <= 0)
           THEN [reg |-> "AC", u |-> -d6, v |-> 0, w |-> d2, den |-> d2 - d6]
      ELSE IF G("BC.va", va <= 0) /\ G("BC.d43", (d4 - d3) >= 0) /\ G("BC.d56", (d5 - d6) >= 0)
           THEN [reg |-> "BC", u |-> 0, v |-> d5 - d6, w |-> d4 - d3, den |-> (d4 - d3) + (d5 - d6)]
      ELSE [reg |-> "IN", u |-> va, v |-> vb, w |-> vc, den |-> va + vb + vc]
Region(p, a, b, c) == RegionM(p, a, b, c, "none")

(* Every guard conjunct of the kernel, by name.  RegionM(.., m) is the kernel with conjunct m dropped: the seventeen
   single-conjunct weakenings.  The enumeration of ClosestPointMC is adequate only if it contains, for each of them,
   a case on which the weakened kernel answers differently (see `kills` in ClosestPointMC). *)
Conjuncts == {"A.d1", "A.d2", "B.d3", "B.d4", "AB.vc", "AB.d1", "AB.d3", "C.d6", "C.d5",
              "AC.vb", "AC.d2", "AC.d6", "BC.va", "BC.d43", "BC.d56"}
\* the answer of a weakened kernel as a point (den may be 0 or negative there: compare cross-multiplied)
SamePoint(r1, r2) == /\ r1.u * r2.den = r2.u * r1.den /\ r1.v * r2.den = r2.v * r1.den /\ r1.w * r2.den = r2.w * r1.den
                     /\ (r1.den = 0) = (r2.den = 0)
Kills(p, a, b, c) == {m \in Conjuncts : ~SamePoint(RegionM(p, a, b, c, m), Region(p, a, b, c))}

Reduce(r) == LET g == Gcd(Gcd(r.u, r.v), Gcd(r.w, r.den))
             IN [reg |-> r.reg, u |-> r.u \div g, v |-> r.v \div g, w |-> r.w \div g, den |-> r.den \div g]

\* den * (closest point) as the code reconstructs it
QScaled(r, a, b, c) ==
   IF r.reg = "IN" /\ InteriorRule = "doubleA"
   THEN \* a + ab*v + a + ac*w  =  (2*den - v - w) a + v b + w c   over den
        Add(Add(Mul(2*r.den - r.v - r.w, a), Mul(r.v, b)), Mul(r.w, c))
   ELSE Add(Add(Mul(r.u, a), Mul(r.v, b)), Mul(r.w, c))

\* the squared distance the code returns: |p - q|^2 with q as reconstructed, = num / den^2
Closest(p, a, b, c) ==
   LET r == Reduce(Region(p, a, b, c))
       q == QScaled(r, a, b, c)
       n == Norm2(Sub(Mul(r.den, p), q))
       m == r.den * r.den
       g == Gcd(n, m)
   IN [reg |-> r.reg, u |-> r.u, v |-> r.v, w |-> r.w, den |-> r.den, d2n |-> n \div g, d2d |-> m \div g]

---------------------------------------------------------------------------
(* The contract of the kernel (property C05) for one case *)
BaryOK(r) == r.den > 0 /\ r.u >= 0 /\ r.v >= 0 /\ r.w >= 0 /\ r.u + r.v + r.w = r.den
\* q is the point of the (convex) triangle nearest to p  <=>  (p - q).(x - q) <= 0 for the three corners
Optimal(r, p, a, b, c) ==
   LET q == Add(Add(Mul(r.u, a), Mul(r.v, b)), Mul(r.w, c))      \* den * q
       pq == Sub(Mul(r.den, p), q)
   IN \A x \in {a, b, c} : Dot(pq, Sub(Mul(r.den, x), q)) <= 0
DistOK(r, p, a, b, c) ==
   LET q == Add(Add(Mul(r.u, a), Mul(r.v, b)), Mul(r.w, c))
   IN r.d2n * (r.den * r.den) = r.d2d * Norm2(Sub(Mul(r.den, p), q))
SameAnswer(r1, r2) == /\ r1.u * r2.den = r2.u * r1.den /\ r1.v * r2.den = r2.v * r1.den
                      /\ r1.w * r2.den = r2.w * r1.den /\ r1.d2n * r2.d2d = r2.d2n * r1.d2d

\* the 24 rotations of the cube as signed permutation matrices of determinant +1
Perms == {<<1,2,3>>, <<2,3,1>>, <<3,1,2>>, <<1,3,2>>, <<3,2,1>>, <<2,1,3>>}
Even(pi) == pi \in {<<1,2,3>>, <<2,3,1>>, <<3,1,2>>}
Signs == {<<e1, e2, e3>> : e1 \in {-1, 1}, e2 \in {-1, 1}, e3 \in {-1, 1}}
Rotations == {<<pi, sg>> \in Perms \X Signs :
                 (sg[1]*sg[2]*sg[3] = 1) <=> Even(pi)}
Rot(g, x) == <<g[2][1]*x[g[1][1]], g[2][2]*x[g[1][2]], g[2][3]*x[g[1][3]]>>
=============================================================================
