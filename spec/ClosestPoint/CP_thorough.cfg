SPECIFICATION Spec
CONSTANTS
  InteriorRule = "sum"
  BLo <- Minus1
  BHi = 2
  TriLo <- Minus1
  TriHi = 2
  PtLo <- Minus1
  PtHi = 3
  Shifts <- ShiftSet
  TriSel <- AllTris
INVARIANTS Contract RotInv TransInv TwentyFour
CHECK_DEADLOCK FALSE
