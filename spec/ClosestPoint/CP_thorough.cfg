SPECIFICATION Spec
CONSTANTS
  InteriorRule = "sum"
  TriLo = 0
  TriHi = 2
  PtLo <- Minus1
  PtHi = 3
  Shifts <- ShiftSet
INVARIANTS Contract RotInv TransInv TwentyFour
CHECK_DEADLOCK FALSE
