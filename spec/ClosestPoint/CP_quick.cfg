SPECIFICATION Spec
CONSTANTS
  InteriorRule = "sum"
  BLo = 0
  BHi = 2
  TriLo <- Minus1
  TriHi = 2
  PtLo <- Minus1
  PtHi = 2
  Shifts <- ShiftSet
  TriSel <- QuickTris
INVARIANTS Contract RotInv TransInv TwentyFour
CHECK_DEADLOCK FALSE
