SPECIFICATION TSpec
INVARIANTS P_DeclaredBoxContainsNodes P_NodesRetrievable P_GridNotTrivial
CHECK_DEADLOCK FALSE
