SPECIFICATION Spec
CONSTANTS
  LoX <- QLoX
  ExtX <- QExtX
  LoY = {0}
  ExtY = {1, 3}
  LoZ = {0}
  ExtZ = {2}
  Sizes = {1, 2, 3}
  Regimes <- AllRegimes
  MaxObj = 1
  IdxRule = "clamp"
INVARIANTS InRange Retrievable Neighbourhood Neighbourhood3 ContentOnce FlatInjective FlatInRange
CHECK_DEADLOCK FALSE
