------------------------------ MODULE GridMC ------------------------------
EXTENDS Grid
\* model values for the configurations (negative literals are not allowed in .cfg files)
QLoX  == {-3, 0, 2}
QExtX == {1, 2, 4, 6}
TLoX  == -4..4
TExtX == 1..7
PLoX == {-1, 0}
AllRegimes == {<<1,1>>, <<0,0>>, <<1,0>>}
=============================================================================
