----------------------------- MODULE GridTrace -----------------------------
(***************************************************************************)
(* Conformance of the real uspg_3d / uspg_4d with Grid: every record of   *)
(* the observation log written by harness/drivers/grid_driver.cpp is one  *)
(* initial state; the invariants compare what the implementation answered *)
(* with the specification.                                                *)
(*   P_*  : the property (C20) evaluated on the implementation's answers  *)
(*   D_*  : the implementation follows the design of Grid exactly         *)
(***************************************************************************)
EXTENDS Grid, Json, IOUtils

Obs == ndJsonDeserialize(IOEnv.OBS)
VARIABLE k
tvars == <<vars, k>>
R == Obs[k]

TInit == /\ k \in 1..Len(Obs)
         /\ lo = Obs[k].lo /\ hi = Obs[k].hi /\ s = Obs[k].s /\ reg = Obs[k].reg
         /\ objs = Obs[k].objs
TSpec == TInit /\ [][UNCHANGED tvars]_tvars

Pts == 1..Len(R.pts)
ToSet(q) == {q[i] : i \in 1..Len(q)}
Count(q, x) == Cardinality({i \in 1..Len(q) : q[i] = x})
PtOf(i) == CHOOSE j \in Pts : R.pts[j].p = objs[i]

\* ---- the property on the implementation's own answers
P_InRange == /\ R.oob = <<>>
             /\ \A j \in Pts : R.pts[j].in
             /\ \A j \in Pts : \A ax \in Axes : R.pts[j].v[ax] < R.nb[ax] /\ R.pts[j].v3[ax] < R.nb3[ax]
P_Retrievable == \A i \in 1..Len(objs) :
                    /\ Count(R.pts[PtOf(i)].c4, i) = 1
                    /\ (\A i2 \in i+1..Len(objs) : R.pts[PtOf(i2)].v3 # R.pts[PtOf(i)].v3)
                          => R.pts[PtOf(i)].c3 = i
\* Embeddings whose unit is not a power of two round every coordinate: there a distance of EXACTLY one voxel size is decided by
\* rounding, so only objects strictly closer are demanded, and the exact design (D_*) is not compared.
Exact == R.exact
NearX(p) == IF Exact THEN Near(p) ELSE {i \in 1..Len(objs) : Linf(objs[i], p) < s}
P_Neighbourhood == \A j \in Pts : NearX(R.pts[j].p) \subseteq ToSet(R.pts[j].n4)
P_Neighbourhood3 == \A j \in Pts : \A i \in NearX(R.pts[j].p) :
                       (R.pts[PtOf(i)].c3 = i) => i \in ToSet(R.pts[j].n3)
P_ContentOnce == /\ R.g4 = [i \in 1..Len(objs) |-> i]
                 /\ \A i \in 1..Len(objs) : Count(R.g3, i) <= 1
                 /\ \A i \in 1..Len(objs) : (R.pts[PtOf(i)].c3 = i) <=> Count(R.g3, i) = 1
\* a grid re-used through update_dimensions (as the contact models re-use theirs at every iteration) answers like a fresh one
P_Reuse == R.reuse_same
\* objects are stored by value: a structured element read back from a voxel is, field by field, the one that was placed
P_StructRetrievable == R.struct_same
\* a neighbourhood only ever returns stored objects, each once
P_NbhdSound == \A j \in Pts : \A i \in ToSet(R.pts[j].n4) : i \in 1..Len(objs) /\ Count(R.pts[j].n4, i) = 1

\* ---- the design: exact agreement with Grid
D_Nb  == Exact => R.nb = <<Nb(1), Nb(2), Nb(3)>> /\ R.nb3 = R.nb
D_Idx == Exact => \A j \in Pts : R.pts[j].v = Vox(R.pts[j].p) /\ R.pts[j].v3 = R.pts[j].v
D_Content == Exact => \A j \in Pts : /\ R.pts[j].c4 = Content4(Vox(R.pts[j].p), Len(objs))
                            /\ R.pts[j].c3 = Content3(Vox(R.pts[j].p))
D_Nbhd == Exact => \A j \in Pts : /\ ToSet(R.pts[j].n4) = Nbhd4(R.pts[j].p)
                         /\ ToSet(R.pts[j].n3) = Nbhd3(R.pts[j].p)
=============================================================================
