SPECIFICATION Spec
CONSTANTS
  LoX <- TLoX
  ExtX <- TExtX
  LoY = {0}
  ExtY = {2, 3}
  LoZ = {0}
  ExtZ = {2, 4}
  Sizes = {1, 2, 3, 4}
  Regimes <- AllRegimes
  MaxObj = 2
  IdxRule = "clamp"
INVARIANTS InRange Retrievable Neighbourhood Neighbourhood3 ContentOnce FlatInjective FlatInRange
CHECK_DEADLOCK FALSE
