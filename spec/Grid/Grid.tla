------------------------------- MODULE Grid -------------------------------
(***************************************************************************)
(* Uniform space partitioning grids of SimuCell3D (include/uspg/*.hpp):    *)
(* uspg_4d (a list of objects per voxel) and uspg_3d (one object per       *)
(* voxel, last write wins).  Property C20.                                 *)
(*                                                                         *)
(* Lattice world.  Every coordinate is an integer number of lattice units; *)
(* inside the spec it is stored doubled (D(v) = 2v), so that "+1" is an    *)
(* infinitesimal epsilon that survives a floating point addition and "+0"  *)
(* is an epsilon that is absorbed by rounding.  update_dimensions adds     *)
(* std::numeric_limits<double>::epsilon() to the maximum corner and        *)
(* subtracts it from the minimum corner: whether it survives depends only  *)
(* on the magnitude of the coordinate, which the regime  reg = <<dmin,     *)
(* dmax>>  records:                                                        *)
(*   <<1,1>>  micrometre-in-metres coordinates (|x| << 1): epsilon survives*)
(*   <<0,0>>  |x| >= 8: epsilon is absorbed on both corners                *)
(*   <<1,0>>  box starting at 0 and ending at an integer >= 2              *)
(***************************************************************************)
EXTENDS Integers, Sequences, FiniteSets, TLC

CONSTANTS
    LoX, ExtX,        \* candidate minimum corners / extents of the x axis
    LoY, ExtY,        \* same for y
    LoZ, ExtZ,        \* same for z
    Sizes,            \* candidate voxel sizes (lattice units)
    Regimes,          \* subset of {<<1,1>>, <<0,0>>, <<1,0>>}
    MaxObj,           \* number of objects placed
    IdxRule           \* "floor": index = floor((p - origin)/size)          (the code before the fix of F6)
                      \* "clamp": index = min(floor((p - origin)/size), nb-1)  (the code after the fix)

VARIABLES lo, hi, s, reg, objs
vars == <<lo, hi, s, reg, objs>>

Axes == 1..3
D(v) == 2 * v

Origin(ax)  == D(lo[ax]) - reg[1]
CeilDiv(a, b) == (a + b - 1) \div b
Nb(ax) == CeilDiv(D(hi[ax]) + reg[2] - D(lo[ax]), D(s))    \* ceil((max + eps - min) / size)
Min2(a, b) == IF a < b THEN a ELSE b
Idx(ax, p)  == IF IdxRule = "floor" THEN (D(p) - Origin(ax)) \div D(s)
               ELSE Min2((D(p) - Origin(ax)) \div D(s), Nb(ax) - 1)

Box     == (lo[1]..hi[1]) \X (lo[2]..hi[2]) \X (lo[3]..hi[3])
Vox(p)  == <<Idx(1, p[1]), Idx(2, p[2]), Idx(3, p[3])>>
Voxels  == (0..Nb(1)-1) \X (0..Nb(2)-1) \X (0..Nb(3)-1)
Flat(v) == v[3] * Nb(1) * Nb(2) + v[2] * Nb(1) + v[1]

\* uspg_4d: objects of a voxel, most recently placed first (push_front)
RECURSIVE Content4(_, _)
Content4(v, n) == IF n = 0 THEN <<>>
                  ELSE IF Vox(objs[n]) = v THEN <<n>> \o Content4(v, n - 1)
                                           ELSE Content4(v, n - 1)
\* uspg_3d: the last object written to the voxel, 0 if none
Content3(v) == LET c == Content4(v, Len(objs)) IN IF c = <<>> THEN 0 ELSE c[1]

Abs(x) == IF x < 0 THEN -x ELSE x
Clip(i, n) == {j \in i-1..i+1 : j >= 0 /\ j < n}
NbhdVox(v) == Clip(v[1], Nb(1)) \X Clip(v[2], Nb(2)) \X Clip(v[3], Nb(3))
Nbhd4(p) == {i \in 1..Len(objs) : Vox(objs[i]) \in NbhdVox(Vox(p))}
Nbhd3(p) == {Content3(v) : v \in NbhdVox(Vox(p))} \ {0}
Linf(p, q) == LET a == Abs(p[1]-q[1]) b == Abs(p[2]-q[2]) c == Abs(p[3]-q[3])
              IN IF a >= b /\ a >= c THEN a ELSE IF b >= c THEN b ELSE c
Near(p)  == {i \in 1..Len(objs) : Linf(objs[i], p) <= s}

\* What the conformance driver compares with the implementation
Observe == [ nb   |-> <<Nb(1), Nb(2), Nb(3)>>,
             idx  |-> [p \in Box |-> Vox(p)],
             c4   |-> [v \in Voxels |-> Content4(v, Len(objs))],
             c3   |-> [v \in Voxels |-> Content3(v)],
             near |-> [p \in Box |-> Near(p)] ]

Init == /\ lo \in LoX \X LoY \X LoZ
        /\ \E e \in ExtX \X ExtY \X ExtZ : hi = <<lo[1]+e[1], lo[2]+e[2], lo[3]+e[3]>>
        /\ s \in Sizes
        /\ reg \in Regimes
        /\ (reg = <<1,0>> => \A ax \in Axes : lo[ax] = 0 /\ hi[ax] >= 2)
        /\ objs = <<>>

Place(p) == /\ Len(objs) < MaxObj
            /\ objs' = Append(objs, p)
            /\ UNCHANGED <<lo, hi, s, reg>>

Next == \E p \in Box : Place(p)
Spec == Init /\ [][Next]_vars

---------------------------------------------------------------------------
(* Property C20, literally *)
InRange == \A ax \in Axes : \A p \in lo[ax]..hi[ax] : Idx(ax, p) >= 0 /\ Idx(ax, p) < Nb(ax)
Retrievable == \A i \in 1..Len(objs) :
                  /\ \E k \in 1..Len(Content4(Vox(objs[i]), Len(objs))) :
                         Content4(Vox(objs[i]), Len(objs))[k] = i
                  /\ Content3(Vox(objs[i])) >= i     \* the voxel holds it or a later write
Neighbourhood == \A p \in Box : Near(p) \subseteq Nbhd4(p)
Neighbourhood3 == \A p \in Box : \A i \in Near(p) :
                     Content3(Vox(objs[i])) \in Nbhd3(p)
ContentOnce == \A i \in 1..Len(objs) :
                  Cardinality({v \in Voxels : \E k \in 1..Len(Content4(v, Len(objs))) :
                                                  Content4(v, Len(objs))[k] = i}) = 1
FlatInjective == \A v, w \in Voxels : Flat(v) = Flat(w) => v = w
FlatInRange   == \A v \in Voxels : Flat(v) < Nb(1) * Nb(2) * Nb(3)
=============================================================================
