SPECIFICATION Spec
CONSTANTS
  LoX <- PLoX
  ExtX = {1, 2, 3}
  LoY = {0}
  ExtY = {1}
  LoZ = {0}
  ExtZ = {2}
  Sizes = {1, 2}
  Regimes <- AllRegimes
  MaxObj = 2
  IdxRule = "clamp"
INVARIANTS InRange Retrievable Neighbourhood Neighbourhood3 ContentOnce FlatInjective FlatInRange
CHECK_DEADLOCK FALSE
