---------------------------- MODULE PolarGridTrace ----------------------------
(* spec/Grid states what a grid owes to points INSIDE its declared box (InRange, Retrievable).  The automatic polarizer is the
   caller that declares the box from the nodes it is about to store (automatic_polarizer::update_grid_dimensions): the other half
   of the contract is that this box contains every one of those nodes, whatever the order in which the nodes are listed.  One
   record per real update_grid_dimensions / mark_boundary_voxels call on an elongated cell (harness/drivers/polar_grid_driver). *)
EXTENDS Naturals, Sequences, Json, IOUtils, TLC
Log == ndJsonDeserialize(IOEnv.OBS)
VARIABLE k
R == Log[k]
TInit == k \in 1..Len(Log)
TSpec == TInit /\ [][UNCHANGED k]_k
P_DeclaredBoxContainsNodes == R.in_box /\ R.raw_ok
P_NodesRetrievable == R.retrievable
P_GridNotTrivial == R.nb[1] * R.nb[2] * R.nb[3] > 1
=============================================================================
