SPECIFICATION TSpec
CONSTANTS
  LoX = {0}
  ExtX = {1}
  LoY = {0}
  ExtY = {1}
  LoZ = {0}
  ExtZ = {1}
  Sizes = {1}
  Regimes = {}
  MaxObj = 0
  IdxRule = "clamp"
INVARIANTS P_InRange P_Retrievable P_Neighbourhood P_Neighbourhood3 P_ContentOnce P_NbhdSound P_Reuse P_StructRetrievable D_Nb D_Idx D_Content D_Nbhd
CHECK_DEADLOCK FALSE
