------------------------------- MODULE MeshCut -------------------------------
(***************************************************************************)
(* The topology of a cell division (cell_divider: add_intersection_points, *)
(* divide_faces, triangulate_division_interface, create_daughter_cells) as *)
(* an operator on Mesh: a plane separates the nodes of the mother into two *)
(* sides; every edge with its end points on different sides receives a new *)
(* node; every crossed triangle (one node on one side, two on the other)   *)
(* is divided into a triangle and a quadrilateral (two triangles); each    *)
(* half is closed by a disc over the ring of new nodes (here a fan around  *)
(* one centre node: the real interface is a Delaunay triangulation with    *)
(* interior sample points, topologically also a disc), wound opposite in   *)
(* the two daughters.  Property C09, topological part: both daughters are  *)
(* closed, consistently oriented 2-manifolds exactly when the ring is a    *)
(* single cycle, i.e. when both sides of the plane are connected.          *)
(***************************************************************************)
EXTENDS Mesh

\* ---- the cut edges and their new nodes
CutEdges(m, side) == {e \in UEdges(m) : \E x, y \in e : side[x] # side[y]}
\* new node of a cut edge: slots above the mother's, in the order of the (min, max) pairs; the centre node comes last
MinOfE(e) == CHOOSE x \in e : \A y \in e : x <= y
MaxOfE(e) == CHOOSE x \in e : \A y \in e : x >= y
Rank(m, side, e) == Cardinality({f \in CutEdges(m, side) : MinOfE(f) * (m.nslots + 1) + MaxOfE(f) < MinOfE(e) * (m.nslots + 1) + MaxOfE(e)})
NewNode(m, side, x, y) == m.nslots + Rank(m, side, {x, y})
Centre(m, side) == m.nslots + Cardinality(CutEdges(m, side))

Crossed(m, side, f) == \E i, j \in 1..3 : side[m.tri[f][i]] # side[m.tri[f][j]]
\* the crossed triangle rotated so that its lone node comes first
Lone(m, side, f) == LET t == m.tri[f] IN
    IF side[t[1]] # side[t[2]] /\ side[t[1]] # side[t[3]] THEN t
    ELSE IF side[t[2]] # side[t[1]] /\ side[t[2]] # side[t[3]] THEN <<t[2], t[3], t[1]>>
    ELSE <<t[3], t[1], t[2]>>

\* triangles of daughter s: untouched triangles of its side, pieces of the crossed triangles, the cap
Pieces(m, side, s) ==
    LET cr == {f \in Live(m) : Crossed(m, side, f)}
        whole == {m.tri[f] : f \in {g \in Live(m) \ cr : side[m.tri[g][1]] = s}}
        part(f) == LET t == Lone(m, side, f)
                       A == NewNode(m, side, t[1], t[2])
                       B == NewNode(m, side, t[1], t[3])
                       C == Centre(m, side)
                   IN IF side[t[1]] = s
                      THEN { <<t[1], A, B>>, <<B, A, C>> }                            \* the corner and its cap triangle (rim traversed B -> A)
                      ELSE { <<A, t[2], t[3]>>, <<A, t[3], B>>, <<A, B, C>> }         \* the quadrilateral and its cap triangle (rim traversed A -> B)
    IN whole \cup UNION {part(f) : f \in cr}

\* a set of triangles as a Mesh record (slots of the triangles in an arbitrary but fixed order)
SetToSeq(S) == LET RECURSIVE F(_)
                   F(T) == IF T = {} THEN <<>> ELSE LET x == CHOOSE y \in T : TRUE IN <<x>> \o F(T \ {x})
               IN F(S)
Daughter(m, side, s) ==
    LET ts == SetToSeq(Pieces(m, side, s))
        n  == Centre(m, side) + 1
        us == UNION {NodesOf(ts[i]) : i \in 1..Len(ts)}
    IN [ nslots |-> n, fslots |-> Len(ts), used |-> us,
         tri |-> [f \in 0..(Len(ts) - 1) |-> ts[f + 1]], ftype |-> [f \in 0..(Len(ts) - 1) |-> 0], nrm |-> [f \in 0..(Len(ts) - 1) |-> TRUE],
         freeN |-> SetToSeq((0..(n - 1)) \ us), freeF |-> <<>> ]

\* connectivity of one side of the plane in the mother's edge graph
RECURSIVE Reach(_, _, _, _)
Reach(m, side, s, S) == LET T == S \cup {y \in m.used : side[y] = s /\ \E x \in S : {x, y} \in UEdges(m)}
                        IN IF T = S THEN S ELSE Reach(m, side, s, T)
SideConnected(m, side, s) == LET ns == {x \in m.used : side[x] = s}
                             IN ns # {} /\ Reach(m, side, s, {CHOOSE x \in ns : TRUE}) = ns
Admissible(m, side) == SideConnected(m, side, 0) /\ SideConnected(m, side, 1)
=============================================================================
