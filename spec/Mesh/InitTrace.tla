------------------------------- MODULE InitTrace -------------------------------
(***************************************************************************)
(* C13: the initialisation protocol of simulation_initializer::            *)
(* triangulate_surface and the cell it hands to the solver.                *)
(*                                                                         *)
(* Protocol (also a tiny state machine checked on its own below): attempts *)
(* are numbered 0, 1, ...; each one ends 'failed' or 'accepted'; nothing   *)
(* follows an accepted attempt; after the tenth failure the initialisation *)
(* gives up with an intialization_exception; a cell is handed over only    *)
(* after an accepted attempt.  The handed cell must satisfy every C01      *)
(* predicate of Mesh.                                                      *)
(* One record per run (harness/drivers/init_driver.cpp, hook H8).          *)
(***************************************************************************)
EXTENDS Mesh, Json, IOUtils
Log == ndJsonDeserialize(IOEnv.OBS)
VARIABLES k, m
R == Log[k]
ToSet(q) == {q[i] : i \in 1..Len(q)}
FromJson(j) == [ nslots |-> j.nslots, fslots |-> j.fslots, used |-> ToSet(j.used),
                 tri   |-> [f \in 0..(j.fslots - 1) |-> j.tri[f + 1]],
                 ftype |-> [f \in 0..(j.fslots - 1) |-> j.ftype[f + 1]],
                 nrm   |-> [f \in 0..(j.fslots - 1) |-> j.nrm[f + 1]],
                 freeN |-> j.freeN, freeF |-> j.freeF ]
Empty == [nslots |-> 0, fslots |-> 0, used |-> {}, tri |-> <<>>, ftype |-> <<>>, nrm |-> <<>>, freeN |-> <<>>, freeF |-> <<>>]
TInit == /\ k \in 1..Len(Log)
         /\ m = IF Log[k].handed THEN FromJson(Log[k].mesh) ELSE Empty
TSpec == TInit /\ [][UNCHANGED <<k, m>>]_<<k, m>>
MaxTries == 10
A == R.attempts
N == Len(A)
P_Protocol ==
    /\ N >= 1 /\ N <= MaxTries
    /\ \A i \in 1..N : A[i].i = i - 1 /\ A[i].result \in {"failed", "accepted"}
    /\ \A i \in 1..(N - 1) : A[i].result = "failed"                       \* nothing follows an accepted attempt
    /\ (A[N].result = "accepted") <=> (R.outcome = "completed")
    /\ (A[N].result = "failed") => (N = MaxTries /\ R.outcome = "initialization_exception")   \* gives up after the tenth failure, by that exception
    /\ R.handed <=> (R.outcome = "completed")
P_HandedIsManifold == R.handed => (WellFormed(m) /\ NormalSide(m) /\ R.outward /\ R.ids_ok /\ R.same_object)
EdgeIndexOK == LET real == {<<e[1], e[2], {e[3], e[4]}>> : e \in ToSet(R.eset)}
                   Lo(e) == CHOOSE x \in e : \A y \in e : x <= y
                   Hi(e) == CHOOSE x \in e : \A y \in e : x >= y
                   want == {<<Lo(e), Hi(e), FacesOn(m, Lo(e), Hi(e))>> : e \in UEdges(m)}
               IN real = want
P_HandedEdgeIndex == (R.handed /\ NoRepeat(m) /\ LiveNodes(m)) => EdgeIndexOK
\* faithful to a closed input: volume, bounding box, nodes on the input surface (resolution dependent tolerances, evaluated by the driver)
P_Faithful == (R.handed /\ R.closed_input) => (R.vol_close /\ R.bbox_close /\ R.on_surface /\ R.reported_vol_ok)
P_PoissonSpacing == \A i \in 1..Len(R.spacing_ok) : R.spacing_ok[i]
=============================================================================
