SPECIFICATION TSpec
CONSTANTS
  SwapRefreshesNormals = TRUE
  MergeKeepsFourNodes = TRUE
INVARIANTS N_Momentum N_Survivors N_Midpoint N_Labels N_Selective N_VolArea N_Idempotent N_Bounded P_NoThrow P_NoRepeat P_LiveNodes P_Closed P_Euler P_Simple P_Bookkeeping P_EdgeIndex P_NormalSide P_Outward P_Rebase D_Guard D_Step D_Args
CHECK_DEADLOCK FALSE
