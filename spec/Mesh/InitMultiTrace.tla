---------------------------- MODULE InitMultiTrace ----------------------------
(* C13 for tissues of several cells triangulated in parallel: a cell that cannot be triangulated (at any list position, met by any
   thread) makes the initialisation fail with the initialisation exception -- it is never dropped or handed over as a null / empty
   cell; a tissue of good cells comes back complete.  Records written by init_driver multi (run with four threads). *)
EXTENDS Integers, Sequences, Json, IOUtils
Obs == ndJsonDeserialize(IOEnv.OBS)
VARIABLE k
R == Obs[k]
TInit == k \in 1..Len(Obs)
TSpec == TInit /\ [][UNCHANGED k]_k
P_FailureReported == R.bad_position >= 0 => R.outcome = "initialization_exception"
P_GoodTissueComplete == R.bad_position < 0 => (R.outcome = "completed" /\ R.nreturned = 4)
P_NothingHalfHanded == R.nnull = 0 /\ R.ninvalid = 0
=============================================================================
