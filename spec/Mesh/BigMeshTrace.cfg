SPECIFICATION TSpec
INVARIANTS P_BigNoError P_BigManifold P_BigEdgeIndex P_BigNormals P_BigIsBig
CHECK_DEADLOCK FALSE
