-------------------------------- MODULE Mesh --------------------------------
(***************************************************************************)
(* The triangulated surface of one SimuCell3D cell and the local remeshing *)
(* operations applied to it (src/mesh/cell.cpp, src/triangulation_modules/ *)
(* local_mesh_refiner.cpp).  Properties C01 (and the topological half of   *)
(* C09, C11, C12, C13).                                                    *)
(*                                                                         *)
(* A mesh is a record                                                      *)
(*   nslots, fslots : sizes of node_lst_ / face_lst_                       *)
(*   used   : set of node slots with is_used_                              *)
(*   tri    : [0..fslots-1 -> <<n1,n2,n3>>]  (<<>> for a free slot)        *)
(*   ftype  : [0..fslots-1 -> face type id]                                *)
(*   nrm    : [0..fslots-1 -> BOOLEAN]  cached normal_ lies on the side    *)
(*            given by the winding (right-hand rule)                       *)
(*   freeN, freeF : free_node_queue_ / free_face_queue_ (popped at back)   *)
(* The edge index (edge_set_) is not a component: the property demands     *)
(* that it equals what can be recomputed from tri, so the specification    *)
(* recomputes it and the conformance check compares the real edge_set_     *)
(* with the recomputation.                                                 *)
(*                                                                         *)
(* Every operation is a function  mesh -> mesh  written in the order of    *)
(* the code's sub-steps, so that slot allocation is predicted exactly.     *)
(* Which of the two faces of an edge the code calls f1 (edge::f1()) is an  *)
(* argument: the specification allows both orders.                         *)
(***************************************************************************)
EXTENDS Integers, Sequences, FiniteSets, TLC

CONSTANTS MergeKeepsFourNodes,   \* TRUE: can_be_merged refuses to collapse an edge of a mesh with only four nodes
                                 \*       (a tetrahedron would become a two-triangle pillow; code after the fix of F3)
          SwapRefreshesNormals   \* TRUE: swap_edge recomputes the normals of the two faces it creates after
                                 \*       check_face_winding_order may have flipped them (code after the fix of F2)
                                 \* FALSE: it leaves them stale (code before the fix)

NoTri == <<>>
Last(q)  == q[Len(q)]
Front(q) == SubSeq(q, 1, Len(q) - 1)
Range(f) == {f[x] : x \in DOMAIN f}

FaceIds(m) == 0..(m.fslots - 1)
Live(m)    == {f \in FaceIds(m) : m.tri[f] # NoTri}
NodesOf(t) == {t[1], t[2], t[3]}
HasDir(t, x, y) == \E i \in 1..3 : t[i] = x /\ t[(i % 3) + 1] = y
Opp(t, x, y)    == CHOOSE n \in NodesOf(t) : n # x /\ n # y
Flip(t) == <<t[3], t[2], t[1]>>                 \* std::swap(n1, n3)

FacesOn(m, x, y)  == {f \in Live(m) : {x, y} \subseteq NodesOf(m.tri[f])}
FacesDir(m, x, y) == {f \in Live(m) : HasDir(m.tri[f], x, y)}
UEdges(m)  == UNION {{{t[1], t[2]}, {t[2], t[3]}, {t[3], t[1]}} : t \in {m.tri[f] : f \in Live(m)}}
LiveN(m)   == UNION {NodesOf(m.tri[f]) : f \in Live(m)}
Nbrs(m, x) == (UNION {NodesOf(m.tri[f]) : f \in {g \in Live(m) : x \in NodesOf(m.tri[g])}}) \ {x}

---------------------------------------------------------------------------
(* Property C01: predicates of a mesh *)
NoRepeat(m)  == \A f \in Live(m) : Cardinality(NodesOf(m.tri[f])) = 3
LiveNodes(m) == \A f \in Live(m) : NodesOf(m.tri[f]) \subseteq m.used /\ \A n \in NodesOf(m.tri[f]) : n < m.nslots
Closed(m)    == \A e \in UEdges(m) : \E x, y \in e : x # y /\
                   Cardinality(FacesDir(m, x, y)) = 1 /\ Cardinality(FacesDir(m, y, x)) = 1
                   /\ Cardinality(FacesOn(m, x, y)) = 2
Euler(m)     == Cardinality(LiveN(m)) - Cardinality(UEdges(m)) + Cardinality(Live(m)) = 2
\* a triangulation: no two triangles on the same three nodes (a two-triangle "pillow" encloses no volume)
Simple(m)    == \A f, g \in Live(m) : f # g => NodesOf(m.tri[f]) # NodesOf(m.tri[g])
NormalSide(m) == \A f \in Live(m) : m.nrm[f]
IsSetSeq(q)  == \A i, j \in 1..Len(q) : i # j => q[i] # q[j]
Bookkeeping(m) ==
    /\ m.used = LiveN(m)                                          \* exactly the nodes of live faces are in use
    /\ IsSetSeq(m.freeN) /\ Range(m.freeN) = (0..(m.nslots-1)) \ m.used
    /\ IsSetSeq(m.freeF) /\ Range(m.freeF) = FaceIds(m) \ Live(m)
    /\ DOMAIN m.tri = FaceIds(m) /\ DOMAIN m.ftype = FaceIds(m) /\ DOMAIN m.nrm = FaceIds(m)
WellFormed(m) == NoRepeat(m) /\ LiveNodes(m) /\ Closed(m) /\ Euler(m) /\ Simple(m) /\ Bookkeeping(m)
Good(m) == WellFormed(m) /\ NormalSide(m)

---------------------------------------------------------------------------
(* cell::add_node / add_face / delete_face / delete_node *)
AddNode(m) ==
    IF m.freeN # <<>>
    THEN [m |-> [m EXCEPT !.freeN = Front(m.freeN), !.used = m.used \cup {Last(m.freeN)}], id |-> Last(m.freeN)]
    ELSE [m |-> [m EXCEPT !.nslots = m.nslots + 1, !.used = m.used \cup {m.nslots}], id |-> m.nslots]

Ext(f, k, v) == [x \in (DOMAIN f) \cup {k} |-> IF x = k THEN v ELSE f[x]]
AddFace(m, t, ty) ==      \* the fresh normal follows the winding; returns the mesh and the slot used
    IF m.freeF # <<>>
    THEN LET id == Last(m.freeF) IN
         [m |-> [m EXCEPT !.freeF = Front(m.freeF), !.tri[id] = t, !.ftype[id] = ty, !.nrm[id] = TRUE], id |-> id]
    ELSE LET id == m.fslots IN
         [m |-> [m EXCEPT !.fslots = m.fslots + 1, !.tri = Ext(m.tri, id, t), !.ftype = Ext(m.ftype, id, ty),
                          !.nrm = Ext(m.nrm, id, TRUE)], id |-> id]
DelFace(m, f) == [m EXCEPT !.tri[f] = NoTri, !.ftype[f] = 0, !.nrm[f] = TRUE,   \* a free slot projects to type 0 / TRUE
                          !.freeF = Append(m.freeF, f)]
DelNode(m, n) == [m EXCEPT !.used = m.used \ {n}, !.freeN = Append(m.freeN, n)]

---------------------------------------------------------------------------
(* local_mesh_refiner::split_edge.  a < b are the edge's nodes, f1/f2 its faces in the order of the edge object *)
SplitOK(m, a, b, f1, f2) == a < b /\ f1 # f2 /\ FacesOn(m, a, b) = {f1, f2}
Split(m, a, b, f1, f2) ==
    LET c  == Opp(m.tri[f1], a, b)
        d  == Opp(m.tri[f2], a, b)
        r0 == AddNode(m)
        e  == r0.id
        t1 == m.ftype[f1]
        t2 == m.ftype[f2]
        \* (a-c)x(b-c).normal(f1) >= 0 : the cached normal of f1 is on the side of the winding (c,a,b)
        up1 == (HasDir(m.tri[f1], a, b) <=> m.nrm[f1])
        up2 == (HasDir(m.tri[f2], a, b) <=> m.nrm[f2])
        m1 == DelFace(DelFace(r0.m, f1), f2)
        r3 == AddFace(m1,   IF up1 THEN <<c, a, e>> ELSE <<c, e, a>>, t1)
        r5 == AddFace(r3.m, IF up1 THEN <<c, e, b>> ELSE <<c, b, e>>, t1)
        r4 == AddFace(r5.m, IF up2 THEN <<d, a, e>> ELSE <<d, e, a>>, t2)
        r6 == AddFace(r4.m, IF up2 THEN <<d, e, b>> ELSE <<d, b, e>>, t2)
    IN r6.m

(* local_mesh_refiner::swap_edge *)
Other(m, x, y, f) == CHOOSE g \in FacesOn(m, x, y) : g # f
SwapBlocked(m, a, b, f1, f2) ==
    LET c == Opp(m.tri[f1], a, b)  d == Opp(m.tri[f2], a, b)
    IN \/ Other(m, a, c, f1) = Other(m, d, a, f2)        \* f5 = f6
       \/ Other(m, b, d, f2) = Other(m, c, b, f1)        \* f7 = f8
       \/ FacesOn(m, c, d) # {}                          \* the edge cd exists already
Swap(m, a, b, f1, f2) ==
    IF SwapBlocked(m, a, b, f1, f2) THEN m ELSE
    LET c  == Opp(m.tri[f1], a, b)
        d  == Opp(m.tri[f2], a, b)
        f5 == Other(m, a, c, f1)
        f8 == Other(m, c, b, f1)
        m1 == DelFace(DelFace(m, f1), f2)
        r3 == AddFace(m1,   <<a, d, c>>, 0)
        r4 == AddFace(r3.m, <<b, c, d>>, 0)
        \* check_face_winding_order(ref, f): the common edge is traversed in the same direction => swap n1,n3
        flip3 == (HasDir(m.tri[f5], a, c) <=> HasDir(<<a, d, c>>, a, c))
        flip4 == (HasDir(m.tri[f8], c, b) <=> HasDir(<<b, c, d>>, c, b))
        m2 == r4.m
    IN [m2 EXCEPT !.tri[r3.id] = IF flip3 THEN Flip(@) ELSE @,
                  !.tri[r4.id] = IF flip4 THEN Flip(@) ELSE @,
                  !.nrm[r3.id] = SwapRefreshesNormals \/ ~flip3,
                  !.nrm[r4.id] = SwapRefreshesNormals \/ ~flip4]

(* local_mesh_refiner::can_be_merged / merge_edge *)
CanMerge(m, a, b) == /\ Cardinality(Nbrs(m, a) \cap Nbrs(m, b)) = 2
                     /\ (MergeKeepsFourNodes => Cardinality(m.used) > 4)
Subst(t, x, y) == [i \in 1..3 |-> IF t[i] = x THEN y ELSE t[i]]
Merge(m, a, b, f1, f2) ==
    LET r0 == AddNode(m)                 \* the new node takes its slot before a and b are released
        i  == r0.id
        touched == {f \in Live(m) : (a \in NodesOf(m.tri[f]) \/ b \in NodesOf(m.tri[f])) /\ f # f1 /\ f # f2}
        m1 == [r0.m EXCEPT !.tri = [f \in DOMAIN @ |-> IF f \in touched THEN Subst(Subst(@[f], a, i), b, i) ELSE @[f]],
                           !.nrm = [f \in DOMAIN @ |-> IF f \in touched THEN TRUE ELSE @[f]]]   \* replace_node recomputes them
        m2 == DelNode(DelNode(m1, a), b)
    IN DelFace(DelFace(m2, f1), f2)

(* cell::rebase: compaction of both vectors, order preserving *)
RECURSIVE Compact(_, _, _)
Compact(S, n, k) == \* the order preserving map  S -> 0..|S|-1  as a function on 0..n-1 (unused slots map to 0)
    IF n = 0 THEN <<>> ELSE Compact(S, n - 1, k) \o <<Cardinality({x \in S : x < n - 1})>>
Rebase(m) ==
    LET lf   == Live(m)
        nmap == Compact(m.used, m.nslots, 0)           \* nmap[old+1] = new
        fnew == Cardinality(lf)
        fold == [j \in 0..(fnew - 1) |-> CHOOSE f \in lf : Cardinality({g \in lf : g < f}) = j]
        ren(t) == IF m.freeN = <<>> THEN t ELSE <<nmap[t[1] + 1], nmap[t[2] + 1], nmap[t[3] + 1]>>
    IN [ nslots |-> IF m.freeN = <<>> THEN m.nslots ELSE Cardinality(m.used),
         fslots |-> fnew,
         used   |-> IF m.freeN = <<>> THEN m.used ELSE 0..(Cardinality(m.used) - 1),
         tri    |-> [j \in 0..(fnew - 1) |-> ren(m.tri[fold[j]])],
         ftype  |-> [j \in 0..(fnew - 1) |-> m.ftype[fold[j]]],
         nrm    |-> [j \in 0..(fnew - 1) |-> m.nrm[fold[j]]],
         freeN  |-> <<>>, freeF |-> <<>> ]

(* cell::update_all_face_normals_and_areas *)
Refresh(m) == [m EXCEPT !.nrm = [f \in DOMAIN @ |-> TRUE]]

---------------------------------------------------------------------------
(* Seed meshes (outward oriented, right-hand rule) *)
Mk(n, tris) == [nslots |-> n, fslots |-> Len(tris), used |-> 0..(n - 1),
                tri |-> [f \in 0..(Len(tris) - 1) |-> tris[f + 1]],
                ftype |-> [f \in 0..(Len(tris) - 1) |-> f % 3],
                nrm |-> [f \in 0..(Len(tris) - 1) |-> TRUE], freeN |-> <<>>, freeF |-> <<>>]
Tetra == Mk(4, << <<0,2,1>>, <<0,1,3>>, <<1,2,3>>, <<0,3,2>> >>)
\* octahedron: 0=+x 1=-x 2=+y 3=-y 4=+z 5=-z
Octa  == Mk(6, << <<0,2,4>>, <<2,1,4>>, <<1,3,4>>, <<3,0,4>>, <<2,0,5>>, <<1,2,5>>, <<3,1,5>>, <<0,3,5>> >>)
\* triangular bipyramid: equator 0,1,2 (counter-clockwise seen from +z), 3 = top, 4 = bottom
Bipyr == Mk(5, << <<0,1,3>>, <<1,2,3>>, <<2,0,3>>, <<1,0,4>>, <<2,1,4>>, <<0,2,4>> >>)
=============================================================================
