----------------------------- MODULE MeshTrace -----------------------------
(***************************************************************************)
(* Validation of transitions executed by the real code against Mesh.       *)
(* Every record of the log (harness/drivers/mesh_driver.cpp, or the hooks  *)
(* in local_mesh_refiner::refine_mesh) is one executed operation with the  *)
(* projection of the real cell before and after it; each record is one     *)
(* initial state here.                                                     *)
(*   P_*  the property C01 evaluated on the real cell after the operation  *)
(*   D_Step  the real operation is the transition function of Mesh         *)
(***************************************************************************)
EXTENDS Mesh, Json, IOUtils

Log == ndJsonDeserialize(IOEnv.OBS)
VARIABLES k, pre, post     \* pre/post are functions of k: held in variables so that they are converted once per record
R == Log[k]

ToSet(q) == {q[i] : i \in 1..Len(q)}
\* JSON arrays are 1-based sequences; slots are 0-based
FromJson(j) == [ nslots |-> j.nslots, fslots |-> j.fslots, used |-> ToSet(j.used),
                 tri   |-> [f \in 0..(j.fslots - 1) |-> j.tri[f + 1]],
                 ftype |-> [f \in 0..(j.fslots - 1) |-> j.ftype[f + 1]],
                 nrm   |-> [f \in 0..(j.fslots - 1) |-> j.nrm[f + 1]],
                 freeN |-> j.freeN, freeF |-> j.freeF ]
Pre  == pre
Post == post

TInit == /\ k \in 1..Len(Log)
         /\ pre = FromJson(Log[k].pre) /\ post = FromJson(Log[k].post)
TSpec == TInit /\ [][UNCHANGED <<k, pre, post>>]_<<k, pre, post>>

\* the real edge_set_ equals the index recomputed from the triangles
EdgeIndexOK == LET real == {<<e[1], e[2], {e[3], e[4]}>> : e \in ToSet(R.eset)}
                   Lo(e) == CHOOSE x \in e : \A y \in e : x <= y
                   Hi(e) == CHOOSE x \in e : \A y \in e : x >= y
                   want == {<<Lo(e), Hi(e), FacesOn(Post, Lo(e), Hi(e))>> : e \in UEdges(Post)}
               IN real = want /\ Len(R.eset) = Cardinality(real)

P_NoThrow     == R.op # "pass" => R.threw = ""      \* a pass may give up by exception (C11); single operations may not
P_NoRepeat    == NoRepeat(Post)
P_LiveNodes   == LiveNodes(Post)
P_Closed      == Closed(Post)
P_Euler       == Euler(Post)
P_Simple      == Simple(Post)
P_Bookkeeping == Bookkeeping(Post) /\ R.ids_ok
P_EdgeIndex   == (NoRepeat(Post) /\ LiveNodes(Post)) => EdgeIndexOK
P_NormalSide  == NormalSide(Post)
\* The surface stays oriented outward: it is outward at initialisation (C12) and every operation keeps the global
\* orientation -- the result is consistently oriented (P_Closed) and at least one triangle untouched by the operation
\* (up to the renaming of the two merged nodes) keeps its winding.  The sign of the enclosed volume itself is logged
\* (vol_pos) but not asserted: collapsing an edge of a very coarse mesh can flatten the whole cell geometrically.
SameCyclic(t, u) == t # NoTri /\ u \in {t, <<t[2], t[3], t[1]>>, <<t[3], t[1], t[2]>>}
NewNodes == Post.used \ Pre.used
Ren(t) == IF R.op = "merge" /\ Cardinality(NewNodes) = 1
          THEN LET i == CHOOSE n \in NewNodes : TRUE IN Subst(Subst(t, R.a, i), R.b, i) ELSE t
P_Outward == (R.op \in {"split", "swap", "merge", "merge_blocked", "swap_skipped", "refresh"} /\ R.threw = "") =>
                \E f \in Live(Pre) \cap Live(Post) : f # R.f1 /\ f # R.f2 /\ SameCyclic(Ren(Pre.tri[f]), Post.tri[f])
P_Rebase  == (R.op = "rebase" /\ WellFormed(Pre) /\ R.threw = "") => Post = Rebase(Pre)   \* order preserving compaction

---------------------------------------------------------------------------
(* Property C11 on the records of real refine_mesh passes.  The numeric facts (sums of momenta, bitwise equality of
   positions, squared lengths) are evaluated by the driver with formulas that do not use the code under test and are
   logged under "num"; the label rule is evaluated here from the two meshes. *)
SingleOps == {"split", "merge", "swap", "swap_skipped", "merge_blocked"}
N_Momentum  == R.op \in SingleOps \cup {"pass"} => R.num.mom_ok
N_Survivors == R.op \in SingleOps => R.num.surv_ok
N_Midpoint  == /\ R.op \in {"split", "merge"} => (R.num.mid_ok /\ R.num.n_new = 1)
               /\ R.op \in {"swap", "swap_skipped", "merge_blocked"} => R.num.n_new = 0
N_Labels    == (R.op = "split" /\ WellFormed(Pre) /\ Cardinality(NewNodes) = 1) =>
                  LET e == CHOOSE n \in NewNodes : TRUE
                      c == Opp(Pre.tri[R.f1], R.a, R.b)
                      d == Opp(Pre.tri[R.f2], R.a, R.b)
                      star == {f \in Live(Post) : e \in NodesOf(Post.tri[f])}
                  IN /\ Cardinality(star) = 4
                     /\ \A f \in star : /\ c \in NodesOf(Post.tri[f]) => Post.ftype[f] = Pre.ftype[R.f1]
                                        /\ d \in NodesOf(Post.tri[f]) => Post.ftype[f] = Pre.ftype[R.f2]
                     /\ \A f \in Live(Post) \ star : f \in Live(Pre) /\ Post.ftype[f] = Pre.ftype[f]
N_Selective == R.op \in {"split", "merge", "merge_blocked"} => R.num.sel_ok
N_VolArea   == /\ R.op = "split" => (R.num.vol_same /\ R.num.area_same)
               /\ (R.op = "pass" /\ R.num.n_merge = 0 /\ R.num.n_swap = 0) => (R.num.vol_same /\ R.num.area_same)
N_Idempotent == R.op = "pass" => /\ (R.num.n_split + R.num.n_merge + R.num.n_swap = 0) => R.num.unchanged
                                 /\ R.num.in_band => (R.num.unchanged /\ R.threw = "")
\* the pass counts one iteration per split/merge and reports failure only when that count reaches the size of the edge set
\* (when merges shrink the edge set below the count the loop simply stops: allowed, the property promises return, not completion)
N_Bounded   == R.op = "pass" => /\ R.num.v1 = R.num.n_split + R.num.n_merge
                                /\ (R.threw # "" <=> R.num.v1 = R.num.v2)

Expected == CASE R.op = "split"   -> Split(Pre, R.a, R.b, R.f1, R.f2)
              [] R.op = "swap"    -> Swap(Pre, R.a, R.b, R.f1, R.f2)
              [] R.op = "merge"   -> Merge(Pre, R.a, R.b, R.f1, R.f2)
              [] R.op = "merge_blocked" -> Pre
              [] R.op = "swap_skipped"  -> Pre          \* the triangle quality rule did not ask for a swap
              [] R.op = "rebase"  -> Rebase(Pre)
              [] R.op = "refresh" -> Refresh(Pre)
\* the guard of the specification agrees with can_be_merged
D_Guard == (WellFormed(Pre) /\ R.op \in {"merge", "merge_blocked"}) =>
              (CanMerge(Pre, R.a, R.b) <=> R.op = "merge")
StepOps == {"split", "swap", "merge", "merge_blocked", "swap_skipped", "rebase", "refresh"}
D_Step  == (WellFormed(Pre) /\ R.threw = "" /\ R.op \in StepOps) => Post = Expected
D_Args  == (WellFormed(Pre) /\ R.op \in {"split", "swap", "merge", "merge_blocked", "swap_skipped"}) => SplitOK(Pre, R.a, R.b, R.f1, R.f2)
=============================================================================
