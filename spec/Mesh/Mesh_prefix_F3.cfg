SPECIFICATION Spec
CONSTANTS
  SwapRefreshesNormals = TRUE
  MergeKeepsFourNodes = FALSE
  Seeds = {"tetra", "octa", "bipyr"}
  MaxDepth = 1
  MaxNodes = 9
VIEW View
INVARIANTS Inv_NoRepeat Inv_LiveNodes Inv_Closed Inv_Euler Inv_Simple Inv_Bookkeeping Inv_NormalSide Inv_RebaseIdem
CHECK_DEADLOCK FALSE
