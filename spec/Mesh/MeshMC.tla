------------------------------- MODULE MeshMC -------------------------------
(* Bounded exploration of every chain of remeshing operations from the seed meshes. *)
EXTENDS Mesh
CONSTANTS Seeds, MaxDepth, MaxNodes
VARIABLES m, depth, lastOp
vars == <<m, depth, lastOp>>

SeedMesh(s) == CASE s = "tetra" -> Tetra [] s = "octa" -> Octa [] s = "bipyr" -> Bipyr

Init == /\ \E s \in Seeds : m = SeedMesh(s)
        /\ depth = 0 /\ lastOp = <<"init">>

EdgeArgs == {<<a, b, f1, f2>> \in (0..(m.nslots-1)) \X (0..(m.nslots-1)) \X FaceIds(m) \X FaceIds(m) :
                 a < b /\ f1 # f2 /\ FacesOn(m, a, b) = {f1, f2}}

DoSplit(x) == /\ Cardinality(m.used) < MaxNodes
              /\ m' = Split(m, x[1], x[2], x[3], x[4]) /\ lastOp' = <<"split", x>>
DoSwap(x)  == /\ m' = Swap(m, x[1], x[2], x[3], x[4])  /\ lastOp' = <<"swap", x>>
DoMerge(x) == /\ CanMerge(m, x[1], x[2])
              /\ m' = Merge(m, x[1], x[2], x[3], x[4]) /\ lastOp' = <<"merge", x>>
DoMergeBlocked(x) == /\ ~CanMerge(m, x[1], x[2]) /\ m' = m /\ lastOp' = <<"merge_blocked", x>>
DoRebase   == m' = Rebase(m)  /\ lastOp' = <<"rebase">>
DoRefresh  == m' = Refresh(m) /\ lastOp' = <<"refresh">>

Next == /\ depth < MaxDepth /\ depth' = depth + 1
        /\ \/ \E x \in EdgeArgs : DoSplit(x) \/ DoSwap(x) \/ DoMerge(x) \/ DoMergeBlocked(x)
           \/ DoRebase \/ DoRefresh
Spec == Init /\ [][Next]_vars
View == <<m, depth>>

Inv_NoRepeat    == NoRepeat(m)
Inv_LiveNodes   == LiveNodes(m)
Inv_Closed      == Closed(m)
Inv_Euler       == Euler(m)
Inv_Simple      == Simple(m)
Inv_Bookkeeping == Bookkeeping(m)
Inv_NormalSide  == NormalSide(m)
\* compaction keeps the surface: it is a renaming, and a second compaction is the identity
Inv_RebaseIdem  == Rebase(Rebase(m)) = Rebase(m) /\ Good(m) => Good(Rebase(m))
=============================================================================
