------------------------------- MODULE MeshMC -------------------------------
(* Bounded exploration of every chain of remeshing operations from the seed meshes. *)
EXTENDS Mesh
CONSTANTS Seeds, MaxDepth, MaxNodes
VARIABLES m, depth, lastOp
vars == <<m, depth, lastOp>>

SeedMesh(s) == CASE s = "tetra" -> Tetra [] s = "octa" -> Octa [] s = "bipyr" -> Bipyr

Init == /\ \E s \in Seeds : m = SeedMesh(s)
        /\ depth = 0 /\ lastOp = <<"init">>

EdgeArgs == {<<a, b, f1, f2>> \in (0..(m.nslots-1)) \X (0..(m.nslots-1)) \X FaceIds(m) \X FaceIds(m) :
                 a < b /\ f1 # f2 /\ FacesOn(m, a, b) = {f1, f2}}

DoSplit(x) == /\ Cardinality(m.used) < MaxNodes
              /\ m' = Split(m, x[1], x[2], x[3], x[4]) /\ lastOp' = <<"split", x>>
DoSwap(x)  == /\ m' = Swap(m, x[1], x[2], x[3], x[4])  /\ lastOp' = <<"swap", x>>
DoMerge(x) == /\ CanMerge(m, x[1], x[2])
              /\ m' = Merge(m, x[1], x[2], x[3], x[4]) /\ lastOp' = <<"merge", x>>
DoMergeBlocked(x) == /\ ~CanMerge(m, x[1], x[2]) /\ m' = m /\ lastOp' = <<"merge_blocked", x>>
DoRebase   == m' = Rebase(m)  /\ lastOp' = <<"rebase">>
DoRefresh  == m' = Refresh(m) /\ lastOp' = <<"refresh">>

Next == /\ depth < MaxDepth /\ depth' = depth + 1
        /\ \/ \E x \in EdgeArgs : DoSplit(x) \/ DoSwap(x) \/ DoMerge(x) \/ DoMergeBlocked(x)
           \/ DoRebase \/ DoRefresh
Spec == Init /\ [][Next]_vars
View == <<m, depth>>

\* C11: a split passes the face-type label of each parent triangle on to the two triangles it is divided into,
\* and touches no other label
LabelsInherited(m0, m1, x) ==
    LET a == x[1]  b == x[2]  f1 == x[3]  f2 == x[4]
        e == CHOOSE n \in m1.used \ m0.used : TRUE
        c == Opp(m0.tri[f1], a, b)
        d == Opp(m0.tri[f2], a, b)
        star == {f \in Live(m1) : e \in NodesOf(m1.tri[f])}
    IN /\ Cardinality(m1.used \ m0.used) = 1 /\ Cardinality(star) = 4
       /\ \A f \in star : /\ c \in NodesOf(m1.tri[f]) => m1.ftype[f] = m0.ftype[f1]
                          /\ d \in NodesOf(m1.tri[f]) => m1.ftype[f] = m0.ftype[f2]
       /\ \A f \in Live(m1) \ star : f \in Live(m0) /\ m1.ftype[f] = m0.ftype[f] /\ m1.tri[f] = m0.tri[f]
SplitKeepsLabels == [][lastOp'[1] = "split" => LabelsInherited(m, m', lastOp'[2])]_vars
\* no operation but the three remeshing operations changes the set of live nodes or triangles
OnlyRemeshChanges == [][lastOp'[1] \in {"refresh", "merge_blocked"} => (m'.tri = m.tri /\ m'.used = m.used /\ m'.ftype = m.ftype)]_vars

Inv_NoRepeat    == NoRepeat(m)
Inv_LiveNodes   == LiveNodes(m)
Inv_Closed      == Closed(m)
Inv_Euler       == Euler(m)
Inv_Simple      == Simple(m)
Inv_Bookkeeping == Bookkeeping(m)
Inv_NormalSide  == NormalSide(m)
\* compaction keeps the surface: it is a renaming, and a second compaction is the identity
Inv_RebaseIdem  == Rebase(Rebase(m)) = Rebase(m) /\ Good(m) => Good(Rebase(m))
=============================================================================
