----------------------------- MODULE InitProtocol -----------------------------
(* The accept / retry / give-up protocol of simulation_initializer::triangulate_surface as a state machine: every attempt may fail for
   any reason (the reconstruction is randomised); TLC checks that a cell is handed over only after an accepted attempt, that at most ten
   attempts are made and that the protocol always ends (accepted or gave up). *)
EXTENDS Integers, TLC
CONSTANT MaxTries
VARIABLES attempt, state, validated
vars == <<attempt, state, validated>>
Init == attempt = 0 /\ state = "trying" /\ validated = FALSE
\* one attempt: triangulate, build the cell, initialize_cell_properties (which throws unless the surface is a closed manifold)
Succeed == state = "trying" /\ validated' = TRUE /\ state' = "accepted" /\ UNCHANGED attempt
Fail    == state = "trying" /\ attempt' = attempt + 1 /\ state' = (IF attempt + 1 = MaxTries THEN "gaveup" ELSE "trying") /\ UNCHANGED validated
Next == Succeed \/ Fail
Spec == Init /\ [][Next]_vars /\ WF_vars(Next)
Bounded == attempt <= MaxTries
HandedOnlyIfValidated == state = "accepted" => validated
Ends == <>(state \in {"accepted", "gaveup"})
=============================================================================
