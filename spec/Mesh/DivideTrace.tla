----------------------------- MODULE DivideTrace -----------------------------
(***************************************************************************)
(* C09: validation of real cell_divider::divide_cell calls against Mesh.   *)
(* One record per call (harness/drivers/divide_driver.cpp).  On success    *)
(* each daughter must satisfy every C01 predicate of Mesh; in both cases   *)
(* the mother must be what a compaction (Rebase) alone leaves.             *)
(***************************************************************************)
EXTENDS Mesh, Json, IOUtils
Log == ndJsonDeserialize(IOEnv.OBS)
VARIABLES k, d1, d2
R == Log[k]
ToSet(q) == {q[i] : i \in 1..Len(q)}
FromJson(j) == [ nslots |-> j.nslots, fslots |-> j.fslots, used |-> ToSet(j.used),
                 tri   |-> [f \in 0..(j.fslots - 1) |-> j.tri[f + 1]],
                 ftype |-> [f \in 0..(j.fslots - 1) |-> j.ftype[f + 1]],
                 nrm   |-> [f \in 0..(j.fslots - 1) |-> j.nrm[f + 1]],
                 freeN |-> j.freeN, freeF |-> j.freeF ]
Empty == [nslots |-> 0, fslots |-> 0, used |-> {}, tri |-> <<>>, ftype |-> <<>>, nrm |-> <<>>, freeN |-> <<>>, freeF |-> <<>>]
TInit == /\ k \in 1..Len(Log)
         /\ d1 = IF Log[k].divided THEN FromJson(Log[k].d1) ELSE Empty
         /\ d2 = IF Log[k].divided THEN FromJson(Log[k].d2) ELSE Empty
TSpec == TInit /\ [][UNCHANGED <<k, d1, d2>>]_<<k, d1, d2>>

EdgeIndexOK(m, eset) ==
    LET real == {<<e[1], e[2], {e[3], e[4]}>> : e \in ToSet(eset)}
        Lo(e) == CHOOSE x \in e : \A y \in e : x <= y
        Hi(e) == CHOOSE x \in e : \A y \in e : x >= y
        want == {<<Lo(e), Hi(e), FacesOn(m, Lo(e), Hi(e))>> : e \in UEdges(m)}
    IN real = want /\ Len(eset) = Cardinality(real)

P_MotherUntouched == R.mother_same_mesh /\ R.mother_same_pos /\ R.mother_tvol_same /\ R.mother_id_same
P_DaughtersManifold == R.divided => (WellFormed(d1) /\ WellFormed(d2))
P_DaughtersNormals  == R.divided => (NormalSide(d1) /\ NormalSide(d2))
P_DaughtersCompact  == R.divided => (d1.freeN = <<>> /\ d1.freeF = <<>> /\ d2.freeN = <<>> /\ d2.freeF = <<>> /\ R.ids_ok)
P_DaughtersEdgeIndex == R.divided /\ NoRepeat(d1) /\ LiveNodes(d1) /\ NoRepeat(d2) /\ LiveNodes(d2) => (EdgeIndexOK(d1, R.e1) /\ EdgeIndexOK(d2, R.e2))
P_Outward   == R.divided => (R.outward /\ R.finite)
P_OwnSide   == R.divided => R.side_ok
P_VolumeSum == R.divided => R.vol_sum_ok
P_TargetVolumeHalved == R.divided => R.tvol_half
P_SameType  == R.divided => R.type_ok
=============================================================================
