SPECIFICATION TSpec
INVARIANTS P_FailureReported P_GoodTissueComplete P_NothingHalfHanded
CHECK_DEADLOCK FALSE
