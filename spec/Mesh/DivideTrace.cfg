SPECIFICATION TSpec
CONSTANTS
  SwapRefreshesNormals = TRUE
  MergeKeepsFourNodes = TRUE
INVARIANTS P_MotherUntouched P_DaughtersManifold P_DaughtersNormals P_DaughtersCompact P_DaughtersEdgeIndex P_Outward P_OwnSide P_VolumeSum P_TargetVolumeHalved P_SameType
CHECK_DEADLOCK FALSE
