SPECIFICATION Spec
CONSTANTS
  MaxTries = 10
INVARIANTS Bounded HandedOnlyIfValidated
PROPERTIES Ends
CHECK_DEADLOCK FALSE
