SPECIFICATION Spec
CONSTANTS
  SwapRefreshesNormals = TRUE
  MergeKeepsFourNodes = TRUE
INVARIANTS MotherGood CutGivesTwoManifolds OnlyThen FaceCount
CHECK_DEADLOCK FALSE
