SPECIFICATION TSpec
CONSTANTS
  SwapRefreshesNormals = TRUE
  MergeKeepsFourNodes = TRUE
INVARIANTS P_Protocol P_HandedIsManifold P_HandedEdgeIndex P_Faithful P_PoissonSpacing
CHECK_DEADLOCK FALSE
