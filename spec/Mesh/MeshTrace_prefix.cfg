SPECIFICATION TSpec
CONSTANTS
  SwapRefreshesNormals = FALSE
  MergeKeepsFourNodes = FALSE
INVARIANTS P_NoThrow P_NoRepeat P_LiveNodes P_Closed P_Euler P_Simple P_Bookkeeping P_EdgeIndex P_NormalSide P_Outward P_Rebase D_Guard D_Step D_Args
CHECK_DEADLOCK FALSE
