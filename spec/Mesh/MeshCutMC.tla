------------------------------ MODULE MeshCutMC ------------------------------
(* For every seed mesh (and everything one remeshing operation away from the octahedron / bipyramid) and every way a plane can separate
   its nodes into two non-empty sides: both daughters are closed consistently oriented manifolds iff both sides are connected. *)
EXTENDS MeshCut
VARIABLES m, side
OneOp(x) == {Split(x, a[1], a[2], a[3], a[4]) : a \in {y \in (0..5) \X (0..5) \X (0..7) \X (0..7) : SplitOK(x, y[1], y[2], y[3], y[4])}}
Mothers == {Tetra, Octa, Bipyr} \cup OneOp(Octa) \cup OneOp(Bipyr)
Init == /\ m \in {Rebase(x) : x \in Mothers}
        /\ side \in [m.used -> {0, 1}]
        /\ \E x, y \in m.used : side[x] = 0 /\ side[y] = 1
Next == UNCHANGED <<m, side>>
Spec == Init /\ [][Next]_<<m, side>>
D0 == Daughter(m, side, 0)
D1 == Daughter(m, side, 1)
TopoGood(d) == NoRepeat(d) /\ LiveNodes(d) /\ Closed(d) /\ Euler(d) /\ Simple(d) /\ Bookkeeping(d)
MotherGood == Good(m)
CutGivesTwoManifolds == Admissible(m, side) => (TopoGood(D0) /\ TopoGood(D1))
\* and only then: a plane that leaves one side disconnected (non-convex section) does not give two spheres
OnlyThen == ~Admissible(m, side) => ~(TopoGood(D0) /\ TopoGood(D1))
\* nothing is lost: the pieces of the two daughters without their caps cover the mother (every mother triangle contributes to both or to one)
FaceCount == Admissible(m, side) => LET nc == Cardinality({f \in Live(m) : Crossed(m, side, f)})
                                    IN D0.fslots + D1.fslots = Cardinality(Live(m)) + 4 * nc
=============================================================================
