SPECIFICATION Spec
CONSTANTS
  SwapRefreshesNormals = TRUE
  MergeKeepsFourNodes = TRUE
  Seeds = {"tetra", "octa", "bipyr"}
  MaxDepth = 14
  MaxNodes = 12
INVARIANTS Inv_NoRepeat Inv_LiveNodes Inv_Closed Inv_Euler Inv_Simple Inv_Bookkeeping Inv_NormalSide
CHECK_DEADLOCK FALSE
