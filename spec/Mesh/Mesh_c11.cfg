SPECIFICATION Spec
CONSTANTS
  SwapRefreshesNormals = TRUE
  MergeKeepsFourNodes = TRUE
  Seeds = {"tetra", "octa", "bipyr"}
  MaxDepth = 2
  MaxNodes = 9
INVARIANTS Inv_NoRepeat Inv_LiveNodes Inv_Closed Inv_Euler Inv_Simple Inv_Bookkeeping Inv_NormalSide Inv_RebaseIdem
PROPERTIES SplitKeepsLabels OnlyRemeshChanges
CHECK_DEADLOCK FALSE
