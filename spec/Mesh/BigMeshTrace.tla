---------------------------- MODULE BigMeshTrace ----------------------------
(* C01 on a mesh with more than 65536 node slots and 131072 faces (initialisation, a pass that splits, a pass that collapses,
   compaction), where index arithmetic has room to wrap.  The mesh is far too large for TLC to re-derive the predicates of
   spec/Mesh from it: the driver (mesh_driver big) recomputes them from the triangle list with its own code and logs verdicts,
   which this module requires, record by record. *)
EXTENDS Integers, Sequences, Json, IOUtils
Obs == ndJsonDeserialize(IOEnv.OBS)
VARIABLE k
R == Obs[k]
TInit == k \in 1..Len(Obs)
TSpec == TInit /\ [][UNCHANGED k]_k
P_BigNoError   == R.threw = ""
P_BigManifold  == R.live_ok /\ R.norepeat_ok /\ R.closed_ok /\ R.euler_ok
P_BigEdgeIndex == R.index_ok /\ R.ids_ok
P_BigNormals   == R.normals_ok /\ R.vol_pos
P_BigIsBig     == R.nslots > 65536 /\ R.nf > 131071
=============================================================================
