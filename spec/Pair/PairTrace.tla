------------------------------- MODULE PairTrace -------------------------------
(***************************************************************************)
(* C14: two real solver runs that differ only by a translation of the      *)
(* input tissue, consumed in lock-step.  Every event of the reference run  *)
(* (A) and of the translated run (B) is one phase boundary of the solver   *)
(* (hook H4, harness/drivers/tissue_driver.cpp); checks/c14.py zips the    *)
(* two logs.  Every discrete observable must be identical: the event, the  *)
(* iteration, the file counter, the id counter, and per cell id, list      *)
(* position, type, node and face counts, the connectivity digest, the      *)
(* ready / below-minimum verdicts, the number of couplings.  The numeric   *)
(* observables (positions up to the translation, volumes, pressures) are   *)
(* compared by the check at the end of the run and logged as verdicts.     *)
(***************************************************************************)
EXTENDS Integers, Sequences, TLC, Json, IOUtils
Log == ndJsonDeserialize(IOEnv.OBS)
VARIABLES l, ok
vars == <<l, ok>>
CellKey(c) == <<c.id, c.lid, c.type, c.nn, c.nf, c.conn, c.ready, c.below>>
SamePhase(a, b) ==
    /\ a.k = b.k /\ a.iter = b.iter /\ a.fileNo = b.fileNo /\ a.nextId = b.nextId
    /\ Len(a.cells) = Len(b.cells)
    /\ \A i \in 1..Len(a.cells) : CellKey(a.cells[i]) = CellKey(b.cells[i])
    /\ a.coupl.n = b.coupl.n
Same(a, b) ==
    /\ a.e = b.e
    /\ CASE a.e = "phase" -> SamePhase(a, b)
         [] a.e = "init" -> Len(a.cells) = Len(b.cells) /\ \A i \in 1..Len(a.cells) : CellKey(a.cells[i]) = CellKey(b.cells[i])
         [] a.e = "mesh_written" -> a.n = b.n /\ a.ids = b.ids /\ a.iter = b.iter
         [] a.e = "end" -> a.outcome = b.outcome /\ a.iter = b.iter /\ a.ncells = b.ncells /\ a.files_cell = b.files_cell /\ a.stats.nrows = b.stats.nrows
         [] OTHER -> TRUE
TInit == l = 0 /\ ok = TRUE
Step == l < Len(Log) /\ l' = l + 1 /\ ok' = Same(Log[l + 1].a, Log[l + 1].b)
TSpec == TInit /\ [][Step]_vars
P_LockStep == ok
Last == Log[Len(Log)]
P_SameLength == Last.same_length
P_Positions == l = Len(Log) => Last.num.pos_match
P_Volumes   == l = Len(Log) => Last.num.vol_match
P_Pressures == l = Len(Log) => Last.num.press_match
=============================================================================
