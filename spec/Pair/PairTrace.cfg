SPECIFICATION TSpec
INVARIANTS P_LockStep P_SameLength P_Positions P_Volumes P_Pressures
CHECK_DEADLOCK FALSE
