SPECIFICATION Spec
CONSTANTS
  N = 4
  Threads = {1, 2, 3}
  ReadySet = {1, 2, 4}
  AppendInLoop = FALSE
INVARIANTS NoReadDuringResize FinalOK
PROPERTIES Terminates
