---------------------------- MODULE WriteSections ----------------------------
(* The mesh output phase (mesh_writer::write): every cell is compacted (cell::rebase renumbers nodes and faces and shrinks the
   lists) in a parallel loop that is joined BEFORE two OpenMP sections write the cell-data file and the face-data file
   concurrently, each reading every cell.  One step = one thread beginning or ending the compaction / the reading of one cell.
   Design constant RebaseWhere: "before" (the code: compaction in its own parallel region, joined before the sections start) or
   "in_cell_section" (the seeded design: the cell-data section compacts each cell just before it writes it, the face-data section
   running alongside).  Invariants: NoReadDuringCompaction (no thread reads a cell's lists while another one resizes them),
   FilesAgree (both files describe every cell in its compacted state, hence the same tissue whatever the schedule).          *)
EXTENDS Naturals, FiniteSets
CONSTANTS N, Workers, RebaseWhere
Cells == 1..N
VARIABLES compact,      \* cell -> "no" | "busy" | "yes"
          readers,      \* cell -> set of sections reading it now
          claimed,      \* cells handed to a worker of the first region
          pos,          \* section -> next cell to handle (N+1 = finished)
          step,         \* section -> "idle" | "compacting" | "reading"
          saw,          \* section -> [cell -> state of the cell when the section read it]
          phase         \* "rebase" | "sections" | "done"
vars == <<compact, readers, claimed, pos, step, saw, phase>>
Sections == {"cell", "face"}
Init == /\ compact \in [Cells -> {"no", "yes"}]            \* some cells have free slots, some are already compact
        /\ readers = [c \in Cells |-> {}] /\ claimed = {} /\ pos = [s \in Sections |-> 1] /\ step = [s \in Sections |-> "idle"]
        /\ saw = [s \in Sections |-> [c \in Cells |-> "-"]]
        /\ phase = IF RebaseWhere = "before" THEN "rebase" ELSE "sections"
\* ---- first region: parallel loop over the cells (any worker, any order), implicit barrier at its end
Claim(c) == phase = "rebase" /\ c \notin claimed /\ Cardinality({d \in claimed : compact[d] = "busy"}) < Workers
            /\ claimed' = claimed \cup {c} /\ compact' = [compact EXCEPT ![c] = "busy"] /\ UNCHANGED <<readers, pos, step, saw, phase>>
Finish(c) == phase = "rebase" /\ c \in claimed /\ compact[c] = "busy"
             /\ compact' = [compact EXCEPT ![c] = "yes"] /\ UNCHANGED <<readers, claimed, pos, step, saw, phase>>
Barrier == phase = "rebase" /\ claimed = Cells /\ \A c \in Cells : compact[c] = "yes"
           /\ phase' = "sections" /\ UNCHANGED <<compact, readers, claimed, pos, step, saw>>
\* ---- second region: two sections, each walking the list in order
NeedsCompaction(s) == RebaseWhere = "in_cell_section" /\ s = "cell"
BeginCompact(s) == /\ phase = "sections" /\ step[s] = "idle" /\ pos[s] <= N /\ NeedsCompaction(s) /\ compact[pos[s]] # "yes"
                   /\ compact' = [compact EXCEPT ![pos[s]] = "busy"] /\ step' = [step EXCEPT ![s] = "compacting"]
                   /\ UNCHANGED <<readers, claimed, pos, saw, phase>>
EndCompact(s) == /\ step[s] = "compacting"
                 /\ compact' = [compact EXCEPT ![pos[s]] = "yes"] /\ step' = [step EXCEPT ![s] = "idle"]
                 /\ UNCHANGED <<readers, claimed, pos, saw, phase>>
BeginRead(s) == /\ phase = "sections" /\ step[s] = "idle" /\ pos[s] <= N /\ (NeedsCompaction(s) => compact[pos[s]] = "yes")
                /\ readers' = [readers EXCEPT ![pos[s]] = @ \cup {s}] /\ step' = [step EXCEPT ![s] = "reading"]
                /\ saw' = [saw EXCEPT ![s][pos[s]] = compact[pos[s]]]
                /\ UNCHANGED <<compact, claimed, pos, phase>>
EndRead(s) == /\ step[s] = "reading"
              /\ readers' = [readers EXCEPT ![pos[s]] = @ \ {s}] /\ step' = [step EXCEPT ![s] = "idle"] /\ pos' = [pos EXCEPT ![s] = @ + 1]
              /\ UNCHANGED <<compact, claimed, saw, phase>>
Join == phase = "sections" /\ \A s \in Sections : pos[s] = N + 1 /\ phase' = "done" /\ UNCHANGED <<compact, readers, claimed, pos, step, saw>>
Next == \/ \E c \in Cells : Claim(c) \/ Finish(c)
        \/ Barrier \/ Join
        \/ \E s \in Sections : BeginCompact(s) \/ EndCompact(s) \/ BeginRead(s) \/ EndRead(s)
Spec == Init /\ [][Next]_vars /\ WF_vars(Next)
NoReadDuringCompaction == \A c \in Cells : compact[c] = "busy" => readers[c] = {}
FilesAgree == phase = "done" => \A c \in Cells : saw["cell"][c] = "yes" /\ saw["face"][c] = "yes"
Terminates == <>(phase = "done")
=============================================================================
