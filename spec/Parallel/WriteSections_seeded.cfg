SPECIFICATION Spec
CONSTANTS
  N = 3
  Workers = 2
  RebaseWhere = "in_cell_section"
INVARIANTS NoReadDuringCompaction FilesAgree
PROPERTY Terminates
CHECK_DEADLOCK FALSE
