SPECIFICATION TSpec
INVARIANTS I_C15_CriticalSectionExclusive I_C15_NoReadDuringResize I_C15_NoDuplicateId I_C15_IdsBelowCounter I_C15_NoCellLostOrDuplicated I_C15_ListRenumbered I_C15_SameAsSequential I_C15_NoEmptyCell I_C15_RethrownWasThrown I_C15_AfterAllFinished I_C15_ExceptionNotLost I_C15_EveryItemRan I_C15_ThrowersThrew I_C15_ExceptionTypeKept
CHECK_DEADLOCK FALSE
