------------------------------ MODULE ParDivide ------------------------------
(***************************************************************************)
(* The parallel loop of cell_divider::run (src/triangulation_modules/      *)
(* cell_divider.cpp).  Threads take the indices of the population list     *)
(* (static schedule); for each index a thread reads lst[i] WITHOUT a lock  *)
(* (is_ready_to_divide, divide_cell) and, if the division succeeded,       *)
(* enters an omp critical section in which it records the mother for       *)
(* deletion, takes two fresh ids and stores the daughters.                 *)
(* AppendInLoop = TRUE : the daughters are pushed on the shared list       *)
(*                       inside the loop (the code before the fix of F5):  *)
(*                       the push may reallocate the list while other      *)
(*                       threads read it.                                  *)
(* AppendInLoop = FALSE: the daughters go to a private vector that is      *)
(*                       appended after the join (the code after the fix). *)
(* Property C15 (division part).                                           *)
(***************************************************************************)
EXTENDS Integers, Sequences, FiniteSets, TLC
CONSTANTS N,            \* number of cells in the list when the loop starts
          Threads,      \* thread identifiers
          ReadySet,     \* indices of the cells that are ready to divide
          AppendInLoop

Assigned(t) == {i \in 1..N : (i % Cardinality(Threads)) = (t % Cardinality(Threads))}   \* a static schedule

(* --algorithm ParDivide {
  variables lst = [i \in 1..N |-> [id |-> i, mother |-> 0]],     \* the shared population list
            resizing = FALSE,                                    \* a push_back is reallocating lst
            reading = [t \in Threads |-> 0],                     \* index a thread is reading (0: none)
            lock = 0, nextId = N + 1, toDelete = {}, pending = <<>>, joined = 0, finished = FALSE;

  fair process (thr \in Threads)
    variables work = Assigned(self), idx = 0, ok = FALSE;
  {
   loop: while (work # {}) {
           idx := CHOOSE x \in work : \A y \in work : x <= y;
           work := work \ {idx};
     rb:   reading[self] := idx;                      \* cell_lst[i]->is_ready_to_divide(), divide_cell(cell_lst[i], ...)
     re:   reading[self] := 0;
           if (idx \in ReadySet) {
             either { ok := TRUE } or { ok := FALSE };   \* the division may fail: the mother is kept
           } else { ok := FALSE };
     ck:   if (ok) {
     enter:  await lock = 0; lock := self;          \* #pragma omp critical
     c1:     toDelete := toDelete \cup {idx};
             if (AppendInLoop) { resizing := TRUE };
     c2:     if (AppendInLoop) {
               lst := lst \o << [id |-> nextId, mother |-> idx], [id |-> nextId + 1, mother |-> idx] >>;
               resizing := FALSE;
             } else {
               pending := pending \o << [id |-> nextId, mother |-> idx], [id |-> nextId + 1, mother |-> idx] >>;
             };
             nextId := nextId + 2;
     leave:  lock := 0;
           };
         };
   tend: joined := joined + 1;
  }

  fair process (main = 0)
  {
   join: await joined = Cardinality(Threads);        \* implicit barrier at the end of the parallel for
   fin:  lst := SelectSeq(lst \o pending, LAMBDA c : c.mother # 0 \/ c.id \notin toDelete);
         finished := TRUE;
  }
} *)
\* BEGIN TRANSLATION (chksum(pcal) = "9c9bf63f" /\ chksum(tla) = "30da01f4")
VARIABLES pc, lst, resizing, reading, lock, nextId, toDelete, pending, joined, 
          finished, work, idx, ok

vars == << pc, lst, resizing, reading, lock, nextId, toDelete, pending, 
           joined, finished, work, idx, ok >>

ProcSet == (Threads) \cup {0}

Init == (* Global variables *)
        /\ lst = [i \in 1..N |-> [id |-> i, mother |-> 0]]
        /\ resizing = FALSE
        /\ reading = [t \in Threads |-> 0]
        /\ lock = 0
        /\ nextId = N + 1
        /\ toDelete = {}
        /\ pending = <<>>
        /\ joined = 0
        /\ finished = FALSE
        (* Process thr *)
        /\ work = [self \in Threads |-> Assigned(self)]
        /\ idx = [self \in Threads |-> 0]
        /\ ok = [self \in Threads |-> FALSE]
        /\ pc = [self \in ProcSet |-> CASE self \in Threads -> "loop"
                                        [] self = 0 -> "join"]

loop(self) == /\ pc[self] = "loop"
              /\ IF work[self] # {}
                    THEN /\ idx' = [idx EXCEPT ![self] = CHOOSE x \in work[self] : \A y \in work[self] : x <= y]
                         /\ work' = [work EXCEPT ![self] = work[self] \ {idx'[self]}]
                         /\ pc' = [pc EXCEPT ![self] = "rb"]
                    ELSE /\ pc' = [pc EXCEPT ![self] = "tend"]
                         /\ UNCHANGED << work, idx >>
              /\ UNCHANGED << lst, resizing, reading, lock, nextId, toDelete, 
                              pending, joined, finished, ok >>

rb(self) == /\ pc[self] = "rb"
            /\ reading' = [reading EXCEPT ![self] = idx[self]]
            /\ pc' = [pc EXCEPT ![self] = "re"]
            /\ UNCHANGED << lst, resizing, lock, nextId, toDelete, pending, 
                            joined, finished, work, idx, ok >>

re(self) == /\ pc[self] = "re"
            /\ reading' = [reading EXCEPT ![self] = 0]
            /\ IF idx[self] \in ReadySet
                  THEN /\ \/ /\ ok' = [ok EXCEPT ![self] = TRUE]
                          \/ /\ ok' = [ok EXCEPT ![self] = FALSE]
                  ELSE /\ ok' = [ok EXCEPT ![self] = FALSE]
            /\ pc' = [pc EXCEPT ![self] = "ck"]
            /\ UNCHANGED << lst, resizing, lock, nextId, toDelete, pending, 
                            joined, finished, work, idx >>

ck(self) == /\ pc[self] = "ck"
            /\ IF ok[self]
                  THEN /\ pc' = [pc EXCEPT ![self] = "enter"]
                  ELSE /\ pc' = [pc EXCEPT ![self] = "loop"]
            /\ UNCHANGED << lst, resizing, reading, lock, nextId, toDelete, 
                            pending, joined, finished, work, idx, ok >>

enter(self) == /\ pc[self] = "enter"
               /\ lock = 0
               /\ lock' = self
               /\ pc' = [pc EXCEPT ![self] = "c1"]
               /\ UNCHANGED << lst, resizing, reading, nextId, toDelete, 
                               pending, joined, finished, work, idx, ok >>

c1(self) == /\ pc[self] = "c1"
            /\ toDelete' = (toDelete \cup {idx[self]})
            /\ IF AppendInLoop
                  THEN /\ resizing' = TRUE
                  ELSE /\ TRUE
                       /\ UNCHANGED resizing
            /\ pc' = [pc EXCEPT ![self] = "c2"]
            /\ UNCHANGED << lst, reading, lock, nextId, pending, joined, 
                            finished, work, idx, ok >>

c2(self) == /\ pc[self] = "c2"
            /\ IF AppendInLoop
                  THEN /\ lst' = lst \o << [id |-> nextId, mother |-> idx[self]], [id |-> nextId + 1, mother |-> idx[self]] >>
                       /\ resizing' = FALSE
                       /\ UNCHANGED pending
                  ELSE /\ pending' = pending \o << [id |-> nextId, mother |-> idx[self]], [id |-> nextId + 1, mother |-> idx[self]] >>
                       /\ UNCHANGED << lst, resizing >>
            /\ nextId' = nextId + 2
            /\ pc' = [pc EXCEPT ![self] = "leave"]
            /\ UNCHANGED << reading, lock, toDelete, joined, finished, work, 
                            idx, ok >>

leave(self) == /\ pc[self] = "leave"
               /\ lock' = 0
               /\ pc' = [pc EXCEPT ![self] = "loop"]
               /\ UNCHANGED << lst, resizing, reading, nextId, toDelete, 
                               pending, joined, finished, work, idx, ok >>

tend(self) == /\ pc[self] = "tend"
              /\ joined' = joined + 1
              /\ pc' = [pc EXCEPT ![self] = "Done"]
              /\ UNCHANGED << lst, resizing, reading, lock, nextId, toDelete, 
                              pending, finished, work, idx, ok >>

thr(self) == loop(self) \/ rb(self) \/ re(self) \/ ck(self) \/ enter(self)
                \/ c1(self) \/ c2(self) \/ leave(self) \/ tend(self)

join == /\ pc[0] = "join"
        /\ joined = Cardinality(Threads)
        /\ pc' = [pc EXCEPT ![0] = "fin"]
        /\ UNCHANGED << lst, resizing, reading, lock, nextId, toDelete, 
                        pending, joined, finished, work, idx, ok >>

fin == /\ pc[0] = "fin"
       /\ lst' = SelectSeq(lst \o pending, LAMBDA c : c.mother # 0 \/ c.id \notin toDelete)
       /\ finished' = TRUE
       /\ pc' = [pc EXCEPT ![0] = "Done"]
       /\ UNCHANGED << resizing, reading, lock, nextId, toDelete, pending, 
                       joined, work, idx, ok >>

main == join \/ fin

(* Allow infinite stuttering to prevent deadlock on termination. *)
Terminating == /\ \A self \in ProcSet: pc[self] = "Done"
               /\ UNCHANGED vars

Next == main
           \/ (\E self \in Threads: thr(self))
           \/ Terminating

Spec == /\ Init /\ [][Next]_vars
        /\ \A self \in Threads : WF_vars(thr(self))
        /\ WF_vars(main)

Termination == <>(\A self \in ProcSet: pc[self] = "Done")

\* END TRANSLATION 
---------------------------------------------------------------------------
(* C15: the population list is never read while another thread is resizing it *)
NoReadDuringResize == \A t \in Threads : reading[t] # 0 => ~resizing
(* no cell lost, duplicated or given a duplicate id: when the loop is over the list is what dividing the same
   cells one after another gives (up to the order and the numbering of the daughters) *)
Divided == toDelete
FinalOK == finished =>
    /\ \A a, b \in 1..Len(lst) : a # b => lst[a].id # lst[b].id
    /\ {lst[a].id : a \in {x \in 1..Len(lst) : lst[x].mother = 0}} = (1..N) \ Divided
    /\ \A m \in Divided : Cardinality({a \in 1..Len(lst) : lst[a].mother = m}) = 2
    /\ Len(lst) = N + Cardinality(Divided)
    /\ Divided \subseteq ReadySet
    /\ \A a \in 1..Len(lst) : lst[a].id < nextId
Terminates == <>finished
=============================================================================
