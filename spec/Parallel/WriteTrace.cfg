SPECIFICATION TSpec
INVARIANTS P_Setup P_CellFile P_FaceFile P_Compacted
CHECK_DEADLOCK FALSE
