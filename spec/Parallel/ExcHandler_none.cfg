SPECIFICATION Spec
CONSTANTS
  Items = {1, 2, 3, 4}
  Threads = {1, 2}
  Throwers = {}
INVARIANTS RethrownWasThrown AfterAllFinished NoneLost
PROPERTIES Terminates
