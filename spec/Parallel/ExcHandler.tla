----------------------------- MODULE ExcHandler -----------------------------
(***************************************************************************)
(* parallel_exception_handler (include/utils.hpp): a parallel loop whose   *)
(* body may throw; a throwing item stores its exception under an omp       *)
(* critical section; after the implicit barrier the stored exception is    *)
(* rethrown to the caller.  Property C15 (error part).                     *)
(***************************************************************************)
EXTENDS Integers, FiniteSets, TLC
CONSTANTS Items, Threads, Throwers      \* Throwers \subseteq Items: the items whose body throws (exception type = the item)

Assigned(t) == {x \in Items : (x % Cardinality(Threads)) = (t % Cardinality(Threads))}

(* --algorithm ExcHandler {
  variables eptr = 0,                 \* 0: no exception stored
            lock = 0, started = {}, finished = {}, joined = 0,
            outcome = "running";      \* "returned" | "rethrown"
  fair process (w \in Threads)
    variables work = Assigned(self), it = 0;
  {
   loop: while (work # {}) {
           it := CHOOSE x \in work : \A y \in work : x <= y;
           work := work \ {it};
           started := started \cup {it};
     body: if (it \in Throwers) {
     enter:  await lock = 0; lock := self;        \* catch(...) { #pragma omp critical
     store:  eptr := it;
     leave:  lock := 0;
           };
     done:  finished := finished \cup {it};
         };
   tend: joined := joined + 1;
  }
  fair process (caller = 0)
  {
   join: await joined = Cardinality(Threads);
   ret:  outcome := IF eptr # 0 THEN "rethrown" ELSE "returned";
  }
} *)
\* BEGIN TRANSLATION (chksum(pcal) = "4de4d5f7" /\ chksum(tla) = "62e1f0d3")
VARIABLES pc, eptr, lock, started, finished, joined, outcome, work, it

vars == << pc, eptr, lock, started, finished, joined, outcome, work, it >>

ProcSet == (Threads) \cup {0}

Init == (* Global variables *)
        /\ eptr = 0
        /\ lock = 0
        /\ started = {}
        /\ finished = {}
        /\ joined = 0
        /\ outcome = "running"
        (* Process w *)
        /\ work = [self \in Threads |-> Assigned(self)]
        /\ it = [self \in Threads |-> 0]
        /\ pc = [self \in ProcSet |-> CASE self \in Threads -> "loop"
                                        [] self = 0 -> "join"]

loop(self) == /\ pc[self] = "loop"
              /\ IF work[self] # {}
                    THEN /\ it' = [it EXCEPT ![self] = CHOOSE x \in work[self] : \A y \in work[self] : x <= y]
                         /\ work' = [work EXCEPT ![self] = work[self] \ {it'[self]}]
                         /\ started' = (started \cup {it'[self]})
                         /\ pc' = [pc EXCEPT ![self] = "body"]
                    ELSE /\ pc' = [pc EXCEPT ![self] = "tend"]
                         /\ UNCHANGED << started, work, it >>
              /\ UNCHANGED << eptr, lock, finished, joined, outcome >>

body(self) == /\ pc[self] = "body"
              /\ IF it[self] \in Throwers
                    THEN /\ pc' = [pc EXCEPT ![self] = "enter"]
                    ELSE /\ pc' = [pc EXCEPT ![self] = "done"]
              /\ UNCHANGED << eptr, lock, started, finished, joined, outcome, 
                              work, it >>

enter(self) == /\ pc[self] = "enter"
               /\ lock = 0
               /\ lock' = self
               /\ pc' = [pc EXCEPT ![self] = "store"]
               /\ UNCHANGED << eptr, started, finished, joined, outcome, work, 
                               it >>

store(self) == /\ pc[self] = "store"
               /\ eptr' = it[self]
               /\ pc' = [pc EXCEPT ![self] = "leave"]
               /\ UNCHANGED << lock, started, finished, joined, outcome, work, 
                               it >>

leave(self) == /\ pc[self] = "leave"
               /\ lock' = 0
               /\ pc' = [pc EXCEPT ![self] = "done"]
               /\ UNCHANGED << eptr, started, finished, joined, outcome, work, 
                               it >>

done(self) == /\ pc[self] = "done"
              /\ finished' = (finished \cup {it[self]})
              /\ pc' = [pc EXCEPT ![self] = "loop"]
              /\ UNCHANGED << eptr, lock, started, joined, outcome, work, it >>

tend(self) == /\ pc[self] = "tend"
              /\ joined' = joined + 1
              /\ pc' = [pc EXCEPT ![self] = "Done"]
              /\ UNCHANGED << eptr, lock, started, finished, outcome, work, it >>

w(self) == loop(self) \/ body(self) \/ enter(self) \/ store(self)
              \/ leave(self) \/ done(self) \/ tend(self)

join == /\ pc[0] = "join"
        /\ joined = Cardinality(Threads)
        /\ pc' = [pc EXCEPT ![0] = "ret"]
        /\ UNCHANGED << eptr, lock, started, finished, joined, outcome, work, 
                        it >>

ret == /\ pc[0] = "ret"
       /\ outcome' = (IF eptr # 0 THEN "rethrown" ELSE "returned")
       /\ pc' = [pc EXCEPT ![0] = "Done"]
       /\ UNCHANGED << eptr, lock, started, finished, joined, work, it >>

caller == join \/ ret

(* Allow infinite stuttering to prevent deadlock on termination. *)
Terminating == /\ \A self \in ProcSet: pc[self] = "Done"
               /\ UNCHANGED vars

Next == caller
           \/ (\E self \in Threads: w(self))
           \/ Terminating

Spec == /\ Init /\ [][Next]_vars
        /\ \A self \in Threads : WF_vars(w(self))
        /\ WF_vars(caller)

Termination == <>(\A self \in ProcSet: pc[self] = "Done")

\* END TRANSLATION 
---------------------------------------------------------------------------
RethrownWasThrown == eptr # 0 => eptr \in Throwers
AfterAllFinished  == outcome # "running" => finished = Items
NoneLost          == outcome # "running" => (outcome = "rethrown" <=> Throwers # {})
Terminates        == <>(outcome # "running")
=============================================================================
