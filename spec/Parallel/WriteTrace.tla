------------------------------ MODULE WriteTrace ------------------------------
(* C15, mesh output: real mesh_writer::write on a tissue of non-interacting cells whose lists hold free slots (real edge collapses
   of the local mesh refiner, no compaction since), at several thread counts and repeated (harness/drivers/par_driver.cpp, mode
   write).  One record per call: digests and sizes of the two files, the digests of the single-threaded reference call on an
   identically rebuilt tissue, the number of free slots before the call.  spec/Parallel/WriteSections shows that with the
   compaction joined before the two sections every schedule writes every cell in its compacted state (FilesAgree): the files of
   every call must therefore be those of the single-threaded call. *)
EXTENDS Naturals, Sequences, Json, IOUtils, TLC
Log == ndJsonDeserialize(IOEnv.OBS)
VARIABLE k
R == Log[k]
TInit == k \in 1..Len(Log)
TSpec == TInit /\ [][UNCHANGED k]_k
\* the tissue really had something to compact, and the call returned
P_Setup == R.free_nodes > 0 /\ R.free_faces > 0 /\ R.returned
P_CellFile == R.cell_digest = R.ref_cell_digest /\ R.cell_size = R.ref_cell_size
P_FaceFile == R.face_digest = R.ref_face_digest /\ R.face_size = R.ref_face_size
\* after the call every cell is compact (what the files describe is what is in memory)
P_Compacted == R.free_after = 0
=============================================================================
