------------------------------ MODULE ParTrace ------------------------------
(***************************************************************************)
(* Trace validation for C15 (harness/drivers/par_driver.cpp).  Events are  *)
(* ordered by a global ticket.                                             *)
(* divide traces: behaviours of ParDivide seen through hook H5 -- "read"   *)
(*   = rb (a thread reads lst[i] without a lock), "crit_begin"/"crit_end"  *)
(*   = enter/leave.  A critical section whose (size, buffer) of the shared *)
(*   list differs between begin and end resized the list; no read of       *)
(*   another thread may lie in between (NoReadDuringResize).               *)
(* exc traces: behaviours of ExcHandler -- start / finish / threw per item,*)
(*   then caught(k) or returned for the caller.                            *)
(***************************************************************************)
EXTENDS Integers, Sequences, FiniteSets, TLC, Json, IOUtils
Log == ndJsonDeserialize(IOEnv.OBS)
VARIABLES l, open, readers, started, ended, thrown, tags
vars == <<l, open, readers, started, ended, thrown, tags>>
Tag(cond, name) == IF cond THEN {} ELSE {name}
ToSet(q) == {q[i] : i \in 1..Len(q)}
None == [size |-> -1, buf |-> -1]

TInit == l = 0 /\ open = [t \in 0..63 |-> None] /\ readers = [t \in 0..63 |-> {}] /\ started = {} /\ ended = {} /\ thrown = {} /\ tags = {}

Step ==
  /\ l < Len(Log) /\ l' = l + 1
  /\ LET ev == Log[l + 1] IN
     CASE ev.e = "read" ->
            /\ readers' = [t \in 0..63 |-> IF open[t] # None /\ t # ev.t THEN readers[t] \cup {ev.t} ELSE readers[t]]
            /\ tags' = {} /\ UNCHANGED <<open, started, ended, thrown>>
       [] ev.e = "crit_begin" ->
            /\ open' = [open EXCEPT ![ev.t] = [size |-> ev.size, buf |-> ev.buf]]
            /\ readers' = [readers EXCEPT ![ev.t] = {}]
            /\ tags' = Tag(\A t \in 0..63 : open[t] = None, "C15_CriticalSectionExclusive")
            /\ UNCHANGED <<started, ended, thrown>>
       [] ev.e = "crit_end" ->
            /\ LET resized == open[ev.t] # [size |-> ev.size, buf |-> ev.buf]
               IN tags' = Tag(~(resized /\ readers[ev.t] # {}), "C15_NoReadDuringResize")
            /\ open' = [open EXCEPT ![ev.t] = None]
            /\ UNCHANGED <<readers, started, ended, thrown>>
       [] ev.e = "result" ->
            /\ LET ids == [i \in 1..Len(ev.cells) |-> ev.cells[i].id]
                   refids == [i \in 1..Len(ev.ref) |-> ev.ref[i].id]
                   surv(q) == {x \in ToSet(q) : x < ev.n_before}
               IN tags' = Tag(Cardinality(ToSet(ids)) = Len(ids), "C15_NoDuplicateId")
                       \cup Tag(\A i \in 1..Len(ids) : ids[i] < ev.next, "C15_IdsBelowCounter")
                       \cup Tag(Len(ids) = ev.n_before + (ev.next - ev.n_before) \div 2 /\ (ev.next - ev.n_before) % 2 = 0, "C15_NoCellLostOrDuplicated")
                       \cup Tag(\A i \in 1..Len(ev.cells) : ev.cells[i].lid = i - 1, "C15_ListRenumbered")
                       \cup Tag(surv(ids) = surv(refids) /\ Len(ids) = Len(refids) /\ ev.next = ev.ref_next, "C15_SameAsSequential")
                       \cup Tag(\A i \in 1..Len(ev.cells) : ev.cells[i].nn > 0, "C15_NoEmptyCell")
            /\ UNCHANGED <<open, readers, started, ended, thrown>>
       [] ev.e = "start" -> started' = started \cup {ev.i} /\ tags' = {} /\ UNCHANGED <<open, readers, ended, thrown>>
       [] ev.e = "finish" -> ended' = ended \cup {ev.i} /\ tags' = {} /\ UNCHANGED <<open, readers, started, thrown>>
       [] ev.e = "threw" -> thrown' = thrown \cup {ev.i} /\ ended' = ended \cup {ev.i} /\ tags' = {} /\ UNCHANGED <<open, readers, started>>
       [] ev.e = "caught" ->
            /\ tags' = Tag(ev.i \in thrown, "C15_RethrownWasThrown") \cup Tag(started = ended, "C15_AfterAllFinished")
            /\ UNCHANGED <<open, readers, started, ended, thrown>>
       [] ev.e = "returned" ->
            /\ tags' = Tag(thrown = {}, "C15_ExceptionNotLost") \cup Tag(started = ended, "C15_AfterAllFinished")
            /\ UNCHANGED <<open, readers, started, ended, thrown>>
       [] ev.e = "exc_result" ->
            /\ tags' = Tag(Cardinality(started) = ev.n \/ ev.target = "writer", "C15_EveryItemRan")
                    \cup Tag(ToSet(ev.throwers) = thrown, "C15_ThrowersThrew")
                    \cup Tag(ev.throwers # <<>> => ev.caught # "none", "C15_ExceptionNotLost")
                    \cup Tag(ev.caught \notin {"other", "std::exception"}, "C15_ExceptionTypeKept")
            /\ UNCHANGED <<open, readers, started, ended, thrown>>
       [] OTHER -> tags' = {} /\ UNCHANGED <<open, readers, started, ended, thrown>>
TSpec == TInit /\ [][Step]_vars
NoTag(t) == t \notin tags
I_C15_CriticalSectionExclusive == NoTag("C15_CriticalSectionExclusive")
I_C15_NoReadDuringResize == NoTag("C15_NoReadDuringResize")
I_C15_NoDuplicateId == NoTag("C15_NoDuplicateId")
I_C15_IdsBelowCounter == NoTag("C15_IdsBelowCounter")
I_C15_NoCellLostOrDuplicated == NoTag("C15_NoCellLostOrDuplicated")
I_C15_ListRenumbered == NoTag("C15_ListRenumbered")
I_C15_SameAsSequential == NoTag("C15_SameAsSequential")
I_C15_NoEmptyCell == NoTag("C15_NoEmptyCell")
I_C15_RethrownWasThrown == NoTag("C15_RethrownWasThrown")
I_C15_AfterAllFinished == NoTag("C15_AfterAllFinished")
I_C15_ExceptionNotLost == NoTag("C15_ExceptionNotLost")
I_C15_EveryItemRan == NoTag("C15_EveryItemRan")
I_C15_ThrowersThrew == NoTag("C15_ThrowersThrew")
I_C15_ExceptionTypeKept == NoTag("C15_ExceptionTypeKept")
=============================================================================
