---- MODULE WriteSections_TTrace_1790506140 ----
EXTENDS Sequences, TLCExt, Toolbox, Naturals, TLC, WriteSections

_expression ==
    LET WriteSections_TEExpression == INSTANCE WriteSections_TEExpression
    IN WriteSections_TEExpression!expression
----

_trace ==
    LET WriteSections_TETrace == INSTANCE WriteSections_TETrace
    IN WriteSections_TETrace!trace
----

_inv ==
    ~(
        TLCGet("level") = Len(_TETrace)
        /\
        phase = ("sections")
        /\
        compact = (<<"busy", "no", "no">>)
        /\
        pos = ([cell |-> 1, face |-> 1])
        /\
        readers = (<<{"face"}, {}, {}>>)
        /\
        claimed = ({})
        /\
        saw = ([cell |-> <<"-", "-", "-">>, face |-> <<"busy", "-", "-">>])
        /\
        step = ([cell |-> "compacting", face |-> "reading"])
    )
----

_init ==
    /\ pos = _TETrace[1].pos
    /\ readers = _TETrace[1].readers
    /\ step = _TETrace[1].step
    /\ phase = _TETrace[1].phase
    /\ compact = _TETrace[1].compact
    /\ claimed = _TETrace[1].claimed
    /\ saw = _TETrace[1].saw
----

_next ==
    /\ \E i,j \in DOMAIN _TETrace:
        /\ \/ /\ j = i + 1
              /\ i = TLCGet("level")
        /\ pos  = _TETrace[i].pos
        /\ pos' = _TETrace[j].pos
        /\ readers  = _TETrace[i].readers
        /\ readers' = _TETrace[j].readers
        /\ step  = _TETrace[i].step
        /\ step' = _TETrace[j].step
        /\ phase  = _TETrace[i].phase
        /\ phase' = _TETrace[j].phase
        /\ compact  = _TETrace[i].compact
        /\ compact' = _TETrace[j].compact
        /\ claimed  = _TETrace[i].claimed
        /\ claimed' = _TETrace[j].claimed
        /\ saw  = _TETrace[i].saw
        /\ saw' = _TETrace[j].saw

\* Uncomment the ASSUME below to write the states of the error trace
\* to the given file in Json format. Note that you can pass any tuple
\* to `JsonSerialize`. For example, a sub-sequence of _TETrace.
    \* ASSUME
    \*     LET J == INSTANCE Json
    \*         IN J!JsonSerialize("WriteSections_TTrace_1790506140.json", _TETrace)

=============================================================================

 Note that you can extract this module `WriteSections_TEExpression`
  to a dedicated file to reuse `expression` (the module in the 
  dedicated `WriteSections_TEExpression.tla` file takes precedence 
  over the module `WriteSections_TEExpression` below).

---- MODULE WriteSections_TEExpression ----
EXTENDS Sequences, TLCExt, Toolbox, Naturals, TLC, WriteSections

expression == 
    [
        \* To hide variables of the `WriteSections` spec from the error trace,
        \* remove the variables below.  The trace will be written in the order
        \* of the fields of this record.
        pos |-> pos
        ,readers |-> readers
        ,step |-> step
        ,phase |-> phase
        ,compact |-> compact
        ,claimed |-> claimed
        ,saw |-> saw
        
        \* Put additional constant-, state-, and action-level expressions here:
        \* ,_stateNumber |-> _TEPosition
        \* ,_posUnchanged |-> pos = pos'
        
        \* Format the `pos` variable as Json value.
        \* ,_posJson |->
        \*     LET J == INSTANCE Json
        \*     IN J!ToJson(pos)
        
        \* Lastly, you may build expressions over arbitrary sets of states by
        \* leveraging the _TETrace operator.  For example, this is how to
        \* count the number of times a spec variable changed up to the current
        \* state in the trace.
        \* ,_posModCount |->
        \*     LET F[s \in DOMAIN _TETrace] ==
        \*         IF s = 1 THEN 0
        \*         ELSE IF _TETrace[s].pos # _TETrace[s-1].pos
        \*             THEN 1 + F[s-1] ELSE F[s-1]
        \*     IN F[_TEPosition - 1]
    ]

=============================================================================



Parsing and semantic processing can take forever if the trace below is long.
 In this case, it is advised to uncomment the module below to deserialize the
 trace from a generated binary file.

\*
\*---- MODULE WriteSections_TETrace ----
\*EXTENDS IOUtils, TLC, WriteSections
\*
\*trace == IODeserialize("WriteSections_TTrace_1790506140.bin", TRUE)
\*
\*=============================================================================
\*

---- MODULE WriteSections_TETrace ----
EXTENDS TLC, WriteSections

trace == 
    <<
    ([phase |-> "sections",compact |-> <<"no", "no", "no">>,pos |-> [cell |-> 1, face |-> 1],readers |-> <<{}, {}, {}>>,claimed |-> {},saw |-> [cell |-> <<"-", "-", "-">>, face |-> <<"-", "-", "-">>],step |-> [cell |-> "idle", face |-> "idle"]]),
    ([phase |-> "sections",compact |-> <<"busy", "no", "no">>,pos |-> [cell |-> 1, face |-> 1],readers |-> <<{}, {}, {}>>,claimed |-> {},saw |-> [cell |-> <<"-", "-", "-">>, face |-> <<"-", "-", "-">>],step |-> [cell |-> "compacting", face |-> "idle"]]),
    ([phase |-> "sections",compact |-> <<"busy", "no", "no">>,pos |-> [cell |-> 1, face |-> 1],readers |-> <<{"face"}, {}, {}>>,claimed |-> {},saw |-> [cell |-> <<"-", "-", "-">>, face |-> <<"busy", "-", "-">>],step |-> [cell |-> "compacting", face |-> "reading"]])
    >>
----


=============================================================================

---- CONFIG WriteSections_TTrace_1790506140 ----
CONSTANTS
    N = 3
    Workers = 2
    RebaseWhere = "in_cell_section"

INVARIANT
    _inv

CHECK_DEADLOCK
    \* CHECK_DEADLOCK off because of PROPERTY or INVARIANT above.
    FALSE

INIT
    _init

NEXT
    _next

CONSTANT
    _TETrace <- _trace

ALIAS
    _expression
=============================================================================
\* Generated on Sun Sep 27 10:49:01 UTC 2026