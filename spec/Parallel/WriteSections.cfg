SPECIFICATION Spec
CONSTANTS
  N = 3
  Workers = 2
  RebaseWhere = "before"
INVARIANTS NoReadDuringCompaction FilesAgree
PROPERTY Terminates
CHECK_DEADLOCK FALSE
