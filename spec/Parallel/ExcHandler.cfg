SPECIFICATION Spec
CONSTANTS
  Items = {1, 2, 3, 4, 5}
  Threads = {1, 2, 3}
  Throwers = {2, 5}
INVARIANTS RethrownWasThrown AfterAllFinished NoneLost
PROPERTIES Terminates
