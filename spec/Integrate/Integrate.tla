------------------------------ MODULE Integrate ------------------------------
(***************************************************************************)
(* time_integration_scheme::update_nodes_positions (src/time_integration/  *)
(* time_integration.cpp) in exact dyadic arithmetic.  Property C03.        *)
(*                                                                         *)
(* Two cells with two nodes of interest each (node 1 of cell 1 and node 1  *)
(* of cell 2 may be mutually coupled; node 2 of each cell is free).  All   *)
(* quantities are integers in units of 2^-Shift; masses, time steps and    *)
(* the overdamped damping are powers of two, so every division is exact    *)
(* (ExactDiv asserts it) and IEEE doubles compute the same values exactly. *)
(* The law is linear in (position, momentum, force), so one scalar per     *)
(* node stands for the three components.                                   *)
(***************************************************************************)
EXTENDS Integers, Sequences, FiniteSets, TLC

CONSTANTS Model,       \* "dyn": semi-implicit Euler (DYNAMIC_MODEL_INDEX 0)   "over": overdamped forward Euler (1)
          Vals,        \* candidate values of momentum / force (integers, multiples of 2^Shift-ish: see MC module)
          Masses,      \* node masses (powers of two)
          DtInv,       \* candidate 1/dt (powers of two)
          Damps,       \* damping coefficients
          MaxSteps,
          FreeNode1, FreeNode2   \* initial state of the two free nodes

VARIABLES static, mass, dtinv, damp, coupled, hi, nodes, time, hist
vars == <<static, mass, dtinv, damp, coupled, hi, nodes, time, hist>>

Cells == {1, 2}
NodeIds == {<<1, 1>>, <<1, 2>>, <<2, 1>>, <<2, 2>>}     \* <<cell, node>>
ExactDiv(x, k) == IF x % k = 0 THEN x \div k ELSE Assert(FALSE, <<"inexact division", x, k>>)

\* one uncoupled node of a cell of node mass m
StepDyn(n, m) ==
    LET mom1 == n.mom + ExactDiv(n.force - ExactDiv(damp * n.mom, m), dtinv)
    IN [pos |-> n.pos + ExactDiv(ExactDiv(mom1, dtinv), m), mom |-> mom1, force |-> 0]
StepOver(n) == [pos |-> n.pos + ExactDiv(ExactDiv(n.force, dtinv), damp), mom |-> n.mom, force |-> 0]
Step1(n, m) == IF Model = "dyn" THEN StepDyn(n, m) ELSE StepOver(n)

\* the mutually coupled pair: momenta, forces and masses are averaged, both nodes get the same update
PairStep(a, b) ==
    LET avgMom   == ExactDiv(a.mom + b.mom, 2)
        avgForce == ExactDiv(a.force + b.force, 2)
        avgMass  == ExactDiv(mass[1] + mass[2], 2)
        r == Step1([pos |-> 0, mom |-> IF Model = "dyn" THEN avgMom ELSE 0, force |-> avgForce], avgMass)
    IN << [pos |-> a.pos + r.pos, mom |-> IF Model = "dyn" THEN r.mom ELSE a.mom, force |-> 0],
          [pos |-> b.pos + r.pos, mom |-> IF Model = "dyn" THEN r.mom ELSE b.mom, force |-> 0] >>

Init == /\ static \in [Cells -> BOOLEAN]
        /\ mass \in [Cells -> Masses]
        /\ dtinv \in DtInv /\ damp \in Damps
        /\ coupled \in BOOLEAN
        /\ (coupled => ~static[1] /\ ~static[2])            \* couplings only exist between (non-static) epithelial cells
        /\ hi \in Cells                                      \* the cell with the greater list position processes the pair
        /\ \E a, b \in [pos : {0}, mom : Vals, force : Vals] :
              nodes = [id \in NodeIds |-> IF id = <<1, 1>> THEN a ELSE IF id = <<2, 1>> THEN b
                                          ELSE IF id = <<1, 2>> THEN FreeNode1 ELSE FreeNode2]   \* the free nodes carry one fixed non-trivial state
        /\ time = 0 /\ hist = <<>>

Step == /\ Len(hist) < MaxSteps
        /\ LET pr == PairStep(nodes[<<1, 1>>], nodes[<<2, 1>>])
               new == [id \in NodeIds |->
                         IF static[id[1]] THEN nodes[id]                             \* static cells are skipped entirely
                         ELSE IF coupled /\ id[2] = 1 THEN pr[id[1]]
                         ELSE Step1(nodes[id], mass[id[1]])]
           IN /\ hist' = Append(hist, [pre |-> nodes, post |-> new])
              /\ nodes' = new
        /\ time' = time + 1                                  \* in units of dt
        /\ UNCHANGED <<static, mass, dtinv, damp, coupled, hi>>

\* new forces are accumulated between two steps
Reforce == /\ hist # <<>> /\ Len(hist) < MaxSteps
           /\ \A id \in NodeIds : nodes[id].force = 0
           /\ \E fa, fb \in Vals : nodes' = [id \in NodeIds |-> [nodes[id] EXCEPT !.force =
                    IF id = <<1, 1>> THEN fa ELSE IF id = <<2, 1>> THEN fb ELSE IF id = <<1, 2>> THEN FreeNode2.force ELSE FreeNode1.force]]
           /\ UNCHANGED <<static, mass, dtinv, damp, coupled, hi, time, hist>>

Next == Step \/ Reforce
Spec == Init /\ [][Next]_vars

---------------------------------------------------------------------------
(* Property C03 *)
Last == hist[Len(hist)]
StaticFrozen == hist # <<>> => \A id \in NodeIds : static[id[1]] => Last.post[id] = Last.pre[id]
ForcesZeroed == hist # <<>> => \A id \in NodeIds : ~static[id[1]] => Last.post[id].force = 0
TimeAdvances == time = Len(hist)
PairSameDisplacement == (hist # <<>> /\ coupled) =>
    Last.post[<<1,1>>].pos - Last.pre[<<1,1>>].pos = Last.post[<<2,1>>].pos - Last.pre[<<2,1>>].pos
\* the averaging keeps the pair's total momentum and force: afterwards the total momentum is what the law gives for the totals
PairMomentum == (hist # <<>> /\ coupled /\ Model = "dyn") =>
    LET a == Last.pre[<<1,1>>]  b == Last.pre[<<2,1>>]
        avgMass == ExactDiv(mass[1] + mass[2], 2)
    IN /\ Last.post[<<1,1>>].mom = Last.post[<<2,1>>].mom
       /\ Last.post[<<1,1>>].mom + Last.post[<<2,1>>].mom
            = (a.mom + b.mom) + ExactDiv((a.force + b.force) - ExactDiv(damp * (a.mom + b.mom), avgMass), dtinv)
\* the documented law for a free node
FreeNodeLaw == hist # <<>> => \A c \in Cells : ~static[c] =>
    LET p == Last.pre[<<c, 2>>]  q == Last.post[<<c, 2>>]
    IN IF Model = "dyn"
       THEN /\ q.mom * dtinv * mass[c] = p.mom * dtinv * mass[c] + (p.force * mass[c] - damp * p.mom)
            /\ (q.pos - p.pos) * dtinv * mass[c] = q.mom
       ELSE (q.pos - p.pos) * dtinv * damp = p.force /\ q.mom = p.mom
=============================================================================
