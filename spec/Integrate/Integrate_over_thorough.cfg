SPECIFICATION Spec
CONSTANTS
  Model = "over"
  Vals <- MCVals
  Masses = {2, 6}
  DtInv = {1, 2}
  Damps = {2, 4}
  FreeNode1 <- FN1
  FreeNode2 <- FN2
  MaxSteps = 2
INVARIANTS StaticFrozen ForcesZeroed TimeAdvances PairSameDisplacement PairMomentum FreeNodeLaw
CHECK_DEADLOCK FALSE
