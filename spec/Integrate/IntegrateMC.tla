----------------------------- MODULE IntegrateMC -----------------------------
EXTENDS Integrate
\* values are multiples of U = 144^2 * 4 so that two steps with node masses 2 and 6 (average 4), dt = 1/2 and damping 1..4 stay integral
U == 82944
MCVals == {-2 * U, 0, U, 3 * U}
MCValsQ == {-2 * U, 0, 3 * U}
FN1 == [pos |-> 0, mom |-> U, force |-> -2 * U]
FN2 == [pos |-> 0, mom |-> 3 * U, force |-> U]
=============================================================================
