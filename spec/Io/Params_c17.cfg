SPECIFICATION Spec
CONSTANTS
  FaultKinds = {"empty", "text", "huge"}
INVARIANTS Inv_Schema Inv_Rules
CHECK_DEADLOCK FALSE
