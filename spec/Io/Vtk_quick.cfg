SPECIFICATION Spec
CONSTANTS
  SwapRefreshesNormals = TRUE
  MergeKeepsFourNodes = TRUE
  MaxCells = 1
INVARIANTS Inv_RoundTrip
CHECK_DEADLOCK FALSE
