---------------------------- MODULE StartupTrace ----------------------------
(***************************************************************************)
(* C18, "the values then govern the run", start-up half: the two           *)
(* parameters that are consumed before the first iteration.  A record is   *)
(* one cell of a mesh file started up four times through the XML           *)
(* constructor of the real simulation_initializer (the path of main()):    *)
(* <perform_initial_triangulation> 0 / 1  x  <min_edge_length> coarse /    *)
(* fine.  n_* / f_* are the node and face counts of the cell handed over.  *)
(***************************************************************************)
EXTENDS Integers, Sequences, Json, IOUtils, TLC

Log == ndJsonDeserialize(IOEnv.OBS)
VARIABLE k
R == Log[k]
TInit == k \in 1..Len(Log)
TSpec == TInit /\ [][UNCHANGED k]_k

\* a closed triangulated surface of genus 0: F = 2N - 4
Sphere(n, f) == n >= 4 /\ f = 2 * n - 4
\* flag 0: the cell is the one in the file, whatever the minimum edge length says
P_FlagOffKeepsTheMesh == R.kind = "startup" =>
                         /\ R.n_off_coarse = R.file_nodes /\ R.f_off_coarse = R.file_faces
                         /\ R.n_off_fine   = R.file_nodes /\ R.f_off_fine   = R.file_faces
\* flag 1: the surface is re-sampled (the file's coarse polyhedron is replaced by a mesh of many more triangles) ...
P_FlagOnRemeshes == R.kind = "startup" =>
                    /\ Sphere(R.n_on_coarse, R.f_on_coarse) /\ Sphere(R.n_on_fine, R.f_on_fine)
                    /\ R.n_on_coarse > 2 * R.file_nodes
\* ... at the resolution the minimum edge length names: halving it gives between two and eight times the nodes (four in the limit)
P_EdgeLengthGoverns == R.kind = "startup" => 2 * R.n_on_coarse < R.n_on_fine /\ R.n_on_fine < 8 * R.n_on_coarse
\* ... and during the run: the same growing tissue simulated with three values of <min_edge_length> ends with more nodes the
\* smaller the value is (records of kind "run": total numbers of nodes after the last refinement phase, smallest value first)
P_EdgeLengthGovernsTheRun == R.kind = "run" => (R.nodes[1] > R.nodes[2] /\ R.nodes[2] > R.nodes[3])
=============================================================================
