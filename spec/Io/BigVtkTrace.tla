----------------------------- MODULE BigVtkTrace -----------------------------
(* C16 on a population with more than 65536 points and 131072 triangles in one file, where offsets, counts and face numbers have
   room to wrap.  Too large for TLC to tokenise: the driver (vtk_driver big) compares what the real reader returns with what the
   real writer was given and logs verdicts, which this module requires. *)
EXTENDS Integers, Sequences, Json, IOUtils
Obs == ndJsonDeserialize(IOEnv.OBS)
VARIABLE k
R == Obs[k]
TInit == k \in 1..Len(Obs)
TSpec == TInit /\ [][UNCHANGED k]_k
P_BigNoError   == R.write_error = "" /\ R.read_error = ""
P_BigRoundTrip == R.counts_ok /\ R.types_ok /\ R.tris_ok
P_BigIsBig     == R.npoints > 65536 /\ R.ntris > 131071
=============================================================================
