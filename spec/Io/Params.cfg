SPECIFICATION Spec
INVARIANTS Inv_Schema Inv_Rules
CHECK_DEADLOCK FALSE
