SPECIFICATION Spec
CONSTANTS
  FaultKinds = {"omit", "neg", "zero", "inf", "eqstep"}
INVARIANTS Inv_Schema Inv_Rules
CHECK_DEADLOCK FALSE
