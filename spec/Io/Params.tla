-------------------------------- MODULE Params --------------------------------
(***************************************************************************)
(* The XML parameter file of SimuCell3D as a schema (src/io/               *)
(* parameter_reader.cpp, doc/parameter_file_doc.md): for every tag the     *)
(* section, the kind of value, the sign rule, whether INF is documented.   *)
(* Expected(case) is what parameter_reader must do with a file that is     *)
(* valid except for one fault.  Properties C18 and the parameter half of   *)
(* C17.                                                                    *)
(*                                                                         *)
(* Values are abstract tokens: every tag instance of a file carries a      *)
(* distinct positive integer (so that a value wired to the wrong field or  *)
(* the wrong cell/face type is visible); the check renders token t as a    *)
(* decimal or scientific-notation number and maps the doubles returned by  *)
(* the reader back to tokens.                                              *)
(***************************************************************************)
EXTENDS Integers, Sequences, FiniteSets, TLC

\* rule: "pos" (> 0), "nonneg" (>= 0), "free";   inf: INF / inf / Inf is documented to mean infinity
Tag(n, k, r, i) == [name |-> n, kind |-> k, rule |-> r, inf |-> i]
NumTags == << Tag("input_mesh_file_path", "str", "free", FALSE), Tag("output_mesh_folder_path", "str", "free", FALSE),
              Tag("damping_coefficient", "num", "nonneg", FALSE), Tag("perform_initial_triangulation", "bool", "free", FALSE),
              Tag("simulation_duration", "num", "pos", FALSE), Tag("time_step", "num", "pos", FALSE),
              Tag("sampling_period", "num", "pos", FALSE), Tag("min_edge_length", "num", "pos", FALSE),
              Tag("contact_cutoff_adhesion", "num", "pos", FALSE), Tag("contact_cutoff_repulsion", "num", "pos", FALSE),
              Tag("enable_edge_swap_operation", "bool", "free", FALSE) >>
CellTags == << Tag("cell_type_name", "str", "free", FALSE), Tag("global_cell_id", "int", "free", FALSE),
               Tag("cell_mass_density", "num", "free", FALSE), Tag("cell_bulk_modulus", "num", "free", FALSE),
               Tag("max_inner_pressure", "num", "free", TRUE), Tag("area_elasticity_modulus", "num", "free", FALSE),
               Tag("avg_division_volume", "num", "free", TRUE), Tag("std_division_volume", "num", "free", FALSE),
               Tag("avg_growth_rate", "num", "free", FALSE), Tag("std_growth_rate", "num", "free", FALSE),
               Tag("target_isoperimetric_ratio", "num", "pos", FALSE), Tag("angle_regularization_factor", "num", "free", FALSE),
               Tag("min_vol", "num", "free", FALSE), Tag("surface_coupling_max_curvature", "num", "free", FALSE) >>
FaceTags == << Tag("face_type_name", "str", "free", FALSE), Tag("global_face_id", "int", "nonneg", FALSE),
               Tag("surface_tension", "num", "nonneg", FALSE), Tag("adherence_strength", "num", "nonneg", FALSE),
               Tag("repulsion_strength", "num", "nonneg", FALSE), Tag("bending_modulus", "num", "nonneg", FALSE) >>

\* a case: the shape of the file (number of face types of each cell type) and one fault
\* fault = [sec |-> "none" | "num" | "cell" | "face", c |-> cell type position, f |-> face type position, t |-> tag position,
\*          kind |-> "omit" | "neg" | "zero" | "inf" | "section"]
TagsOf(sec) == IF sec = "num" THEN NumTags ELSE IF sec = "cell" THEN CellTags ELSE FaceTags
FaultTag(ft) == TagsOf(ft.sec)[ft.t]

\* the token carried by a tag instance: distinct for distinct (section, cell, face, tag); time_step < sampling_period
Token(sec, c, f, t) == (IF sec = "num" THEN 0 ELSE IF sec = "cell" THEN 100 * c ELSE 100 * c + 20 * f) + t + (IF sec = "face" THEN 14 ELSE 0)

Applicable(shape, ft) ==
    \/ ft.sec = "none"
    \/ /\ ft.sec = "num" /\ ft.t \in 1..Len(NumTags)
    \/ /\ ft.sec = "cell" /\ ft.c \in 1..Len(shape) /\ ft.t \in 1..Len(CellTags)
    \/ /\ ft.sec = "face" /\ ft.c \in 1..Len(shape) /\ ft.f \in 1..shape[ft.c] /\ ft.t \in 1..Len(FaceTags)
Meaningful(ft) ==     \* the fault kind makes sense for the tag
    ft.sec = "none" \/ ft.kind \in {"omit", "empty", "text", "huge"} \/
    (FaultTag(ft).kind = "num" /\ ft.kind \in {"neg", "zero", "inf"}) \/
    (FaultTag(ft).kind = "int" /\ ft.kind \in {"neg", "zero"}) \/       \* INF in an integer id is a non-numeric value: C17
    \* a value exactly ON the one threshold that relates two tags: a sampling period equal to the time step (one file per iteration)
    (ft.kind = "eqstep" /\ ft.sec = "num" /\ FaultTag(ft).name = "sampling_period")

\* Verdict: "reject" = parameter_reader_exception required; "accept" = the structures must carry the values; "either" = undocumented
Verdict(ft) ==
    IF ft.sec = "none" THEN "accept"
    ELSE IF ft.kind = "omit" THEN "reject"
    \* C17: an empty or non-numeric element must be diagnosed; a text tag accepts any text; an empty one is a missing one
    ELSE IF ft.kind = "text" THEN (IF FaultTag(ft).kind = "str" THEN "accept" ELSE "reject")
    \* an overflowing number: out of range for a real-valued tag; an integer / boolean tag reads its leading digits
    ELSE IF ft.kind = "huge" THEN (IF FaultTag(ft).kind = "str" THEN "accept" ELSE IF FaultTag(ft).kind = "num" THEN "reject" ELSE "either")
    ELSE IF ft.kind = "empty" THEN "reject"
    ELSE IF ft.kind = "eqstep" THEN "accept"       \* S >= dt is the admissible range (C19 is quantified over it), equality included
    ELSE LET tg == FaultTag(ft) IN
         IF ft.kind = "neg"  THEN (IF tg.rule \in {"pos", "nonneg"} THEN "reject" ELSE "accept")
         ELSE IF ft.kind = "zero" THEN (IF tg.rule = "pos" THEN "reject" ELSE IF tg.name = "damping_coefficient" THEN "either" ELSE "accept")
         ELSE (* inf *)  IF tg.inf THEN "accept" ELSE "either"

\* value expected in the field of a tag instance when the file is accepted: a token, -token (neg), 0 (zero), "inf"
FieldValue(ft, sec, c, f, t) ==
    IF ft.sec = sec /\ ft.t = t /\ (sec = "num" \/ ft.c = c) /\ (sec # "face" \/ ft.f = f)
    THEN (IF ft.kind = "neg" THEN -Token(sec, c, f, t) ELSE IF ft.kind = "zero" THEN 0 ELSE IF ft.kind = "inf" THEN -1000000
          ELSE IF ft.kind = "eqstep" THEN Token("num", 0, 0, 6) ELSE Token(sec, c, f, t))
    ELSE Token(sec, c, f, t)
Inf == -1000000

---------------------------------------------------------------------------
(* sanity of the schema itself (checked by TLC over every case) *)
TokensDistinct(shape) ==
    LET all == {<<"num", 0, 0, t>> : t \in 1..Len(NumTags)} \cup {<<"cell", c, 0, t>> : c \in 1..Len(shape), t \in 1..Len(CellTags)}
               \cup {<<"face", c, f, t>> : c \in 1..Len(shape), f \in 1..3, t \in 1..Len(FaceTags)}
    IN \A x, y \in all : x # y => Token(x[1], x[2], x[3], x[4]) # Token(y[1], y[2], y[3], y[4])
SamplingNotBelowStep == Token("num", 0, 0, 7) >= Token("num", 0, 0, 6)
=============================================================================
