----------------------------- MODULE ParamsTrace -----------------------------
(* C18: what the real parameter_reader did with a generated file (harness/drivers/param_driver.cpp, values mapped back to tokens by
   checks/c18.py) against Params.Expected.  One record per case. *)
EXTENDS Params, Json, IOUtils
Log == ndJsonDeserialize(IOEnv.OBS)
VARIABLE k
R == Log[k]
TInit == k \in 1..Len(Log)
TSpec == TInit /\ [][UNCHANGED k]_k
Ft == R.fault
V == Verdict(Ft)
P_Verdict == /\ V = "reject" => R.outcome = "parameter_reader_exception"
             /\ V = "accept" => R.outcome = "ok"
             /\ R.outcome \in {"ok", "parameter_reader_exception"}          \* "either": one of the two, nothing else
\* every value sits in the field of its name, in the cell / face type it was written for, INF is infinity
P_Numerical == R.outcome = "ok" => \A t \in 1..Len(NumTags) : R.num[NumTags[t].name] = FieldValue(Ft, "num", 0, 0, t)
P_CellTypes == R.outcome = "ok" =>
                  /\ Len(R.cells) = Len(R.shape)
                  /\ \A c \in 1..Len(R.cells) : \A t \in 1..Len(CellTags) : R.cells[c][CellTags[t].name] = FieldValue(Ft, "cell", c, 0, t)
P_FaceTypes == R.outcome = "ok" =>
                  \A c \in 1..Len(R.cells) : /\ Len(R.cells[c].faces) = R.shape[c]
                                             /\ \A f \in 1..Len(R.cells[c].faces) : \A t \in 1..Len(FaceTags) :
                                                    R.cells[c].faces[f][FaceTags[t].name] = FieldValue(Ft, "face", c, f, t)
=============================================================================
