SPECIFICATION TSpec
CONSTANTS
  SwapRefreshesNormals = TRUE
  MergeKeepsFourNodes = TRUE
INVARIANTS P_WriteSucceeds P_Counts P_FileIsWrite P_ReadBack P_PathWriter P_NoRebaseWriter P_ReaderIsRead
CHECK_DEADLOCK FALSE
