------------------------------ MODULE VtkFaults ------------------------------
(***************************************************************************)
(* C17, mesh-file half: structured faults of a cell-data file.  A fault is *)
(* one edit of the abstract file Write(pop) of VtkFormat; the verdict is   *)
(* derived from the format's own consistency predicate: a file that is not *)
(* well formed must be diagnosed ("reject"), any other must at least not   *)
(* crash the start-up ("either").  TLC enumerates (population, fault,      *)
(* position); the check renders every mutant to bytes and feeds it to the  *)
(* real start-up path.                                                     *)
(***************************************************************************)
EXTENDS VtkFormat
CONSTANTS NTypesDefined,           \* number of cell types the parameter file defines
          WrapIds                  \* point ids at which index arithmetic of a reader can wrap: 2^31 / m + d and 2^32 / m + d for small m, d
VARIABLES pop, op, at, arg, mut

Ops == {"none", "npoints_plus", "npoints_minus", "drop_point", "ncells_plus", "ncells_minus", "nints_plus", "rowcount_plus", "rowcount_minus",
        "nfaces_plus", "nfaces_minus", "node_oob", "node_huge", "ctype_bad", "ntypes_minus", "typeid_oob", "drop_typeid", "dup_row", "drop_row", "facesize_4", "node_wrap",
        "node_first_invalid", "typeid_first_invalid"}     \* the first value beyond the valid range (a range test wrong only at equality lets it through)

SetRow(f, i, r) == [f EXCEPT !.rows[i] = r]
Mutate(f, o, i, a) ==
    CASE o = "none"          -> f
      [] o = "npoints_plus"  -> [f EXCEPT !.npoints = @ + 1]
      [] o = "npoints_minus" -> [f EXCEPT !.npoints = @ - 1]
      [] o = "drop_point"    -> [f EXCEPT !.coords = SubSeq(@, 1, Len(@) - 1)]
      [] o = "ncells_plus"   -> [f EXCEPT !.ncells = @ + 1]
      [] o = "ncells_minus"  -> [f EXCEPT !.ncells = @ - 1]
      [] o = "nints_plus"    -> [f EXCEPT !.nints = @ + 1]
      [] o = "rowcount_plus" -> SetRow(f, i, [f.rows[i] EXCEPT ![1] = @ + 1])
      [] o = "rowcount_minus"-> SetRow(f, i, [f.rows[i] EXCEPT ![1] = @ - 1])
      [] o = "nfaces_plus"   -> SetRow(f, i, [f.rows[i] EXCEPT ![2] = @ + 1])
      [] o = "nfaces_minus"  -> SetRow(f, i, [f.rows[i] EXCEPT ![2] = @ - 1])
      [] o = "node_oob"      -> SetRow(f, i, [f.rows[i] EXCEPT ![4] = f.npoints + 3])
      [] o = "node_first_invalid"   -> SetRow(f, i, [f.rows[i] EXCEPT ![4] = f.npoints])
      [] o = "typeid_first_invalid" -> [f EXCEPT !.typeids[i] = NTypesDefined]
      [] o = "node_huge"     -> SetRow(f, i, [f.rows[i] EXCEPT ![Len(f.rows[i])] = 99999999])
      [] o = "ctype_bad"     -> [f EXCEPT !.ctypes[i] = 41]
      [] o = "ntypes_minus"  -> [f EXCEPT !.ntypes = @ - 1]
      [] o = "typeid_oob"    -> [f EXCEPT !.typeids[i] = NTypesDefined + 2]
      [] o = "drop_typeid"   -> [f EXCEPT !.typeids = SubSeq(@, 1, Len(@) - 1)]
      [] o = "dup_row"       -> [f EXCEPT !.rows = @ \o <<@[i]>>]
      [] o = "drop_row"      -> [f EXCEPT !.rows = SubSeq(@, 1, Len(@) - 1)]
      [] o = "facesize_4"    -> SetRow(f, i, [f.rows[i] EXCEPT ![3] = 4])
      [] o = "node_wrap"     -> SetRow(f, i, [f.rows[i] EXCEPT ![Len(f.rows[i]) - 1] = a])

NodeIdsInRange(f) == \A i \in 1..Len(f.rows) : \A j \in 3..Len(f.rows[i]) : ((j - 3) % 4 # 0) => f.rows[i][j] < f.npoints
FaceSizes3(f)     == \A i \in 1..Len(f.rows) : \A j \in 3..Len(f.rows[i]) : ((j - 3) % 4 = 0) => f.rows[i][j] = 3
WellFormedFile(f) == /\ f.npoints >= 0 /\ f.ncells >= 1
                     /\ \A i \in 1..Len(f.rows) : Len(f.rows[i]) >= 2
                     /\ CountsConsistent(f) /\ NodeIdsInRange(f) /\ FaceSizes3(f)
                     /\ \A i \in 1..Len(f.typeids) : f.typeids[i] < NTypesDefined
Verdict(f) == IF WellFormedFile(f) THEN "either" ELSE "reject"

Seeds == {Tetra, Octa}
SeedXyz(m, dx) == IF m = Tetra THEN << <<1 + dx, 1, 1>>, <<1 + dx, -1, -1>>, <<-1 + dx, 1, -1>>, <<-1 + dx, -1, 1>> >>
                  ELSE << <<1 + dx, 0, 0>>, <<-1 + dx, 0, 0>>, <<dx, 1, 0>>, <<dx, -1, 0>>, <<dx, 0, 1>>, <<dx, 0, -1>> >>
Init == /\ \E n \in 1..2 : \E ms \in [1..n -> Seeds] : \E ts \in [1..n -> 0..(NTypesDefined - 1)] :
              pop = [i \in 1..n |-> [mesh |-> ms[i], xyz |-> SeedXyz(ms[i], 10 * i), type |-> ts[i]]]
        /\ op \in Ops /\ at \in 1..Len(pop)
        /\ (op \in {"none", "npoints_plus", "npoints_minus", "drop_point", "ncells_plus", "ncells_minus", "nints_plus", "ntypes_minus", "drop_typeid", "drop_row"} => at = 1)
        /\ arg \in (IF op = "node_wrap" THEN WrapIds ELSE {0})
        /\ (op = "node_wrap" => Len(pop) = 1)
        /\ mut = Mutate(Write(pop), op, at, arg)
Next == UNCHANGED <<pop, op, at, arg, mut>>
Spec == Init /\ [][Next]_<<pop, op, at, arg, mut>>

\* the base file is well formed and every fault really breaks the format's consistency
Inv_BaseWellFormed == op = "none" => WellFormedFile(mut)
Inv_FaultBreaks    == op # "none" => Verdict(mut) = "reject"
=============================================================================
