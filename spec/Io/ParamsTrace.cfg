SPECIFICATION TSpec
INVARIANTS P_Verdict P_Numerical P_CellTypes P_FaceTypes
CHECK_DEADLOCK FALSE
