SPECIFICATION TSpec
INVARIANTS P_BigNoError P_BigRoundTrip P_BigIsBig
CHECK_DEADLOCK FALSE
