SPECIFICATION Spec
CONSTANTS
  SwapRefreshesNormals = TRUE
  MergeKeepsFourNodes = TRUE
  NTypesDefined = 2
INVARIANTS Inv_BaseWellFormed Inv_FaultBreaks
CHECK_DEADLOCK FALSE
