-------------------------------- MODULE VtkMC --------------------------------
(* Design check: for every population in the bound, reading what the writer writes gives the same tissue. *)
EXTENDS VtkFormat
CONSTANTS MaxCells
VARIABLES pop
\* meshes with and without unused slots: the seeds and everything one remeshing operation away from them
OneOp(m) == {Split(m, x[1], x[2], x[3], x[4]) : x \in {y \in (0..5) \X (0..5) \X (0..7) \X (0..7) : SplitOK(m, y[1], y[2], y[3], y[4])}}
            \cup {Merge(m, x[1], x[2], x[3], x[4]) : x \in {y \in (0..5) \X (0..5) \X (0..7) \X (0..7) : SplitOK(m, y[1], y[2], y[3], y[4]) /\ CanMerge(m, y[1], y[2])}}
Meshes == {Tetra, Octa, Bipyr} \cup OneOp(Octa) \cup OneOp(Bipyr)
Xyz(m, salt) == [s \in 1..m.nslots |-> <<3 * s + salt, -(3 * s + 1) - salt, 100 + 7 * s>>]
Init == \E n \in 1..MaxCells : \E ms \in [1..n -> Meshes] : \E ts \in [1..n -> 0..4] :
           pop = [i \in 1..n |-> [mesh |-> ms[i], xyz |-> Xyz(ms[i], 50 * i), type |-> ts[i]]]
Next == UNCHANGED pop
Spec == Init /\ [][Next]_pop
Inv_RoundTrip == RoundTrip(pop)
=============================================================================
