------------------------------- MODULE ParamsMC -------------------------------
EXTENDS Params
CONSTANT FaultKinds
VARIABLES shape, fault, verdict
Shapes == {<<1>>, <<3>>, <<2, 1>>, <<3, 1, 2>>}
Faults == [sec : {"num", "cell", "face"}, c : 0..3, f : 0..3, t : 1..14, kind : FaultKinds] \cup {[sec |-> "none", c |-> 0, f |-> 0, t |-> 1, kind |-> "omit"]}
Init == /\ shape \in Shapes /\ fault \in Faults
        /\ Applicable(shape, fault) /\ Meaningful(fault)
        /\ (fault.sec = "num" => fault.c = 0 /\ fault.f = 0) /\ (fault.sec = "cell" => fault.f = 0)
        /\ verdict = Verdict(fault)
Next == UNCHANGED <<shape, fault, verdict>>
Spec == Init /\ [][Next]_<<shape, fault, verdict>>
Inv_Schema == TokensDistinct(shape) /\ SamplingNotBelowStep /\ Verdict(fault) \in {"accept", "reject", "either"}
\* every omission is rejected and every documented INF accepted
Inv_Rules == /\ (fault.sec # "none" /\ fault.kind = "omit") => Verdict(fault) = "reject"
             /\ (fault.sec # "none" /\ fault.kind = "inf" /\ FaultTag(fault).inf) => Verdict(fault) = "accept"
=============================================================================
