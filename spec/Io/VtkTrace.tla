------------------------------- MODULE VtkTrace -------------------------------
(* C16: validation of real mesh_writer / mesh_reader runs against VtkFormat.  One record per population: the population before
   the write (harness/drivers/vtk_driver.cpp), the written file tokenised by checks/c16.py, and what the real reader returned. *)
EXTENDS VtkFormat, Json, IOUtils
Log == ndJsonDeserialize(IOEnv.OBS)
VARIABLES k, pop
R == Log[k]
ToSet(q) == {q[i] : i \in 1..Len(q)}
FromJson(j) == [ nslots |-> j.nslots, fslots |-> j.fslots, used |-> ToSet(j.used),
                 tri   |-> [f \in 0..(j.fslots - 1) |-> j.tri[f + 1]],
                 ftype |-> [f \in 0..(j.fslots - 1) |-> j.ftype[f + 1]],
                 nrm   |-> [f \in 0..(j.fslots - 1) |-> j.nrm[f + 1]],
                 freeN |-> j.freeN, freeF |-> j.freeF ]
TInit == /\ k \in 1..Len(Log)
         /\ pop = [i \in 1..Len(Log[k].cells) |-> [mesh |-> FromJson(Log[k].cells[i].mesh), xyz |-> Log[k].cells[i].xyz, type |-> Log[k].cells[i].type]]
TSpec == TInit /\ [][UNCHANGED <<k, pop>>]_<<k, pop>>

F == R.file
P_WriteSucceeds  == R.write_error = "" /\ F.parsed
P_Counts         == F.parsed => (CountsConsistent(F) /\ F.fields_ok /\ F.prec_ok)
P_FileIsWrite    == F.parsed => [f \in {"npoints", "coords", "ncells", "nints", "rows", "ntypes", "ctypes", "cdn", "typeids"} |-> F[f]]
                                  = [f \in {"npoints", "coords", "ncells", "nints", "rows", "ntypes", "ctypes", "cdn", "typeids"} |-> Write(pop)[f]]
P_ReadBack       == /\ R.read.ok
                    /\ R.read.cells = Normalise(pop)
                    /\ R.read.types = [i \in 1..Len(pop) |-> pop[i].type]
                    /\ R.read.prec_ok
\* the reader returns what the specification's reader returns for the tokens that are really in the file
\* the path-based writer of the cell-data file (default arguments, cells as they are) yields a file that reads back identically
P_PathWriter     == R.read.ok => R.read.path_same
\* the file written with compaction switched off (every node slot listed, a cell's faces referencing a non-contiguous subset of its
\* points) is read back as the same tissue as the compacted file
P_NoRebaseWriter == R.read.ok => R.read.norebase_same
P_ReaderIsRead   == (F.parsed /\ R.read.ok) => R.read.cells = Read(F)
=============================================================================
