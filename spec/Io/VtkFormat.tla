------------------------------ MODULE VtkFormat ------------------------------
(***************************************************************************)
(* The cell-data mesh file of SimuCell3D as an abstract object, the writer *)
(* (mesh_writer::write -> write_cell_data_file / write_point_data /        *)
(* write_cell_data / add_cell_data_arrays_to_mesh) and the reader          *)
(* (mesh_reader::read, get_cell_types) as operators over it.               *)
(* Properties C16 (round trip, declared counts) and the format part of C17.*)
(*                                                                         *)
(* A population is a sequence of cells [mesh, xyz, type]: mesh is a Mesh   *)
(* record (possibly with unused slots: the writer compacts first), xyz     *)
(* gives one coordinate token triple per node slot, type the cell type id. *)
(* A coordinate token is an integer; the drivers map token k to a real     *)
(* number and back at the written precision (%.4e).                        *)
(***************************************************************************)
EXTENDS Mesh

\* ---- helpers
RECURSIVE SumTo(_, _)
SumTo(f, n) == IF n = 0 THEN 0 ELSE f[n] + SumTo(f, n - 1)
RECURSIVE Flat(_)
Flat(ss) == IF ss = <<>> THEN <<>> ELSE Head(ss) \o Flat(Tail(ss))
UsedSeq(m) == LET RECURSIVE F(_)
                  F(i) == IF i = m.nslots THEN <<>> ELSE (IF i \in m.used THEN <<i>> ELSE <<>>) \o F(i + 1)
              IN F(0)

\* a cell after the compaction the writer performs first (cell::rebase): all slots used, order preserved
CompactCell(c) == LET r == Rebase(c.mesh)
                  keep == UsedSeq(c.mesh)
              IN [nn |-> Len(keep), nodes |-> [i \in 1..Len(keep) |-> c.xyz[keep[i] + 1]],
                  tris |-> [f \in 1..r.fslots |-> r.tri[f - 1]], type |-> c.type]

(* The file the writer produces for a population *)
Write(pop) ==
    LET cs  == [i \in 1..Len(pop) |-> CompactCell(pop[i])]
        nn  == [i \in 1..Len(pop) |-> cs[i].nn]
        off == [i \in 1..Len(pop) |-> SumTo(nn, i - 1)]
        row(i) == <<1 + 4 * Len(cs[i].tris), Len(cs[i].tris)>> \o
                  Flat([f \in 1..Len(cs[i].tris) |-> <<3, cs[i].tris[f][1] + off[i], cs[i].tris[f][2] + off[i], cs[i].tris[f][3] + off[i]>>])
        ints == [i \in 1..Len(pop) |-> 1 + 4 * Len(cs[i].tris)]
    IN [ npoints |-> SumTo(nn, Len(pop)),
         coords  |-> Flat([i \in 1..Len(pop) |-> cs[i].nodes]),
         ncells  |-> Len(pop),
         nints   |-> Len(pop) + SumTo(ints, Len(pop)),
         rows    |-> [i \in 1..Len(pop) |-> row(i)],
         ntypes  |-> Len(pop),
         ctypes  |-> [i \in 1..Len(pop) |-> 42],
         cdn     |-> Len(pop),
         typeids |-> [i \in 1..Len(pop) |-> cs[i].type] ]

(* The declared counts of a file match its contents *)
CountsConsistent(f) ==
    /\ f.npoints = Len(f.coords)
    /\ f.ncells = Len(f.rows) /\ f.ntypes = Len(f.ctypes) /\ f.ncells = f.ntypes /\ f.cdn = f.ncells /\ Len(f.typeids) = f.ncells
    /\ f.nints = f.ncells + SumTo([i \in 1..Len(f.rows) |-> f.rows[i][1]], Len(f.rows))
    /\ \A i \in 1..Len(f.rows) : /\ f.rows[i][1] = Len(f.rows[i]) - 1               \* integers that follow the first one
                                 /\ f.rows[i][1] = 1 + 4 * f.rows[i][2]             \* one count + (3 + three ids) per triangle
    /\ \A i \in 1..Len(f.ctypes) : f.ctypes[i] = 42

(* What the reader returns for a file: per cell the nodes its faces use (sorted by global id, renumbered from 0) and the faces *)
SortedSeq(S) == LET RECURSIVE F(_)
                    F(T) == IF T = {} THEN <<>> ELSE LET x == CHOOSE a \in T : \A b \in T : a <= b IN <<x>> \o F(T \ {x})
                IN F(S)
IndexOf(q, x) == CHOOSE i \in 1..Len(q) : q[i] = x
ReadCell(f, i) ==
    LET r == f.rows[i]
        nf == r[2]
        tri(k) == <<r[2 + 4 * (k - 1) + 2], r[2 + 4 * (k - 1) + 3], r[2 + 4 * (k - 1) + 4]>>
        glob == SortedSeq(UNION {{tri(k)[1], tri(k)[2], tri(k)[3]} : k \in 1..nf})
    IN [nodes |-> [j \in 1..Len(glob) |-> f.coords[glob[j] + 1]],
        tris  |-> [k \in 1..nf |-> <<IndexOf(glob, tri(k)[1]) - 1, IndexOf(glob, tri(k)[2]) - 1, IndexOf(glob, tri(k)[3]) - 1>>]]
Read(f) == [i \in 1..f.ncells |-> ReadCell(f, i)]
Normalise(pop) == [i \in 1..Len(pop) |-> LET c == CompactCell(pop[i]) IN [nodes |-> c.nodes, tris |-> c.tris]]
RoundTrip(pop) == Read(Write(pop)) = Normalise(pop) /\ CountsConsistent(Write(pop)) /\ Write(pop).typeids = [i \in 1..Len(pop) |-> pop[i].type]
=============================================================================
