SPECIFICATION Spec
CONSTANTS
  SwapRefreshesNormals = TRUE
  MergeKeepsFourNodes = TRUE
  MaxCells = 2
INVARIANTS Inv_RoundTrip
CHECK_DEADLOCK FALSE
