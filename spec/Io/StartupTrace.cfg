SPECIFICATION TSpec
INVARIANTS P_FlagOffKeepsTheMesh P_FlagOnRemeshes P_EdgeLengthGoverns P_EdgeLengthGovernsTheRun
CHECK_DEADLOCK FALSE
